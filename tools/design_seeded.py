#!/usr/bin/env python3
"""Rewrites the block between the SEEDED markers in DESIGN.md from seeded/*/meta.json."""
import glob, json, os, re
here = os.path.dirname(os.path.dirname(os.path.abspath(__file__)))
rows = []
for p in sorted(glob.glob(os.path.join(here, "seeded", "*", "meta.json"))):
    m = json.load(open(p))
    name = p.split(os.sep)[-2]
    fe = m.get("final_evaluation")
    if fe:          # the re-evaluation of every stored change against the final checks (tools/reseed_all.py)
        caught = ", ".join(f"{c} ({'; '.join(fe['checks'][c]['signatures'][:2])})" for c in fe.get("caught_by", [])) or "— (missed)"
        missed = [c for c, v in fe.get("checks", {}).items() if v["exit"] != 1]
    else:
        caught = ", ".join(f"{c} ({'; '.join(m['checks_run_against_it'][c]['signatures'][:2])})" for c in m.get("caught_by", [])) or "— (missed)"
        missed = [c for c, v in m.get("checks_run_against_it", {}).items() if v["exit"] != 1]
    hist = m.get("history", "")
    if m.get("ported"):
        hist = (hist + " " if hist else "") + "[" + m["ported"] + "]"
    rows.append(f"| {name} | {m['summary'][:230].replace('|', '/')} | {m['needs'][:200].replace('|', '/')} | {caught[:260].replace('|', '/')} | {('not by ' + ', '.join(missed) + '. ') if missed else ''}{hist.replace('|', '/')} |")
block = ("<!-- SEEDED:BEGIN -->\n"
         "| Seeded change | What it does | Needs to manifest | Caught by (quick tier; signatures) | Notes |\n|---|---|---|---|---|\n" + "\n".join(rows) + "\n<!-- SEEDED:END -->")
p = os.path.join(here, "DESIGN.md")
s = open(p).read()
if "<!-- SEEDED:BEGIN -->" in s:
    s = re.sub(r"<!-- SEEDED:BEGIN -->.*?<!-- SEEDED:END -->", lambda _: block, s, flags=re.S)
else:
    s = s.replace("---------------------------------------------------------------------------\n\n## 0. Vocabulary",
                  "### Seeded changes (from independent sub-agents that saw only the property text) and which checks catch them\n\n"
                  "Each change was confirmed by me in a scratch worktree (demonstration exits 0 on the clean tree, non-zero with the patch), is kept\n"
                  "under `seeded/<id>/` (patch.diff, demonstration, meta.json with what was run), was applied to /repo with `git apply`, run through\n"
                  "the quick tier of its property's check (and others where noted) and undone. Where a change was missed the check was strengthened\n"
                  "and the change re-run; the Notes column says so.\n\n" + block +
                  "\n\n---------------------------------------------------------------------------\n\n## 0. Vocabulary", 1)
open(p, "w").write(s)
print(len(rows), "seeded changes listed")
