#!/usr/bin/env python3
"""tools/reseed_all.py [ID-prefix...] — re-evaluate every stored seeded change against the current checks.

For each /verif/seeded/<PROP>-<k>/ a scratch copy of /repo's working tree gets the patch (`patch -p1`), the property's
quick tier runs against it (LIAN_REPO), and the outcome is written to meta.json["final_evaluation"].  Evidence and
replay files produced by these runs are thrown away (the evidence directory is restored from git afterwards).
Environment: JOBS (parallel evaluations, default 3), SEED (default 0), ALSO_<PROP>="C18 ..." extra checks per property."""
import json, os, shutil, subprocess, sys, glob
from concurrent.futures import ThreadPoolExecutor

HERE = os.path.dirname(os.path.dirname(os.path.abspath(__file__)))
JOBS = int(os.environ.get("JOBS", "3"))
SEED = os.environ.get("SEED", "0")
EXTRA = {"C14-2": ["C18"], "C09-1": ["C08"], "C10-2": ["C11"], "C11-2": ["C10"]}


def sh(cmd, **kw):
    return subprocess.run(cmd, shell=True, capture_output=True, text=True, **kw)


def one(sid):
    prop = sid.split("-")[0]
    d = f"{HERE}/seeded/{sid}"
    target = f"/tmp/reseed_{sid}"
    sh(f"{HERE}/tools/scratch_repo.sh {target}")
    ap = sh(f"cd {target} && patch -p1 --no-backup-if-mismatch < {d}/patch.diff")
    res = {"applies": ap.returncode == 0, "repo_head": sh("git -C /repo rev-parse --short HEAD").stdout.strip(), "seed": SEED, "checks": {}}
    if ap.returncode == 0:
        for chk in [prop] + EXTRA.get(sid, []):
            r = sh(f"cd {HERE} && LIAN_REPO={target} ./check {chk} --tier quick --seed {SEED}", timeout=7200)
            sigs = sorted({l.split(":", 1)[1].strip().split(": ")[0][:140] for l in r.stdout.splitlines() if l.startswith("  violated")})
            res["checks"][chk] = {"exit": r.returncode, "signatures": sigs[:6]}
    res["caught_by"] = [c for c, v in res["checks"].items() if v["exit"] == 1]
    shutil.rmtree(target, ignore_errors=True)
    m = json.load(open(f"{d}/meta.json"))
    m["final_evaluation"] = res
    json.dump(m, open(f"{d}/meta.json", "w"), indent=1)
    return sid, res


def main():
    ids = sorted(os.path.basename(p) for p in glob.glob(f"{HERE}/seeded/C*-*"))
    if sys.argv[1:]:
        ids = [i for i in ids if any(i.startswith(a) for a in sys.argv[1:])]
    with ThreadPoolExecutor(JOBS) as ex:
        for sid, res in ex.map(one, ids):
            print(sid, "applies" if res["applies"] else "DOES NOT APPLY", "caught by", res["caught_by"] or "NOTHING",
                  {c: v["signatures"][:2] for c, v in res["checks"].items()}, flush=True)
    # evidence and replay files written by the mutated runs do not describe /repo: restore / remove them
    sh(f"cd {HERE} && git checkout -- evidence && rm -rf replay")


if __name__ == "__main__":
    main()
