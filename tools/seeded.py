#!/usr/bin/env python3
"""tools/seeded.py <PROP> <worktree> [k...] — confirm a seeded change (demo passes clean, fails patched), store it under
/verif/seeded/<PROP>-<k>/, run the property's check(s) against /repo with the patch applied, undo, record the outcome."""
import json, os, shutil, subprocess, sys

prop, wt = sys.argv[1], sys.argv[2]
ks = sys.argv[3:] or ["1", "2"]
extra_checks = os.environ.get("ALSO", "").split()


def sh(cmd, **kw):
    return subprocess.run(cmd, shell=True, capture_output=True, text=True, **kw)


for k in ks:
    src = f"{wt}/_mutation/{k}"
    if not os.path.isdir(src):
        print(prop, k, "missing"); continue
    demo = "demo.py" if os.path.exists(f"{src}/demo.py") else "demo.sh"
    run_demo = f"cd /tmp && /venv/bin/python {src}/{demo}" if demo.endswith(".py") else f"cd /tmp && sh {src}/{demo}"
    sh(f"git -C {wt} checkout -- .")
    r0 = sh(run_demo, timeout=900)
    a = sh(f"git -C {wt} apply {src}/patch.diff")
    r1 = sh(run_demo, timeout=900)
    sh(f"git -C {wt} checkout -- .")
    confirmed = r0.returncode == 0 and r1.returncode != 0 and a.returncode == 0
    dst = f"/verif/seeded/{prop}-{k}"
    os.makedirs(dst, exist_ok=True)
    for f in ("patch.diff", demo, "meta.json"):
        shutil.copy(f"{src}/{f}", f"{dst}/{f}")
    meta = json.load(open(f"{dst}/meta.json"))
    meta["confirmed_by_me"] = {"demo_on_clean_worktree_exit": r0.returncode, "demo_with_patch_exit": r1.returncode,
                               "patch_applies_to_worktree": a.returncode == 0,
                               "demo_patched_tail": (r1.stdout + r1.stderr)[-400:]}
    results = {}
    if os.environ.get("SCRATCH"):
        # while other jobs use /repo: a scratch copy of /repo's working tree carries the patch (LIAN_REPO selects it)
        target = f"/tmp/seeded_scratch_{prop}_{k}"
        sh(f"/verif/tools/scratch_repo.sh {target}")
        applied = sh(f"cd {target} && patch -p1 --no-backup-if-mismatch < {dst}/patch.diff").returncode == 0
        envp = f"LIAN_REPO={target} "
        meta["run_against"] = "scratch copy of /repo HEAD with the patch applied (LIAN_REPO), because other jobs were using /repo"
    else:
        target = "/repo"
        envp = ""
        ap = sh(f"git -C /repo apply --check {dst}/patch.diff")
        if ap.returncode != 0:
            ap3 = sh(f"git -C /repo apply --3way {dst}/patch.diff")
            applied = ap3.returncode == 0
            if applied:
                sh("git -C /repo reset -q")      # --3way stages; keep the working tree change only
        else:
            applied = sh(f"git -C /repo apply {dst}/patch.diff").returncode == 0
    if applied:
        for chk in [prop] + extra_checks:
            r = sh(f"cd /verif && {envp}./check {chk} --tier quick", timeout=3000)
            sigs = sorted({l.split(":", 1)[1].strip().split(": ")[0][:120] for l in r.stdout.splitlines() if l.startswith("  violated")})
            results[chk] = {"exit": r.returncode, "signatures": sigs[:8]}
            shutil.rmtree(f"/verif/replay/{chk}", ignore_errors=True)
    if target == "/repo":
        sh("git -C /repo checkout -- . && git -C /repo status --short | head -3")
    else:
        shutil.rmtree(target, ignore_errors=True)
    meta["applies_to_current_repo"] = applied
    meta["checks_run_against_it"] = results
    meta["caught_by"] = [c for c, v in results.items() if v["exit"] == 1]
    json.dump(meta, open(f"{dst}/meta.json", "w"), indent=1)
    print(prop, k, "confirmed" if confirmed else f"NOT CONFIRMED (clean={r0.returncode}, patched={r1.returncode}, apply={a.returncode})",
          "| applies to /repo:", applied, "|", {c: (v["exit"], v["signatures"][:2]) for c, v in results.items()})
