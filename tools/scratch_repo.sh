#!/bin/sh
# usage: scratch_repo.sh <dir>   — a light scratch copy of /repo for deliberate-break experiments:
# src/ is copied, the big read-only directories are symlinked. Select it with LIAN_REPO=<dir>.
set -e
d="$1"; rm -rf "$d"; mkdir -p "$d"
cp -r /repo/src "$d/src"
for x in lib default_settings tests docs; do ln -s "/repo/$x" "$d/$x"; done
find "$d/src" -name __pycache__ -type d -prune -exec rm -rf {} + 2>/dev/null || true
echo "$d"
