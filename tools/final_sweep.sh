#!/bin/sh
# quick seeds 2..8 of the checks changed last, then their thorough tier on seed 0
cd "$(dirname "$0")/.."
tools/sweep.sh '2 3 4 5 6 7 8' 'C02 C05 C07 C10 C11 C13 C14 C16 C19 C20' quick
tools/sweep.sh '0' 'C13 C07 C10 C11 C05' thorough
