#!/venv/bin/python
"""Line-based reducer for a failing C01 case: tools/reduce_c01.py <replay.json | file.py>
Each round lowers all candidates (program minus one line / one block) in ONE lang run."""
import ast
import json
import os
import sys

sys.path.insert(0, os.path.dirname(os.path.dirname(os.path.abspath(__file__))))
from lib import common, forkpool, lianrun  # noqa
from checks import c01  # noqa


def candidates(src):
    lines = src.split("\n")
    out = []
    for i in range(len(lines)):
        if not lines[i].strip():
            continue
        ind = len(lines[i]) - len(lines[i].lstrip())
        # remove line i together with its more-indented block
        j = i + 1
        while j < len(lines) and (not lines[j].strip() or len(lines[j]) - len(lines[j].lstrip()) > ind):
            j += 1
        for cand in (lines[:i] + lines[j:], lines[:i] + [" " * ind + "pass"] + lines[j:]):
            t = "\n".join(cand)
            try:
                ast.parse(t)
            except SyntaxError:
                continue
            out.append(t)
        # dedent the block (remove a header such as `if c:` keeping its body)
        if j > i + 1:
            body = [l[4:] if l.startswith(" " * (ind + 4)) else l for l in lines[i + 1:j]]
            t = "\n".join(lines[:i] + body + lines[j:])
            try:
                ast.parse(t)
                out.append(t)
            except SyntaxError:
                pass
    return out


def judge(job):
    from lib import gen_py, pyoracle
    tag, cands = job
    per = c01.lower_project({f"c{i}.py": s for i, s in enumerate(cands)}, tag)
    res = []
    for i, s in enumerate(cands):
        rows = per.get(f"c{i}.py")
        bad = False
        for a in gen_py.ARG_VECTORS[:3]:
            py = pyoracle.run_cpython(s, "main", a)
            if py["status"] != "ok" or rows is None:
                continue
            vm = c01.run_vm(rows, a)
            if not c01.same(py, vm):
                bad = (a, py, vm)
                break
        res.append(bad)
    return res


def main():
    lianrun.prepare_zygote(warm=False)
    p = sys.argv[1]
    src = json.load(open(p))["case"]["src"] if p.endswith(".json") else open(p).read()
    rnd = 0
    while True:
        cands = candidates(src)
        cands.sort(key=len)
        if not cands:
            break
        r = forkpool.run_one(judge, (f"red{rnd}", cands), timeout=600)
        rnd += 1
        if r.status != "ok":
            print("judge failed", r.status, r.value)
            break
        nxt = None
        for c, bad in zip(cands, r.value):
            if bad:
                nxt = (c, bad)
                break
        if nxt is None:
            break
        src = nxt[0]
        last = nxt[1]
    print(src)
    r = forkpool.run_one(judge, ("final", [src]), timeout=600)
    print(r.value)


if __name__ == "__main__":
    main()
