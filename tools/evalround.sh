#!/bin/sh
# usage: tools/evalround.sh PROP worktree [ALSO...] — store the two changes of a mutation worktree under the next free
# indexes of seeded/<PROP>-<k> and evaluate them on scratch copies (SCRATCH mode of tools/seeded.py)
P=$1; W=$2; shift 2
cd "$(dirname "$0")/.."
n=$(ls -d seeded/$P-* 2>/dev/null | sed "s/.*-//" | sort -n | tail -1); n=${n:-0}
a=$((n+1)); b=$((n+2))
[ -d $W/_mutation/1 ] && [ ! -L $W/_mutation/1 ] && mv $W/_mutation/1 $W/_mutation/$a && ln -sfn $a $W/_mutation/1
[ -d $W/_mutation/2 ] && [ ! -L $W/_mutation/2 ] && mv $W/_mutation/2 $W/_mutation/$b && ln -sfn $b $W/_mutation/2
SCRATCH=1 ALSO="$*" python3 tools/seeded.py $P $W $a $b
