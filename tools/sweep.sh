#!/bin/sh
# tools/sweep.sh "<seeds>" "<checks>" [tier] — run checks x seeds, print one verdict line each (used via `vp run`)
cd "$(dirname "$0")/.."
[ -f .deps/.ok ] || ./setup.sh >/dev/null
tier="${3:-quick}"
for s in $1; do for c in $2; do
  t0=$(date +%s)
  out=$(VERIF_SEED=$s ./check $c --tier $tier 2>&1)
  rc=$?
  echo "seed=$s $c exit=$rc wall=$(( $(date +%s) - t0 ))s $(echo "$out" | grep -E '^(HELD|VIOLATION|INCONCLUSIVE)' | head -2 | tr '\n' ' ' | cut -c1-200)"
  [ $rc -ne 0 ] && echo "$out" | grep -E "violated|INCONCLUSIVE" | head -5 | cut -c1-300
done; done
exit 0
