#!/usr/bin/env python3
"""tools/bite.py <CHECK> <file-relative-to-repo> <old-text> <new-text> [tier]
Applies one textual break to a fresh scratch copy of /repo and runs the check against it; prints the verdict lines."""
import os, subprocess, sys, shutil, tempfile
chk, rel, old, new = sys.argv[1:5]
tier = sys.argv[5] if len(sys.argv) > 5 else "quick"
d = tempfile.mkdtemp(prefix="bite_")
subprocess.run(["/verif/tools/scratch_repo.sh", d], check=True, stdout=subprocess.DEVNULL)
p = os.path.join(d, rel)
s = open(p).read()
if s.count(old) != 1:
    print("PATTERN COUNT", s.count(old)); shutil.rmtree(d); sys.exit(2)
open(p, "w").write(s.replace(old, new))
env = dict(os.environ, LIAN_REPO=d, VERIF_TIER=tier)
r = subprocess.run(["/verif/check", chk], env=env, capture_output=True, text=True)
lines = [l for l in r.stdout.splitlines() if l.startswith(("VIOLATION", "HELD", "INCONCLUSIVE", "  violated"))]
sigs = sorted({l.split(":", 1)[1].strip()[:110] for l in lines if l.startswith("  violated")})
print(f"exit={r.returncode}", "| violated signatures:", sigs[:6], "| ", [l for l in lines if l.startswith(("HELD", "INCONCLUSIVE"))][:2])
shutil.rmtree(d)
shutil.rmtree(f"/verif/replay/{chk}", ignore_errors=True)
