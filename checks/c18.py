"""C18 — running lian never alters inputs and writes only inside its workspace.

Deciding step: the real `lian lang` command is run over an enumerated space of *filesystem configurations*
(where the workspace lies relative to the inputs, how it is named and addressed, which flags, what the
workspace already contains) inside a scratch root full of canaries, while three monitors of lib/monitors/fs.py
observe: a before/after inventory of the whole root (kind, size, SHA-256, link target, mode), an audit-hook log of
every mutating Python-level operation with the real path it acted on (forked child), and strace logs of true CLI
runs (`python src/lian/main.py …`: 36 configurations on the thorough tier, 6 of them on the quick tier) — the
only channel that sees native code and child processes.

Configuration space (core, 3 328 valid combinations; thorough runs all, quick a seeded covering sample of ~400):
  placement   disjoint | workspace beside the input | workspace inside the input | input inside the workspace | identical
  naming      -w omitted (default, relative to cwd) | -w …/lian_workspace | custom name containing `lian_workspace`
              | custom name to which lian appends `lian_workspace` | -w <existing directory> (appended)
  addressing  absolute | relative after chdir (input `.`) | -w through a symlinked parent | -w is itself a symlink
              | -w `link/../name` | input is a symlink | input through a symlinked parent
  input       one file | one directory | a directory, a file and a second directory
  old content nothing | files | sub-directories | links to a file / directory outside (absolute and relative)
  flags       --force | no --force
plus two-step histories — {no flag, -f, -inc, -f -inc} x {fresh workspace, foreign files only, the output of a real
earlier `-f` run, that output plus user files (also inside frontend/ and bak/), the same with the input edited in
between} — and families on a reduced grid: --incremental, --force --incremental, C header pre-processing (`-l c -I`, spawns
clang, writes next to the file it is given), --strict-parse-mode, and an old workspace whose `bak`, `src`, `externs`,
`frontend` entries are links to directories outside.  Every scratch root holds canaries beside the inputs, beside
the workspace, behind every link, a sibling whose name merely extends the workspace's name, non-matching and
upper-case-extension files and a symlink cycle inside the input.

Oracle per configuration (W = realpath of the workspace directory lian documents: the `-w` value, with
`lian_workspace` appended unless the value already contains that substring; default `-w` is `lian_workspace`):
 (a) everything outside W is unchanged in existence, kind, content, link target and mode; the only thing that
     may appear outside W is the chain of *directories* leading to W (there is no other way to create W);
 (b) every mutating operation (audit / strace) targets a path inside W, or creates such an ancestor directory;
     allow-list: /dev, /proc, and the scratch HOME the harness points HOME/MPLCONFIGDIR/TMPDIR/XDG_CACHE_HOME at
     (counted and reported, never silently dropped; in practice only matplotlib's font cache);
 (c) without --force and without --incremental nothing at all changes; with --force whatever disappears lay in W;
     with --incremental but without --force no pre-existing byte of W is lost: every entry is still there in place
     (same kind, content, link target) or — only for lian's own sub-directories, which the unchanged code copies to
     W/bak/<same path> before rewriting them — its content is found there; no delete/rename operation hits a
     pre-existing entry outside W/bak (whose own previous content is replaced by design: counted, not asserted);
 (d) bounded copying: the files / bytes the run wrote under W/src and W/externs do not exceed what the inputs (every
     real directory counted once, symlinks followed at most once) resp. lian's mock directory hold, nothing is
     written deeper than the inputs are, and the run does not die inside the workspace-preparation step.
An input that lies inside a forced workspace is deleted by the very clause that allows cleaning W; such
configurations are counted (`conflict: …`) and judged by (a)–(d) for everything else only.

Failure signature = <relation of W to the inputs on real paths>[+symlinked-ws]/<naming class>-name:<clause>[flags],
or, when the affected path lies behind a link of the old workspace / in the directory a lexical reading of
`-w link/..` names: symlink-in-old-workspace:<clause> / ws-arg-dotdot-through-symlink:<clause>.
"""
import errno
import itertools
import json
import os
import random
import shutil
import subprocess
import sys
import time
import traceback

from lib import common, forkpool, lianrun
from lib.monitors import fs

PROP = "C18"
DEFAULT = "lian_workspace"

PLACEMENTS = ["disjoint", "ws-beside-input", "ws-inside-input", "input-inside-ws", "identical"]
NAMES = ["default-omitted", "default-explicit", "containing", "plain", "plain-base"]
ADDRS = ["abs", "rel", "ws-link-parent", "ws-is-link", "ws-dotdot-link", "input-is-link", "input-link-parent"]
KINDS = ["file", "dir", "several"]
PRES = ["none", "files", "subdirs", "symlink-out"]
HOSTILE_PRES = ["symlink-bak", "symlink-subdirs"]     # links named like lian's own sub-directories (families only)
# two-step histories: the workspace is first produced by a real `-f` run of the same command (in a forked
# grandchild), then the user drops files into it / edits the input, then the run under observation happens
HISTORY_PRES = ["lian-run", "lian-run+user", "lian-run+edit", "lian-run+user+edit"]
# The contract of an un-forced --incremental run, read off the unchanged code (WorkspaceBuilder.backup_workspace):
# the previous content of bak/ is replaced (single-generation backup), each of these entries of the workspace is
# *copied* to bak/<same relative path> before anything is rewritten, and nothing else in the workspace is touched.
INC_MANAGED = ("src", "externs", "frontend", "semantic_p1", "semantic_p2", "semantic_p3",
               "state_flow_p2_dot", "state_flow_p3_dot", "taint", "module_symbols")
INC_BACKUP = "bak"
MODES = ["force", "noforce"]
NAME_CLASS = {"default-omitted": "default", "default-explicit": "default", "containing": "containing",
              "plain": "plain", "plain-base": "plain"}
LEAF = {"default-omitted": DEFAULT, "default-explicit": DEFAULT, "containing": "my_lian_workspace_v2",
        "plain": "out", "plain-base": None}
MODE_FLAGS = {"force": ["-f"], "noforce": [], "inc": ["-inc"], "force-inc": ["-f", "-inc"]}
LANG_ARGS = {"python": ("python", []), "python-strict": ("python", ["--strict-parse-mode"]),
             "c-preprocess": ("c", ["-I"])}
LANG_EXTS = {"python": [".py"], "c": [".c", ".h", ".i"]}
REL_PRIORITY = ["identical", "input-inside-ws", "ws-inside-input", "ws-beside-input", "disjoint"]

# generous envelopes for what is *not* a copy (lian's own artefacts: indexes, bundles, fixed sub-directories)
ARTEFACT_FILES_MAX = 600
DEPTH_SLACK = 6


def valid(cfg):
    if cfg["kind"] == "file" and cfg["placement"] in ("ws-inside-input", "identical"):
        return False
    if cfg["name"] == "plain-base" and cfg["addr"] == "ws-is-link":
        return False
    if cfg["name"] == "default-omitted" and cfg["addr"] in ("ws-link-parent", "ws-dotdot-link"):
        return False
    return True


def cfg_key(cfg):
    return "|".join(str(cfg[k]) for k in ("placement", "name", "addr", "kind", "pre", "mode", "lang"))


def make_cfg(placement, name, addr, kind, pre, mode, lang="python"):
    return {"placement": placement, "name": name, "addr": addr, "kind": kind, "pre": pre, "mode": mode, "lang": lang}


# ----------------------------------------------------------------------------------------------------------------
# scratch tree

def _w(path, text):
    os.makedirs(os.path.dirname(path), exist_ok=True)
    with open(path, "w") as f:
        f.write(text)


def populate_project(d, tag):
    """A small project with traps: upper-case extension, many non-matching files (one of them big), an empty
    directory.  Symlink traps are added by `add_link_traps` once the canaries exist."""
    _w(f"{d}/a.py", f"x = 1  # {tag}\n\ndef f(a):\n    return a + x\n")
    _w(f"{d}/sub/b.py", "import a\ny = a.f(2)\n")
    _w(f"{d}/sub/deep/c.py", "class C:\n    def m(self, v):\n        return v\n")
    _w(f"{d}/UPPER.PY", "z = 3\n")
    _w(f"{d}/m.c", "#include <stdio.h>\nint g(int a) { return a + 1; }\nint main() { return g(1); }\n")
    _w(f"{d}/sub/inc.h", "int g(int a);\n")
    _w(f"{d}/notes.txt", "not source\n")
    _w(f"{d}/README.md", "# readme\n")
    _w(f"{d}/data.json", "{}\n")
    _w(f"{d}/Makefile", "all:\n")
    _w(f"{d}/big.dat", "0123456789abcdef" * 4096)
    _w(f"{d}/sub/style.css", "a {}\n")
    _w(f"{d}/sub/deep/more.txt", "more\n")
    _w(f"{d}/sub/deep/page.html", "<p>\n")
    os.makedirs(f"{d}/empty_dir", exist_ok=True)


def add_link_traps(d, canary_dir):
    os.symlink(canary_dir, f"{d}/link_dir")                                   # absolute link to a directory outside
    os.symlink(os.path.relpath(f"{canary_dir}/keep.py", d), f"{d}/link_file.py")   # relative link to a file outside
    os.symlink("..", f"{d}/sub/loop")                                         # a cycle


def materialise(cfg, top):
    """Build the scratch tree for one configuration below `top` and return the plan (argv, cwd, paths)."""
    top = os.path.realpath(top)
    assert DEFAULT not in top, top
    root, home = f"{top}/root", f"{top}/home"
    os.makedirs(home)
    area, wsarea, links = f"{root}/area", f"{root}/wsarea", f"{root}/links"
    canary_dir, outside = f"{root}/canary_dir", f"{root}/outside_target"
    proj, single, other = f"{area}/proj", f"{area}/single.py", f"{area}/other"
    for d in (area, wsarea, links):
        os.makedirs(d)
    _w(f"{root}/canary_top.txt", "top canary\n")
    _w(f"{canary_dir}/keep.py", "keep = 1\n")
    _w(f"{canary_dir}/data.bin", "\x00\x01\x02" * 100)
    _w(f"{canary_dir}/inner/deep.py", "deep = 2\n")
    _w(f"{area}/canary_beside_inputs.txt", "beside inputs\n")
    _w(f"{area}/canary_sibling/s.py", "s = 1\n")
    _w(f"{wsarea}/canary_beside_ws.txt", "beside ws\n")
    _w(f"{wsarea}/canary_ws_sibling/w.py", "w = 1\n")
    _w(f"{outside}/t.py", "t = 1\n")
    _w(f"{outside}/t.txt", "t\n")
    _w(f"{outside}/inner/u.py", "u = 1\n")
    populate_project(proj, "proj")
    add_link_traps(proj, canary_dir)
    _w(single, "single = 1\n")
    _w(f"{other}/o.py", "o = 1\n")
    _w(f"{other}/o.txt", "o\n")
    _w(f"{other}/more/p.py", "p = 1\n")
    settings = lianrun.write_settings(f"{root}/settings")

    P, N, A, K, pre = cfg["placement"], cfg["name"], cfg["addr"], cfg["kind"], cfg["pre"]
    base = {"disjoint": wsarea, "ws-beside-input": area, "ws-inside-input": proj,
            "input-inside-ws": wsarea, "identical": wsarea}[P]
    leaf = LEAF[N]
    w_lex = base if leaf is None else f"{base}/{leaf}"
    w_given = w_lex
    if A == "ws-is-link":
        store = f"{base}/store_real"
        os.makedirs(store)
        os.symlink(store, w_lex)
    elif A == "ws-link-parent":
        os.symlink(base, f"{links}/wsparent_link")
        w_given = f"{links}/wsparent_link" + ("" if leaf is None else f"/{leaf}")
    elif A == "ws-dotdot-link":
        # `link/..` is the parent of the link's *target* for the kernel, the parent of the *link* for abspath()
        os.makedirs(f"{base}/nested_real")
        os.symlink(f"{base}/nested_real", f"{links}/deep_link")
        w_given = f"{links}/deep_link/.." + ("" if leaf is None else f"/{leaf}")
    eff_given = w_given if DEFAULT in w_given[len(top):] else f"{w_given}/{DEFAULT}"
    ws_real = os.path.realpath(eff_given)
    decoy = None
    if A == "ws-dotdot-link":
        decoy = os.path.normpath(eff_given)          # where a purely lexical reading of the same argument points
        assert decoy != ws_real
        _w(f"{decoy}/decoy_keep.txt", "not the workspace\n")
        _w(f"{decoy}/decoy_dir/inner.py", "inner = 1\n")

    # inputs
    if P == "identical":
        main_real = ws_real
        populate_project(main_real, "identical")
        add_link_traps(main_real, canary_dir)
        main_lex = eff_given
    elif P == "input-inside-ws":
        if K == "file":
            main_real = f"{ws_real}/inner_single.py"
            _w(main_real, "inner = 1\n")
        else:
            main_real = f"{ws_real}/inner_proj"
            populate_project(main_real, "inner")
            add_link_traps(main_real, canary_dir)
        main_lex = f"{eff_given}/{os.path.basename(main_real)}"
    else:
        main_real = single if K == "file" else proj
        main_lex = main_real
    if A == "input-is-link":
        main_given = f"{links}/in_link" + (".py" if K == "file" else "")
        os.symlink(main_real, main_given)
    elif A == "input-link-parent":
        os.symlink(os.path.dirname(main_real), f"{links}/inparent_link")
        main_given = f"{links}/inparent_link/{os.path.basename(main_real)}"
    elif A in ("ws-is-link", "ws-link-parent", "ws-dotdot-link"):
        main_given = main_real
    else:
        main_given = main_lex
    inputs = [main_given]
    if K == "several":
        inputs += [single, other]

    # what the workspace already holds (the two-step histories fill it later with a real run: history_stage)
    if pre in HISTORY_PRES:
        pre = "none"
    if pre != "none":
        os.makedirs(ws_real, exist_ok=True)
        _w(f"{ws_real}/old_note.txt", "old note\n")
        _w(f"{ws_real}/old_mod.py", "old = 1\n")
    if pre == "symlink-bak":
        os.symlink(outside, f"{ws_real}/bak")
    if pre == "symlink-subdirs":
        os.makedirs(f"{outside}/s1")
        os.makedirs(f"{outside}/s2")
        os.symlink(f"{outside}/s1", f"{ws_real}/src")
        os.symlink(f"{outside}/s2", f"{ws_real}/externs")
        os.symlink(f"{outside}/inner", f"{ws_real}/frontend")
    if pre in ("subdirs", "symlink-out"):
        _w(f"{ws_real}/src/oldproj/x.py", "oldx = 1\n")
        _w(f"{ws_real}/frontend/gir.bundle0", "junk that is not feather\n")
        _w(f"{ws_real}/stale/deep/y.py", "y = 1\n")
        os.makedirs(f"{ws_real}/stale/empty", exist_ok=True)
    if pre == "symlink-out":
        os.symlink(outside, f"{ws_real}/link_out")
        os.symlink(os.path.relpath(f"{outside}/inner", f"{ws_real}/stale"), f"{ws_real}/stale/link_rel")
        os.symlink(f"{outside}/t.py", f"{ws_real}/flink.py")
        os.symlink(f"{root}/canary_top.txt", f"{ws_real}/stale/deep/flink2.txt")
    # a sibling whose name merely *starts* like the workspace
    ws_parent = os.path.dirname(ws_real)
    if os.path.isdir(ws_parent):
        _w(f"{ws_real}_keep/k.py", "k = 1\n")

    cwd = None
    if N == "default-omitted":
        cwd = os.path.dirname(w_given)
    elif A == "rel":
        # `cd project; lian … .` when the main input is a directory outside the workspace, else its parent
        cwd = main_real if (os.path.isdir(main_real) and not fs.inside(main_real, ws_real)) else area
    w_arg = None if N == "default-omitted" else w_given
    if A == "rel":
        inputs = [os.path.relpath(p, cwd) for p in inputs]
        if w_arg is not None:
            w_arg = os.path.relpath(w_arg, cwd)
    lang, lang_extra = LANG_ARGS[cfg["lang"]]
    argv = ["lian", "lang"] + MODE_FLAGS[cfg["mode"]] + ["-l", lang]
    if w_arg is not None:
        argv += ["-w", w_arg]
    argv += ["--default-settings", settings] + lang_extra + inputs
    # the first step of a two-step history: the same command, forced, quiet
    argv_prior = ["lian", "lang", "-f", "-q", "-l", lang] + (["-w", w_arg] if w_arg is not None else [])
    argv_prior += ["--default-settings", settings] + lang_extra + inputs
    # the workspace exactly as the CLI documents it, from the argument string
    w_doc = DEFAULT if w_arg is None else w_arg
    eff_doc = w_doc if DEFAULT in w_doc else os.path.join(w_doc, DEFAULT)
    eff_abs = os.path.join(cwd or "/", eff_doc)         # resolved the way the kernel resolves it (physically)
    assert os.path.realpath(eff_abs) == ws_real, (eff_abs, ws_real)
    link_targets = [outside, f"{root}/canary_top.txt"] if pre in ("symlink-out", "symlink-bak", "symlink-subdirs") else []
    return {"top": top, "root": root, "home": home, "cwd": cwd, "argv": argv, "eff_abs": eff_abs,
            "ws_real": ws_real, "inputs": inputs, "lang": lang, "decoy": decoy, "link_targets": link_targets,
            "argv_prior": argv_prior, "main_real": main_real}


# ----------------------------------------------------------------------------------------------------------------
# expectations computed from the tree before the run

def copy_bound(path, exts, skip_below):
    """(files, bytes, depth) of everything a finite copy of `path` could ever hold: matching files reachable
    from it, every real directory visited once, symlinks followed; directories below `skip_below` (the workspace,
    when --force empties it before anything is copied) are left out."""
    real = os.path.realpath(path)

    def matches(p):
        return (os.path.splitext(p)[1].lower() in exts) or (os.path.splitext(os.path.realpath(p))[1].lower() in exts)
    if os.path.isfile(real):
        return (1, os.path.getsize(real), 0) if matches(path) else (0, 0, 0)
    if not os.path.isdir(real):
        return 0, 0, 0
    n = b = depth = 0
    seen = set()
    stack = [(real, 0)]
    while stack:
        d, lvl = stack.pop()
        rd = os.path.realpath(d)
        if rd in seen or (skip_below and fs.inside(rd, skip_below)):
            continue
        seen.add(rd)
        depth = max(depth, lvl)
        try:
            names = os.listdir(rd)
        except OSError:
            continue
        for name in names:
            p = os.path.join(rd, name)
            if os.path.isdir(p):
                stack.append((p, lvl + 1))
            elif os.path.isfile(p) and matches(p):
                n += 1
                b += os.path.getsize(p)
    return n, b, depth


def expectations(plan, cfg):
    exts = LANG_EXTS[plan["lang"]]
    ws_real = plan["ws_real"]
    cwd = plan["cwd"] or "/"
    n = b = depth = 0
    rels, inputs_real, sym_in = set(), [], False
    for g in plan["inputs"]:
        ga = os.path.normpath(os.path.join(cwd, g))
        r = os.path.realpath(ga)
        inputs_real.append(r)
        if r != ga:
            sym_in = True
        # each input is bounded on its own (an input nested in another is legitimately copied twice)
        fn, fb, fd = copy_bound(ga, exts, ws_real if "force" in cfg["mode"].split("-") else None)
        n, b, depth = n + fn, b + fb, max(depth, fd + 1)
        if r == ws_real:
            rels.add("identical")
        elif fs.inside(r, ws_real):
            rels.add("input-inside-ws")
        elif fs.inside(ws_real, r):
            rels.add("ws-inside-input")
        elif fs.inside(ws_real, os.path.dirname(r)):
            rels.add("ws-beside-input")
        else:
            rels.add("disjoint")
    relation = [x for x in REL_PRIORITY if x in rels][0]
    mock = os.path.join(common.REPO, "src", "lian", "externs", "mock")
    mn, mb, md = copy_bound(mock, exts, None)
    mult = 3 if cfg["lang"] == "c-preprocess" else 1      # x -> x, x_processed, x.i  (all derived from the copy)
    return {"src_files": n * mult, "src_bytes": b * mult + (4096 if mult > 1 else 0), "src_depth": depth,
            "ext_files": mn, "ext_bytes": mb, "ext_depth": md + 1, "relation": relation, "inputs_real": inputs_real,
            "symlinked_ws": os.path.normpath(plan["eff_abs"]) != ws_real, "symlinked_input": sym_in,
            "conflict": any(fs.inside(r, ws_real) for r in inputs_real)}


def subtree_stats(snap, root, top_abs, older=None):
    """(files, bytes, max depth below top_abs) of the snapshot entries below the absolute directory top_abs;
    with `older`, only of the entries that are new or different from the older snapshot (= written by the run)."""
    rel = os.path.relpath(top_abs, root)
    pre = "" if rel == "." else rel + "/"
    n = b = depth = 0
    for p, rec in snap.items():
        kind, size = rec[0], rec[1]
        if p == "." or not p.startswith(pre):
            continue
        if older is not None and older.get(p) == rec:
            continue
        depth = max(depth, p[len(pre):].count("/") + 1)
        if kind != "dir":
            n += 1
            b += size
    return n, b, depth


# ----------------------------------------------------------------------------------------------------------------
# the oracle

def signature(cfg, exp, clause, zone=None):
    """Mechanism signature: which path relation / naming feature of the configuration, which clause of the oracle
    and — for effects outside the workspace — where the affected path lies relative to the configuration.
    Recomputable from the stored configuration alone (never a path or a hash)."""
    mode_q = f"[{cfg['mode']}]" if cfg["mode"] != "force" and not clause.endswith("-without-force") else ""
    if zone == "lexical-dotdot-directory":
        # `-w link/../name`: the relation to the inputs plays no part, lexical vs physical '..' does
        return f"ws-arg-dotdot-through-symlink:{clause}{mode_q}"
    if zone == "old-workspace-link-target":
        return f"symlink-in-old-workspace:{clause}{mode_q}"
    if zone in ("kept-workspace:foreign-entry", "kept-workspace:lian-output"):
        # an un-forced run lost previous workspace content: where the workspace lies plays no part
        return f"{zone}:{clause}{mode_q}"
    rel = exp["relation"]
    if exp["symlinked_ws"] and rel in ("identical", "input-inside-ws"):
        rel += "+symlinked-ws"
    q = ""
    if not (clause == "unbounded-copy" or clause.startswith("died-in-copy-step")):
        # the copy clauses have one mechanism whatever the flags; elsewhere the flags select the code path
        q += mode_q
        if cfg["lang"] != "python":
            q += f"<{cfg['lang']}>"
    return f"{rel}/{NAME_CLASS[cfg['name']]}-name:{clause}{q}"


def zone_of(path, plan, exp):
    """Where a path outside the workspace lies, in terms of the configuration."""
    if plan.get("decoy") and fs.inside(path, plan["decoy"]):
        return "lexical-dotdot-directory"
    if any(fs.inside(path, t) for t in plan.get("link_targets", [])):
        return "old-workspace-link-target"
    if any(fs.inside(path, r) for r in exp["inputs_real"]):
        return "input"
    if any(fs.inside(path, os.path.dirname(r)) for r in exp["inputs_real"]):
        return "beside-input"
    if fs.inside(path, os.path.dirname(plan["ws_real"])):
        return "beside-workspace"
    if fs.inside(path, plan["root"]):
        return "elsewhere-in-scratch-root"
    return "outside-scratch-root"


def allowed_zone(path, plan):
    """None if a mutating operation on `path` needs a verdict, else the name of the allow-list entry."""
    if fs.inside(path, plan["home"]):
        return "scratch-HOME"
    if path.startswith("/dev/") or path.startswith("/proc/"):
        return "dev-proc"
    return None


def judge(cfg, plan, exp, before, after, events, outcome, channel="audit"):
    """Returns (failures [(clause, detail, zone of the affected path | None)], counters {key: n})."""
    fails, cnt = [], {}
    root, ws = plan["root"], plan["ws_real"]

    def bump(k, n=1):
        cnt[k] = cnt.get(k, 0) + n

    def fail(clause, detail, path=None, zone=None):
        zone = zone or (zone_of(path, plan, exp) if path else None)
        if not any(c == clause and z == zone for c, _, z in fails):
            fails.append((clause, detail.replace(plan["top"], "<top>") + (f" [{zone}]" if zone else ""), zone))

    def absolute(p):
        return root if p == "." else f"{root}/{p}"

    def short(p):
        return os.path.relpath(p, root) if fs.inside(p, root) else p

    created, deleted, changed = fs.diff(before, after)
    bump("snapshot: entries compared", len(before))
    strict = cfg["mode"] == "noforce"
    # (a) + (c)
    for p in created:
        ap = absolute(p)
        if fs.inside(ap, ws):
            bump("snapshot: entries created inside the workspace")
            if strict:
                fail("created-without-force", f"{short(ap)} appeared although neither --force nor --incremental was given")
        elif after[p][0] == "dir" and fs.inside(ws, ap):
            bump("snapshot: ancestor directories of the workspace created")
            if strict:
                fail("created-without-force", f"directory {short(ap)} appeared without --force")
        else:
            bump("snapshot: entries created outside the workspace")
            fail("created-outside", f"{after[p][0]} {short(ap)} was created outside the workspace {short(ws)}", ap)
    for p in deleted:
        ap = absolute(p)
        if fs.inside(ap, ws) and not strict:
            bump("snapshot: previous workspace entries deleted")
            if cfg["mode"] == "inc":
                bump("snapshot: workspace entries deleted under --incremental without --force")
        elif fs.inside(ap, ws):
            fail("deleted-without-force", f"{short(ap)} was deleted although --force was not given")
        else:
            bump("snapshot: entries deleted outside the workspace")
            fail("deleted-outside", f"{before[p][0]} {short(ap)} outside the workspace {short(ws)} was deleted", ap)
    for p, what in changed:
        ap = absolute(p)
        if fs.inside(ap, ws) and not strict:
            bump("snapshot: workspace entries overwritten")
        elif fs.inside(ap, ws):
            fail("modified-without-force", f"{short(ap)} changed ({what}) although --force was not given")
        else:
            bump("snapshot: entries modified outside the workspace")
            fail("modified-outside", f"{short(ap)} outside the workspace changed ({what})", ap)
    # (c) for --incremental without --force: no pre-existing byte of the workspace may be lost.  Kept = still there
    # in place with the same kind / content / link target, or — only for lian's own sub-directories, which the
    # unchanged code copies to bak/ before rewriting them — present with the same content at bak/<same path>.
    # The previous content of bak/ itself is replaced by design (single-generation backup): counted, not asserted.
    if cfg["mode"] == "inc":
        ws_rel = os.path.relpath(ws, root)
        pre_ws = "" if ws_rel == "." else ws_rel + "/"
        for p in sorted(before):
            if p == "." or not p.startswith(pre_ws) or p == ws_rel:
                continue
            inner = p[len(pre_ws):]
            first = inner.split("/")[0]
            b, a = before[p], after.get(p)
            same = a is not None and a[0] == b[0] and a[1:4] == b[1:4]
            if first == INC_BACKUP:
                if not same:
                    bump("incremental: previous bak/ entries replaced (single-generation backup, not asserted)")
                continue
            if same:
                bump("incremental: pre-existing workspace entries kept in place")
                continue
            k = after.get(f"{pre_ws}{INC_BACKUP}/{inner}")
            if first in INC_MANAGED and b[0] == "file" and k is not None and k[0] == "file" and k[1:3] == b[1:3]:
                bump("incremental: rewritten entries whose previous content is kept under bak/")
                continue
            zone = "kept-workspace:lian-output" if first in INC_MANAGED else "kept-workspace:foreign-entry"
            what = "was deleted" if a is None else "was overwritten"
            bump("incremental: pre-existing workspace entries lost")
            fail("lost-without-force", f"{b[0]} {short(absolute(p))} {what} by a run that was not given --force "
                 f"(and is not kept under {INC_BACKUP}/ either)", zone=zone)
    if exp["conflict"]:
        gone = [r for r in exp["inputs_real"] if fs.inside(r, ws) and not os.path.lexists(r)]
        bump("conflict: configurations with an input inside the workspace")
        if gone:
            bump("conflict: inputs inside a forced workspace deleted by the cleaning (not asserted)", len(gone))
    # (b)
    for ev, op, path, _ in events:
        bump(f"{channel}: mutating operations recorded")
        if op == "recorder-error":
            bump("audit: recorder errors (harness fault)")
            continue
        if fs.inside(path, ws):
            bump(f"{channel}: operations inside the workspace")
            if strict:
                fail("mutation-without-force", f"{ev} on {short(path)} without --force")
            elif (cfg["mode"] == "inc" and op in ("delete", "delete-tree", "rename-from")
                  and not fs.inside(path, f"{ws}/{INC_BACKUP}") and os.path.relpath(path, root) in before):
                # the unchanged code removes nothing but the previous backup when --force is absent
                rel_in = os.path.relpath(path, ws).split("/")[0]
                fail("delete-op-without-force", f"{ev} ({op}) removed {short(path)} although --force was not given",
                     zone="kept-workspace:lian-output" if rel_in in INC_MANAGED else "kept-workspace:foreign-entry")
            continue
        if op == "mkdir" and fs.inside(ws, path):
            bump(f"{channel}: mkdir of a workspace ancestor")
            if strict:
                fail("mutation-without-force", f"{ev} on {short(path)} without --force")
            continue
        z = allowed_zone(path, plan)
        if z:
            bump(f"{channel}: allow-listed operations ({z})")
            tag = f"{ev} {op} " + (os.path.relpath(path, plan["home"]) if z == "scratch-HOME" else path)
            allow = cnt.setdefault("_allow_listed", {})
            allow[tag] = allow.get(tag, 0) + 1
            continue
        bump(f"{channel}: operations outside the workspace")
        fail("mutating-op-outside", f"{ev} ({op}) acted on {short(path)}, outside the workspace {short(ws)}", path)
    # (d)
    sn, sb, sd = subtree_stats(after, root, f"{ws}/src", before)
    en, eb, ed = subtree_stats(after, root, f"{ws}/externs", before)
    wn, wb, wd = subtree_stats(after, root, ws, before)
    if cfg["mode"] != "noforce" and os.path.isdir(ws):
        bump("bounded-copy: workspaces measured")
        bump("bounded-copy: files written under src/", sn)
        detail = (f"the run wrote {sn} files / {sb} bytes / depth {sd} under src/, the inputs allow {exp['src_files']} / "
                  f"{exp['src_bytes']} / {exp['src_depth']}; it wrote {en} files / {eb} bytes under externs/, the mock "
                  f"directory allows {exp['ext_files']} / {exp['ext_bytes']}; depth of what was written: {wd}")
        if (sn > exp["src_files"] or sb > exp["src_bytes"] or en > exp["ext_files"] or eb > exp["ext_bytes"]
                or sd > exp["src_depth"] + 1 or ed > exp["ext_depth"] + 1
                or wn > sn + en + ARTEFACT_FILES_MAX or wd > max(exp["src_depth"], exp["ext_depth"]) + DEPTH_SLACK):
            fail("unbounded-copy", detail)
        if sn > 0:
            bump("bounded-copy: runs that copied at least one input file")
    kind, info = outcome
    bump(f"run outcome: {kind}")
    if kind == "exception":
        etype, msg, where, in_copy = info
        if in_copy:
            msg = msg.replace(plan["top"], "<top>")
            fail(f"died-in-copy-step[{etype}]", f"the run died with {etype} in {where}: {msg[:200]}")
        else:
            bump(f"run outcome: exception outside the copy step ({etype} in {where})")
    return fails, cnt


# ----------------------------------------------------------------------------------------------------------------
# one configuration in a forked child

COPY_FUNCS = {"copytree_with_extension", "manage_directory", "cleanup_directory", "prepare_directory",
              "backup_workspace", "preprocess_c_like_file", "rescan_c_like_files", "change_c_like_files"}


def _outcome_of(exc):
    """('exception', (type[:errno], message, innermost lian frame, died inside the workspace-preparation step?))"""
    tb = traceback.extract_tb(exc.__traceback__)
    where, in_copy = "?", False
    for fr in tb:
        if "/lian/" not in fr.filename:
            continue
        where = f"{os.path.basename(fr.filename)}:{fr.name}"
        if fr.filename.endswith("preparation.py") and fr.name in COPY_FUNCS:
            in_copy = True
        # WorkspaceBuilder.run itself: the loop that creates the sub-directories and dispatches the copies
        if fr.filename.endswith("preparation.py") and fr.name == "run" and fr.line and any(
                k in fr.line for k in ("makedirs", "copytree_with_extension", "manage_directory",
                                       "backup_workspace", "change_c_like_files")):
            in_copy = True
    etype = type(exc).__name__
    if isinstance(exc, OSError) and exc.errno:
        etype += ":" + errno.errorcode.get(exc.errno, str(exc.errno))
    return ("exception", (etype, str(exc), where, in_copy))


def neutralise_env(home):
    os.environ["HOME"] = home
    os.environ["MPLCONFIGDIR"] = f"{home}/mpl"
    os.environ["XDG_CACHE_HOME"] = f"{home}/cache"
    os.environ["XDG_CONFIG_HOME"] = f"{home}/config"
    os.environ["TMPDIR"] = f"{home}/tmp"
    os.makedirs(f"{home}/tmp", exist_ok=True)
    os.environ["PYTHONDONTWRITEBYTECODE"] = "1"
    sys.dont_write_bytecode = True
    import tempfile
    tempfile.tempdir = None


def history_stage(cfg, plan, cli_env=None):
    """For the two-step histories: produce the existing workspace with a real forced run of the same command
    (pristine process: a forked grandchild, or a plain CLI process when cli_env is given), then leave user files
    in it and/or edit the input.  Returns a short description of what was done (None for one-step configurations)."""
    pre = cfg["pre"]
    if pre not in HISTORY_PRES:
        return None
    done = []
    if cli_env is not None:
        main_py = os.path.join(common.REPO, "src", "lian", "main.py")
        pr = subprocess.run([sys.executable, main_py] + plan["argv_prior"][1:], cwd=plan["cwd"] or "/", env=cli_env,
                            stdout=subprocess.DEVNULL, stderr=subprocess.DEVNULL, timeout=900)
        done.append(f"prior forced CLI run exit {pr.returncode}")
    else:
        sys.stdout.flush()
        pid = os.fork()
        if pid == 0:
            code = 0
            try:
                if plan["cwd"]:
                    os.chdir(plan["cwd"])
                sys.argv = list(plan["argv_prior"])
                import lian.main as lm
                lm.Lian().run()
            except SystemExit:
                code = 3
            except BaseException:   # noqa
                code = 4
            finally:
                sys.stdout.flush()
                os._exit(code)
        _, st = os.waitpid(pid, 0)
        done.append(f"prior forced run exit {os.waitstatus_to_exitcode(st)}")
    ws = plan["ws_real"]
    if "user" in pre and os.path.isdir(ws):
        _w(f"{ws}/notes.txt", "user notes kept beside the results\n")
        _w(f"{ws}/reports/triage.txt", "do not lose me\n")
        os.makedirs(f"{ws}/reports/empty", exist_ok=True)
        _w(f"{ws}/frontend/user_annotation.txt", "a note inside one of lian's own sub-directories\n")
        _w(f"{ws}/{INC_BACKUP}/previous_generation/kept.txt", "the backup of the run before\n")
        done.append("user files added")
    if "edit" in pre:
        m = plan["main_real"]
        if os.path.isdir(m) and not fs.inside(m, ws):
            with open(f"{m}/a.py", "a") as f:
                f.write("\ndef added_later(b):\n    return b * 2\n")
            _w(f"{m}/sub/new_module.py", "n = 5\n")
            done.append("input edited")
        elif os.path.isfile(m) and not fs.inside(m, ws):
            with open(m, "a") as f:
                f.write("later = 2\n")
            done.append("input edited")
    return "; ".join(done)


PAD_TO = 2400


def make_top(tag):
    """A fresh directory for one configuration.  It sits at the end of a long chain of directories so that its
    path is ~2400 characters long: a copy step that recurses into its own output is stopped by PATH_MAX (4096) after
    a few dozen levels instead of several hundred, which keeps such a run cheap (its cost grows with depth^2).
    Returns (directory to remove afterwards, top)."""
    holder = os.path.join(os.path.realpath(common.scratch()), "c18", tag)
    top = holder
    while len(top) < PAD_TO - 200:
        top = os.path.join(top, "p" * 199)
    top = os.path.join(top, "t")
    os.makedirs(top)
    return holder, top


def run_config(item):
    idx, cfg = item
    holder, top = make_top(f"cfg{idx}_{os.getpid()}")
    try:
        plan = materialise(cfg, top)
        neutralise_env(plan["home"])
        history = history_stage(cfg, plan)
        exp = expectations(plan, cfg)
        before = fs.snapshot(plan["root"])
        log = fs.AuditLog().install()
        if plan["cwd"]:
            os.chdir(plan["cwd"])
        sys.argv = list(plan["argv"])
        import lian.main as lm
        outcome = ("completed", None)
        log.start()
        try:
            lm.Lian().run()
        except SystemExit as e:
            outcome = ("quit", e.code)
        except BaseException as e:   # noqa  (RecursionError, OSError, whatever escapes lian)
            outcome = _outcome_of(e)
        finally:
            log.stop()
        sys.stdout.flush()
        os.chdir("/")
        after = fs.snapshot(plan["root"])
        fails, cnt = judge(cfg, plan, exp, before, after, log.events, outcome)
        cnt["audit: events inspected (all kinds)"] = log.seen
        cnt["audit: child processes spawned by lian"] = len(log.spawns)
        return {"fails": fails, "counters": cnt, "relation": exp["relation"], "conflict": exp["conflict"],
                "outcome": outcome[0], "n_events": len(log.events), "history": history,
                "argv": [a.replace(plan["top"], "<top>") for a in plan["argv"]],
                "cwd": (plan["cwd"] or "").replace(plan["top"], "<top>"),
                "workspace": plan["ws_real"].replace(plan["top"], "<top>"),
                "symlinked_ws": exp["symlinked_ws"], "symlinked_input": exp["symlinked_input"]}
    finally:
        os.chdir("/")
        shutil.rmtree(holder, ignore_errors=True)


# ----------------------------------------------------------------------------------------------------------------
# true CLI runs under strace (thorough)

def run_cli_config(item):
    idx, cfg = item
    holder, top = make_top(f"cli{idx}_{os.getpid()}")
    try:
        plan = materialise(cfg, top)
        env = dict(os.environ)
        home = plan["home"]
        os.makedirs(f"{home}/tmp", exist_ok=True)
        env.update({"HOME": home, "MPLCONFIGDIR": f"{home}/mpl", "XDG_CACHE_HOME": f"{home}/cache",
                    "XDG_CONFIG_HOME": f"{home}/config", "TMPDIR": f"{home}/tmp", "PYTHONDONTWRITEBYTECODE": "1",
                    "PYTHONWARNINGS": "ignore",
                    # the venv has /repo/src on its path; the tree under test ($LIAN_REPO) must win
                    "PYTHONPATH": os.path.join(common.REPO, "src") + (
                        os.pathsep + env["PYTHONPATH"] if env.get("PYTHONPATH") else "")})
        history = history_stage(cfg, plan, cli_env=env)
        exp = expectations(plan, cfg)
        before = fs.snapshot(plan["root"])
        log_path = os.path.join(top, "strace.log")
        main_py = os.path.join(common.REPO, "src", "lian", "main.py")
        cmd = fs.STRACE_ARGS + ["-o", log_path, sys.executable, main_py] + plan["argv"][1:]
        t0 = time.time()
        try:
            pr = subprocess.run(cmd, cwd=plan["cwd"] or "/", env=env, stdout=subprocess.PIPE, stderr=subprocess.STDOUT,
                                timeout=900)
        except subprocess.TimeoutExpired:
            return {"harness": "CLI run under strace exceeded 900 s"}
        wall = time.time() - t0
        out = pr.stdout.decode("utf-8", "replace")
        after = fs.snapshot(plan["root"])
        if not os.path.exists(log_path):
            return {"harness": "strace produced no log: " + out[-300:]}
        parsed = fs.parse_strace(log_path, plan["cwd"] or "/")
        events = [(name, op, path, "") for name, op, path, ok in parsed["events"]]
        if pr.returncode == 0:
            outcome = ("completed", None)
        elif "Traceback (most recent call last)" in out:
            in_copy = any(f in out for f in COPY_FUNCS)
            last = out.strip().splitlines()[-1] if out.strip() else ""
            etype = last.split(":")[0].strip() or "Exception"
            if "File name too long" in last:
                etype = "OSError:ENAMETOOLONG"
            outcome = ("exception", (etype, last, "cli", in_copy))
        else:
            outcome = ("quit", pr.returncode)
        fails, cnt = judge(cfg, plan, exp, before, after, events, outcome, channel="strace")
        cnt["strace: log lines parsed"] = parsed["lines"]
        cnt["strace: lines not understood"] = parsed["unparsed"]
        cnt["strace: true CLI runs"] = 1
        created, deleted, changed = fs.diff(before, after)
        return {"fails": fails, "counters": cnt, "relation": exp["relation"], "conflict": exp["conflict"],
                "outcome": outcome[0], "n_events": len(events), "unclassified": parsed["unclassified"],
                "history": history,
                "wall": round(wall, 1), "effect": [sorted(created), sorted(deleted), sorted(p for p, _ in changed)],
                "argv": [a.replace(plan["top"], "<top>") for a in plan["argv"]],
                "workspace": plan["ws_real"].replace(plan["top"], "<top>"),
                "symlinked_ws": exp["symlinked_ws"], "symlinked_input": exp["symlinked_input"],
                "cwd": (plan["cwd"] or "").replace(plan["top"], "<top>"),
                "tail": out.replace(plan["top"], "<top>")[-400:]}
    finally:
        shutil.rmtree(holder, ignore_errors=True)


def run_effect_only(item):
    """The same configuration in a forked child, returning only which paths were created/deleted/changed
    (to compare the zygote-forked run with the true CLI run)."""
    idx, cfg = item
    holder, top = make_top(f"eff{idx}_{os.getpid()}")
    try:
        plan = materialise(cfg, top)
        neutralise_env(plan["home"])
        history_stage(cfg, plan)
        before = fs.snapshot(plan["root"])
        if plan["cwd"]:
            os.chdir(plan["cwd"])
        sys.argv = list(plan["argv"])
        import lian.main as lm
        try:
            lm.Lian().run()
        except BaseException:   # noqa
            pass
        os.chdir("/")
        after = fs.snapshot(plan["root"])
        created, deleted, changed = fs.diff(before, after)
        return [sorted(created), sorted(deleted), sorted(p for p, _ in changed)]
    finally:
        os.chdir("/")
        shutil.rmtree(holder, ignore_errors=True)


# ----------------------------------------------------------------------------------------------------------------
# the configuration space

def all_core_configs():
    out = []
    for P, N, A, K, pre, M in itertools.product(PLACEMENTS, NAMES, ADDRS, KINDS, PRES, MODES):
        c = make_cfg(P, N, A, K, pre, M)
        if valid(c):
            out.append(c)
    return out


def family_configs(thorough):
    """Other flags / languages on a reduced grid: --incremental (with and without --force), the C header
    pre-processing (which writes next to the file it is given and spawns clang), --strict-parse-mode (no copy)."""
    out = []
    names = ["default-explicit", "containing", "plain"]
    addrs = ["abs", "rel", "ws-is-link", "input-link-parent"] if thorough else ["abs", "ws-is-link"]
    pres = ["none", "subdirs", "symlink-out"]
    for P in PLACEMENTS:
        for i, (N, A) in enumerate(itertools.product(names, addrs)):
            for j, (mode, lang) in enumerate([("inc", "python"), ("force-inc", "python"), ("force", "c-preprocess"),
                                               ("force", "python-strict")]):
                if not thorough and (i + j + PLACEMENTS.index(P)) % 3:
                    continue
                kinds = ["dir", "several"] if thorough else [["dir", "several"][(i + j) % 2]]
                for K in kinds:
                    pre = pres[(i + j + len(out)) % 3]
                    c = make_cfg(P, N, A, K, pre, mode, lang)
                    if valid(c):
                        out.append(c)
    # an old workspace whose bak/ src/ externs/ frontend/ are links to directories outside
    for N in ("default-explicit", "plain"):
        for pre in HOSTILE_PRES:
            for mode in ("inc", "force", "force-inc", "noforce"):
                out.append(make_cfg("disjoint", N, "abs", "dir", pre, mode))
    out += history_configs(thorough)
    return out


def history_configs(thorough):
    """{no flags, -f, -inc, -inc -f} x {fresh workspace, foreign files only, output of a real earlier -f run, that
    output plus user files, the same with the input edited in between}: what an existing workspace loses."""
    out = []
    pres = ["none", "files"] + HISTORY_PRES
    modes = ["noforce", "force", "inc", "force-inc"]
    names = ["default-omitted", "default-explicit", "containing", "plain"]
    addrs = ["abs", "rel", "ws-is-link"]
    i = 0
    for P in PLACEMENTS[:3]:
        for pre in pres:
            for mode in modes:
                combos = list(itertools.product(names, addrs)) if thorough else [
                    (names[i % len(names)], addrs[(i // 2) % len(addrs)])]
                for N, A in combos:
                    c = make_cfg(P, N, A, ["dir", "several"][i % 2], pre, mode)
                    if valid(c):
                        out.append(c)
                    i += 1
    return out


def quick_configs(rng):
    """A covering sample: every valid (placement, name, addressing) triple twice with --force and every
    (placement, pre-existing content, input kind) triple once without, the remaining dimensions rotated by seed."""
    out, seen = [], set()

    def add(c):
        if valid(c) and cfg_key(c) not in seen:
            seen.add(cfg_key(c))
            out.append(c)
            return True
        return False
    for P, N, A in itertools.product(PLACEMENTS, NAMES, ADDRS):
        ks = KINDS[:]
        ps = PRES[:]
        rng.shuffle(ks)
        rng.shuffle(ps)
        got = 0
        for K, pre in zip(ks + ks, ps + ps):             # two different (input kind, previous content) picks
            if add(make_cfg(P, N, A, K, pre, "force")):
                got += 1
                if got == 2:
                    break
    for P, pre, K in itertools.product(PLACEMENTS, PRES, KINDS):
        ns, ads = NAMES[:], ADDRS[:]
        rng.shuffle(ns)
        rng.shuffle(ads)
        done_f = done_n = False
        for N, A in itertools.product(ns, ads):
            if not done_n and add(make_cfg(P, N, A, K, pre, "noforce")):
                done_n = True
            if not done_f and pre in ("subdirs", "symlink-out") and add(make_cfg(P, N, A, K, pre, "force")):
                done_f = True
            if done_n and (done_f or pre not in ("subdirs", "symlink-out")):
                break
    return out


def cli_configs():
    """True CLI runs under strace: every (placement, name) pair once with --force, the other dimensions rotated,
    plus the flag / language families and the witnesses of the defects found so far."""
    out, seen = [], set()

    def add(c):
        if valid(c) and cfg_key(c) not in seen:
            seen.add(cfg_key(c))
            out.append(c)
            return True
        return False
    i = 0
    for P in PLACEMENTS:
        for N in NAMES:
            for shift in range(len(ADDRS)):
                A = ADDRS[(i + shift) % len(ADDRS)]
                if add(make_cfg(P, N, A, KINDS[(i + shift) % 3], PRES[i % 4], "force")):
                    break
            i += 1
    for c in (
        make_cfg("disjoint", "containing", "abs", "dir", "symlink-out", "noforce"),
        make_cfg("ws-beside-input", "plain", "abs", "dir", "subdirs", "force", "c-preprocess"),
        make_cfg("ws-inside-input", "default-explicit", "rel", "dir", "files", "force", "c-preprocess"),
        make_cfg("ws-inside-input", "plain", "rel", "several", "none", "force-inc"),
        make_cfg("disjoint", "default-explicit", "abs", "dir", "subdirs", "inc"),
        make_cfg("disjoint", "plain", "abs", "dir", "symlink-bak", "inc"),
        make_cfg("disjoint", "plain", "abs", "dir", "symlink-subdirs", "inc"),
        make_cfg("ws-inside-input", "default-omitted", "rel", "dir", "none", "force"),      # `cd proj; lian lang -f -l python .`
        make_cfg("identical", "containing", "ws-is-link", "dir", "files", "force"),
        make_cfg("disjoint", "containing", "ws-dotdot-link", "dir", "symlink-out", "force"),
        make_cfg("ws-beside-input", "default-explicit", "abs", "dir", "symlink-out", "force", "python-strict"),
        # two-step histories (indexes 36..38: one of them falls into every quick subset of seeds 0..2)
        make_cfg("disjoint", "plain", "abs", "dir", "lian-run+user", "inc"),
        make_cfg("ws-inside-input", "default-omitted", "rel", "dir", "lian-run+user+edit", "inc"),
        make_cfg("ws-beside-input", "containing", "abs", "several", "lian-run+user", "noforce"),
        make_cfg("disjoint", "default-explicit", "ws-is-link", "dir", "lian-run+user+edit", "inc"),
        make_cfg("ws-beside-input", "plain", "rel", "dir", "lian-run+user", "force-inc"),
        make_cfg("ws-inside-input", "containing", "abs", "several", "lian-run+edit", "inc"),
    ):
        add(c)
    return out


# ----------------------------------------------------------------------------------------------------------------

def absorb(chk, cfg, v, samples_by_rel, kind="config"):
    chk.evaluated(1)
    if v.get("history"):
        chk.count("history: configurations whose workspace came from a real earlier forced run")
        if "exit 0" not in v["history"]:
            chk.count("history: earlier forced run did not complete (e.g. its input lay in the workspace it wiped)")
    if v["counters"].get("audit: recorder errors (harness fault)"):
        chk.note_inconclusive(f"the audit recorder failed while observing {cfg_key(cfg)}")
    for k, n in v["counters"].items():
        if k == "_allow_listed":
            seen = chk.extra.setdefault("allow_listed_operations_seen", {})
            for tag, m in n.items():
                if tag in seen or len(seen) < 40:
                    seen[tag] = seen.get(tag, 0) + m
            continue
        chk.count(k, n)
    if v["n_events"] > 0 or (cfg["mode"] == "noforce" and cfg["pre"] != "none"):
        chk.nontrivial_case(cfg_key(cfg))
    chk.count(f"relation observed: {v['relation']}")
    if v["relation"] not in samples_by_rel and cfg["mode"] == "force":
        samples_by_rel[v["relation"]] = True
        chk.sample({"configuration": cfg, "argv": v["argv"], "cwd": v.get("cwd"), "workspace": v["workspace"],
                    "relation": v["relation"], "outcome": v["outcome"], "mutating_events": v["n_events"]})
    for clause, detail, zone in v["fails"]:
        exp_like = {"relation": v["relation"], "symlinked_ws": v.get("symlinked_ws", False)}
        chk.fail(signature(cfg, exp_like, clause, zone), detail, {"kind": kind, "config": cfg})


def run_batch(chk, configs, tag, timeout):
    samples_by_rel = chk.extra.setdefault("_samples_by_rel", {})
    items = list(enumerate(configs))
    for r in forkpool.run_jobs(run_config, items, timeout=timeout, tag=tag):
        idx, cfg = r.item
        if r.status != "ok":
            chk.note_inconclusive(f"{tag}: configuration {cfg_key(cfg)} ended with {r.status}: "
                                  f"{str(r.value)[:300]} {r.log_text(300)}")
            continue
        absorb(chk, cfg, r.value, samples_by_rel)


def run_cli_batch(chk, configs):
    items = list(enumerate(configs))
    cli = {}
    for r in forkpool.run_jobs(run_cli_config, items, workers=8, timeout=1000, tag="c18cli"):
        idx, cfg = r.item
        if r.status != "ok" or "harness" in (r.value or {}):
            chk.note_inconclusive(f"strace run {cfg_key(cfg)}: {r.status} {str(r.value)[:300]} {r.log_text(300)}")
            continue
        v = r.value
        cli[idx] = v
        for name, n in v["unclassified"].items():
            chk.count(f"strace: unclassified syscall {name}", n)
            chk.note_inconclusive(f"strace reported a file syscall the monitor cannot classify: {name} x{n}")
        chk.extra.setdefault("cli_runs", []).append({"configuration": cfg_key(cfg), "wall_s": v["wall"],
                                                      "outcome": v["outcome"], "strace_mutations": v["n_events"]})
        absorb(chk, cfg, v, chk.extra.setdefault("_samples_by_rel", {}), kind="cli")
    # the forked run of the same configuration must have the same effect on the tree (keeps the zygote honest)
    for r in forkpool.run_jobs(run_effect_only, items, timeout=300, tag="c18eff"):
        idx, cfg = r.item
        if r.status != "ok" or idx not in cli:
            continue
        chk.count("zygote honesty: CLI run and forked run compared")
        if r.value != cli[idx]["effect"]:
            a, b = r.value, cli[idx]["effect"]
            d = [sorted(set(x) ^ set(y))[:4] for x, y in zip(a, b)]
            chk.note_inconclusive(f"forked run and CLI run of {cfg_key(cfg)} differ in created/deleted/changed paths: {d}")


def replay(chk, path):
    with open(path) as f:
        case = json.load(f)["case"]
    cfg = case["config"]
    fn = run_cli_config if case.get("kind") == "cli" else run_config
    r = forkpool.run_one(fn, (0, cfg), timeout=1000)
    if r.status != "ok":
        chk.note_inconclusive(f"replay ended with {r.status}: {str(r.value)[:300]} {r.log_text(400)}")
        return
    absorb(chk, cfg, r.value, {}, kind=case.get("kind", "config"))
    chk.nontrivial_case("replay-a")
    chk.nontrivial_case("replay-b")


def main():
    lianrun.prepare_zygote(warm=False)
    chk = common.Check(PROP, rule=(
        "each evaluation = one real `lian lang` run in a fresh scratch tree for one configuration (placement of the "
        "workspace relative to the inputs x workspace naming x addressing/symlinks x input kind x previous workspace "
        "content x flags); distinct_nontrivial = distinct configurations in which lian performed at least one "
        "mutating filesystem operation, or in which a non-empty workspace had to survive a run without --force"))
    chk.max_samples = 8
    if os.environ.get("VERIF_REPLAY"):
        replay(chk, os.environ["VERIF_REPLAY"])
        chk.extra.pop("_samples_by_rel", None)
        sys.exit(chk.finish())
    thorough = chk.tier == "thorough"
    rng = random.Random(chk.seed)
    if thorough:
        core = all_core_configs()
        chk.exhaustive = True
    else:
        core = quick_configs(rng)
    fam = family_configs(thorough)
    chk.extra["configuration_space"] = {
        "placements": PLACEMENTS, "names": NAMES, "addressing": ADDRS, "input_kinds": KINDS,
        "previous_content": PRES, "modes": MODES + ["inc", "force-inc"], "languages": list(LANG_ARGS),
        "core_configurations_valid": len(all_core_configs()), "core_configurations_run": len(core),
        "family_configurations_run": len(fam)}
    run_batch(chk, core, "c18", timeout=240)
    run_batch(chk, fam, "c18f", timeout=240)
    # true CLI runs under strace: the only channel that sees native code and child processes writing outside the
    # observed root (36 configurations on the thorough tier, every sixth of them on the quick tier)
    cli = cli_configs()
    if not thorough:
        cli = cli[chk.seed % 6::6]
    chk.extra["configuration_space"]["cli_strace_runs"] = len(cli)
    run_cli_batch(chk, cli)
    chk.require("strace: true CLI runs", 25 if thorough else 5)
    chk.require("strace: mutating operations recorded", 1500 if thorough else 200)
    chk.require("strace: operations inside the workspace", 1500 if thorough else 200)
    chk.require("zygote honesty: CLI run and forked run compared", 25 if thorough else 5)
    chk.require("audit: mutating operations recorded", 5000)
    chk.require("audit: operations inside the workspace", 5000)
    chk.require("snapshot: entries created inside the workspace", 3000)
    chk.require("snapshot: previous workspace entries deleted", 100)
    chk.require("bounded-copy: runs that copied at least one input file", 40)
    # the un-forced --incremental contract must really have been put to the test on existing workspaces
    chk.require("incremental: pre-existing workspace entries kept in place", 300)
    chk.require("incremental: rewritten entries whose previous content is kept under bak/", 10)
    chk.require("history: configurations whose workspace came from a real earlier forced run", 30)
    for rel in PLACEMENTS:
        chk.require(f"relation observed: {rel}", 5)
    chk.extra.pop("_samples_by_rel", None)
    chk.assumptions += [
        "the workspace directory is the documented one: the -w value (default 'lian_workspace', relative to the "
        "current directory) with 'lian_workspace' appended unless the value already contains that substring; "
        "'inside' is decided on real paths",
        "creating the missing *directories* on the way to the workspace is not a write outside it; any file, link "
        "or other directory outside is",
        "HOME, MPLCONFIGDIR, XDG_CACHE_HOME, XDG_CONFIG_HOME and TMPDIR point into a scratch directory beside the "
        "observed root and PYTHONDONTWRITEBYTECODE=1; operations there and on /dev, /proc are counted as "
        "allow-listed, everything else needs a verdict",
        "an input inside a forced workspace may be deleted by the cleaning (the statement's own clauses conflict); "
        "counted, not asserted",
        "sub-command `lang` (workspace preparation + frontend); the semantic/taint phases write through the same "
        "Loader rooted at options.workspace and are not run here",
        "--incremental without --force (contract read off the unchanged backup_workspace): the previous content of "
        "bak/ is replaced (single-generation backup; counted, not asserted); src, externs, frontend, semantic_p1..3, "
        "state_flow_p2/p3_dot, taint are copied to bak/<same path> and may then be rewritten in place; every other "
        "pre-existing entry of the workspace must survive in place with the same kind, content and link target, and "
        "no delete/rename operation may hit a pre-existing entry outside bak/",
        "two-step histories: the existing workspace is produced by a real `-f` run of the same command in a forked "
        "grandchild (pristine lian modules) before the observed run; user files are then added and/or the input edited",
    ]
    sys.exit(chk.finish())


if __name__ == "__main__":
    main()
