"""C20 — entry points and unit initialisers are selected exactly as configured.

Workload: generated multi-file, multi-directory projects (2-5 files, Python and JavaScript mixed in one `run` with
-l python,javascript), methods with names that recur across files, Python decorators (-> attrs), class methods; every method
takes a parameter `tsrc` and contains exactly one `tsnk(tsrc)` (a parameter-kind source rule and a call-kind sink rule make
this a same-function source->sink flow). Each project is analysed under several entry rule sets {empty, initialiser only, by
method name, by language, by unit name, by unit path, by attribute, overlapping (also split over two *entry.yaml files),
the repo's default entry.yaml}.
Oracle: a restatement of the documented matching rule (language equality, unit-name / unit-path containment, method-name
membership, attribute inclusion, %unit_init by name) evaluated by this file over the project it generated plus the extern
mock files lian copies into the workspace (parsed here, not taken from lian's tables).
Observation: recording wrappers on P3 (where it takes its start methods, which frames it analyses), semantic_p1/entry_points,
the console lines `Analyzing <method ..>`, taint/taint_data_flow.json.
Clauses: (1,2) set of start methods == selected set; (3) every selected method is analysed as a frame of its own even if
nothing calls it; (4) flows: exactly the embedded flows of the methods reachable from a selected entry (reachability from the
generator's call structure, validated for Python against CPython's call events)."""
import ast
import json
import os
import random
import re
import sys

from lib import common, forkpool, lianrun
from lib.monitors import callgraph

PROP = "C20"

SOURCE_YAML = """- lang: python
  rules:
    - operation: parameter_decl
      name: "tsrc"
- lang: javascript
  rules:
    - operation: parameter_decl
      name: "tsrc"
"""
SINK_YAML = """- lang: python
  rules:
    - operation: call_stmt
      name: "tsnk"
      target: ["\\\\%arg0"]
- lang: javascript
  rules:
    - operation: call_stmt
      name: "tsnk"
      target: ["\\\\%arg0"]
"""
LANG_OF_EXT = {".py": "python", ".js": "javascript"}
RULE_CLASSES = ("empty-rules", "initialiser-only", "by-method-name", "by-language", "by-unit-name", "by-unit-path",
                "by-unit-name-and-path", "by-attribute", "shared-chain-entries", "overlapping-rules", "repo-default")
# decorator names: none is a substring of another, none contains a word lian gives a meaning of its own (static, private, ...)
DECOS = ("route", "cronjob", "expose", "hook")
# names the repo's default entry.yaml mentions (unit_name routes.py / controller.py ...), used to make that rule set bite
DEFAULT_YAML_FILES = {"routes.py": ["file", "queue_join", "predict"], "controller.py": ["worker_api_generate_stream"],
                      "retrieval_rag.py": ["from_pretrained"]}


# ---------------------------------------------------------------------------------------------------------------------
# project generator

def gen_project(seed, tag):
    rng = random.Random(seed)
    n_files = rng.randint(2, 4)
    dirs = ["", f"api_{tag}", f"core_{tag}", f"web_{tag}/v1_{tag}"]
    stems = [f"routes_{tag}", f"subroutes_{tag}", f"app_{tag}", f"views_{tag}", f"jobs_{tag}", f"util_{tag}"]
    shared = [f"handle_{tag}", f"process_{tag}", f"main_{tag}", f"on_event_{tag}"]      # names that recur across files
    files, methods, unit_init = {}, [], {}
    used = set()
    langs_present = set()
    uid = [0]

    def fresh(p):
        uid[0] += 1
        return f"{p}{uid[0]}_{tag}"

    # file layout: same base names in different directories are a regular feature (twins of handlers_<tag>, several __init__.py)
    layout = []
    nonroot = dirs[1:]
    if rng.random() < 0.7:
        ext = ".py" if rng.random() < 0.75 else ".js"
        for d in rng.sample(dirs, rng.choice([2, 2, 3])):
            layout.append(os.path.join(d, f"handlers_{tag}{ext}").lstrip("/"))
    if rng.random() < 0.5:
        for d in rng.sample(nonroot, rng.choice([1, 2, 2])):
            layout.append(os.path.join(d, "__init__.py"))
    while len(layout) < n_files:
        ext = rng.choice([".py", ".py", ".js"])
        if ext == ".py" and rng.random() < 0.12:
            rel = os.path.join(rng.choice(dirs), rng.choice(sorted(DEFAULT_YAML_FILES)))
        else:
            rel = os.path.join(rng.choice(dirs), rng.choice(stems) + ext)
        rel = rel.lstrip("/")
        if rel not in layout:
            layout.append(rel)
    if not any(r.endswith(".py") for r in layout):
        layout.append(f"app_{tag}.py")
    if not any(r.endswith(".js") for r in layout) and rng.random() < 0.8:
        layout.append(os.path.join(rng.choice(dirs), f"client_{tag}.js").lstrip("/"))
    rng.shuffle(layout)
    for rel in layout:
        lang = "python" if rel.endswith(".py") else "javascript"
        used.add(rel)
        langs_present.add(lang)
        out = []
        mlist = []          # indices into methods of this file's callable-by-name top-level functions
        # a shared call chain helper -> (helper2 ->) leaf with the only sink in the leaf; several functions of the file hand their
        # own parameter down the chain, so each of them has a flow  <its parameter> -> <the leaf's sink>
        chain_head = None
        if rng.random() < 0.6:
            depth = rng.choice([2, 3, 3])
            prev = None
            for lv in range(depth):            # declared innermost first
                role = "chain-leaf" if lv == 0 else "chain-helper"
                nm = fresh("leaf" if lv == 0 else "helper")
                pname = f"cv{lv}"
                idx = len(methods)
                if lang == "python":
                    out.append(f"def {nm}({pname}):")
                    line = len(out)
                    if lv == 0:
                        out.append(f"    tsnk({pname})")
                    else:
                        out.append(f"    r = {methods[prev]['name']}({pname})")
                    body_line = len(out)
                    out.append("    return 0")
                else:
                    out.append(f"function {nm}({pname}) {{")
                    line = len(out)
                    if lv == 0:
                        out.append(f"    tsnk({pname});")
                    else:
                        out.append(f"    var r = {methods[prev]['name']}({pname});")
                    body_line = len(out)
                    out.append("    return 0;")
                    out.append("}")
                methods.append({"file": rel, "lang": lang, "name": nm, "line": line, "sink_line": body_line if lv == 0 else None,
                                "param_line": None, "attrs": [], "cls": None, "calls": [], "tcalls": [prev] if prev is not None else [],
                                "role": role})
                prev = idx
            chain_head = prev
        n_funcs = rng.randint(3, 4) if chain_head is not None else rng.randint(2, 4)
        # a helper without parameters and without statements (docstring-only / empty braces; `pass` / `return` as controls):
        # functions call it BETWEEN taking their parameter and the sink
        noop = None
        if rng.random() < 0.6:
            variant = rng.choice(["docstring-only", "docstring-only", "pass-only"] if lang == "python" else ["empty-braces", "empty-braces", "return-only"])
            nm0 = fresh("noop")
            if lang == "python":
                out.append(f"def {nm0}():")
                line0 = len(out)
                out.append('    """does nothing"""' if variant == "docstring-only" else "    pass")
            else:
                out.append(f"function {nm0}() {{}}" if variant == "empty-braces" else f"function {nm0}() {{ return; }}")
                line0 = len(out)
            noop = len(methods)
            methods.append({"file": rel, "lang": lang, "name": nm0, "line": line0, "sink_line": None, "param_line": None, "attrs": [],
                            "cls": None, "calls": [], "role": "empty-helper", "variant": variant})
        names = []
        base = os.path.basename(rel)
        for j in range(n_funcs):
            r = rng.random()
            if base in DEFAULT_YAML_FILES and j == 0:
                names.append(rng.choice(DEFAULT_YAML_FILES[base]))
            elif r < 0.45:
                c = [s for s in shared if s not in names]
                names.append(rng.choice(c) if c else fresh("fn"))
            else:
                names.append(fresh("fn"))
        decos_here = []
        if lang == "python":
            if rng.random() < 0.7:
                decos_here = rng.sample(DECOS, rng.randint(1, 2))
                for d in decos_here:
                    out.append(f"def {d}_{tag}(fn):")
                    methods.append({"file": rel, "lang": lang, "name": f"{d}_{tag}", "line": len(out), "sink_line": None, "param_line": None,
                                    "attrs": [], "cls": None, "calls": [], "role": "decorator"})
                    out.append("    return fn")
        # functions (later ones may call earlier ones with a constant argument)
        for j, nm in enumerate(names):
            attrs = []
            if lang == "python" and decos_here and rng.random() < 0.5:
                attrs = rng.sample(decos_here, rng.randint(1, len(decos_here)))
                for a in attrs:
                    out.append(f"@{a}_{tag}")
            callee = rng.choice(mlist) if mlist and rng.random() < 0.4 else None
            tcall = chain_head if chain_head is not None and rng.random() < 0.85 else None
            idx = len(methods)
            nested = None
            if lang == "python":
                out.append(f"def {nm}(tsrc):")
                line = len(out)
                before = noop if noop is not None and rng.random() < 0.55 else None
                if before is not None:
                    out.append(f"    {methods[before]['name']}()")
                out.append("    tsnk(tsrc)")
                sink = len(out)
                if callee is not None:
                    out.append(f"    r = {methods[callee]['name']}({rng.randint(1, 9)})")
                if tcall is not None:
                    out.append(f"    r2 = {methods[tcall]['name']}(tsrc)")
                if rng.random() < 0.15:
                    # a nested function, never called: a method declaration like any other for name-based rules
                    free = [s_ for s_ in shared if s_ not in names]      # never the name of a function of this file
                    nn = rng.choice(free) if free and rng.random() < 0.4 else fresh("inner")
                    out.append(f"    def {nn}(tsrc):")
                    nested = {"file": rel, "lang": lang, "name": nn, "line": len(out), "sink_line": len(out) + 1, "param_line": len(out),
                              "attrs": [], "cls": None, "calls": [], "role": "nested-function"}
                    out.append("        tsnk(tsrc)")
                    out.append("        return 0")
                out.append(f"    return {j + 1}")
            else:
                out.append(f"function {nm}(tsrc) {{")
                line = len(out)
                before = noop if noop is not None and rng.random() < 0.55 else None
                if before is not None:
                    out.append(f"    {methods[before]['name']}();")
                out.append("    tsnk(tsrc);")
                sink = len(out)
                if callee is not None:
                    out.append(f"    var r = {methods[callee]['name']}({rng.randint(1, 9)});")
                if tcall is not None:
                    out.append(f"    var r2 = {methods[tcall]['name']}(tsrc);")
                out.append(f"    return {j + 1};")
                out.append("}")
            methods.append({"file": rel, "lang": lang, "name": nm, "line": line, "sink_line": sink, "param_line": line,
                            "attrs": [f"{a}_{tag}" for a in attrs], "cls": None,
                            "calls": ([callee] if callee is not None else []) + ([before] if before is not None else []),
                            "empty_call_before_sink": methods[before]["variant"] if before is not None else None,
                            "tcalls": [tcall] if tcall is not None else [], "role": "function"})
            mlist.append(idx)
            if nested is not None:
                methods.append(nested)
        # a class with one or two methods (never called: reachable only when selected)
        if rng.random() < 0.6:
            cname = fresh("Cls")
            if lang == "python":
                out.append(f"class {cname}:")
            else:
                out.append(f"class {cname} {{")
            cnames = []
            for _ in range(rng.randint(1, 2)):
                free = [s_ for s_ in shared if s_ not in cnames]
                nm = rng.choice(free) if free and rng.random() < 0.4 else fresh("meth")
                cnames.append(nm)
                if lang == "python":
                    out.append(f"    def {nm}(self, tsrc):")
                    line = len(out)
                    out.append("        tsnk(tsrc)")
                    sink = len(out)
                    out.append("        return 0")
                else:
                    out.append(f"    {nm}(tsrc) {{")
                    line = len(out)
                    out.append("        tsnk(tsrc);")
                    sink = len(out)
                    out.append("        return 0;")
                    out.append("    }")
                methods.append({"file": rel, "lang": lang, "name": nm, "line": line, "sink_line": sink, "param_line": line, "attrs": [],
                                "cls": cname, "calls": [], "role": "class-method"})
            if lang != "python":
                out.append("}")
        # top-level code: 0..2 calls of this file's functions (a file without any has no unit initialiser)
        ui_calls = []
        if mlist and rng.random() < 0.65:
            for _ in range(rng.randint(1, 2)):
                c = rng.choice(mlist)
                ui_calls.append(c)
                if lang == "python":
                    out.append(f"res{len(ui_calls)}_{tag} = {methods[c]['name']}({rng.randint(1, 9)})")
                else:
                    out.append(f"var res{len(ui_calls)}_{tag} = {methods[c]['name']}({rng.randint(1, 9)});")
        unit_init[rel] = {"exists": bool(ui_calls), "calls": ui_calls}
        files[rel] = "\n".join(out) + "\n"
    return {"tag": tag, "files": files, "methods": methods, "unit_init": unit_init, "langs": sorted(langs_present)}


# ---------------------------------------------------------------------------------------------------------------------
# rule sets

def gen_rule_sets(project, seed, classes):
    """-> list of {"cls", "rules": [rule dicts], "extra_files": {relpath: [rule dicts]}, "use_repo_default": bool}"""
    rng = random.Random(seed)
    tag = project["tag"]
    ms = [m for m in project["methods"] if m["role"] != "decorator"]
    names = sorted({m["name"] for m in ms})
    files = sorted(project["files"])

    def some_names(k=2):
        out = rng.sample(names, min(k, len(names)))
        if rng.random() < 0.5:
            out.append(f"nowhere_{tag}")
        if rng.random() < 0.3:
            out.append("%unit_init")
        return out

    def unit_name_of(f):
        b = os.path.basename(f)
        r = rng.random()
        if r < 0.6:
            return b                          # the full file name
        if r < 0.8:
            return b.split(".")[0]            # its stem (contained in subroutes_x.py when it is routes_x ...)
        return b[1:]                          # a proper suffix

    def unit_path_of(f):
        r = rng.random()
        if "/" in f and r < 0.4:
            return os.path.dirname(f) + "/"    # a directory: every file below it
        if r < 0.8:
            return f                           # relative path of the file
        return f"src_{tag}/" + f               # including the input directory's own name

    out = []
    for cls in classes:
        rs = {"cls": cls, "rules": [], "extra_files": {}, "use_repo_default": False}
        if cls == "empty-rules":
            pass
        elif cls == "initialiser-only":
            rs["rules"] = [{"method_list": ["%unit_init"]}]
        elif cls == "by-method-name":
            rs["rules"] = [{"method_list": some_names(rng.randint(1, 3))}]
        elif cls == "by-language":
            lang = rng.choice(["python", "javascript", "java"] if rng.random() < 0.85 else ["go"])
            r = {"lang": lang}
            if rng.random() < 0.75:
                r["method_list"] = some_names(2) + (["%unit_init"] if rng.random() < 0.5 else [])
            rs["rules"] = [r]
        elif cls == "by-unit-name":
            rs["rules"] = [{"unit_name": unit_name_of(rng.choice(files)), "method_list": some_names(3) + ["%unit_init"]}]
            if rng.random() < 0.3:
                rs["rules"][0].pop("method_list")          # every method of the matching units
        elif cls == "by-unit-path":
            rs["rules"] = [{"unit_path": unit_path_of(rng.choice(files)), "method_list": some_names(3) + ["%unit_init"]}]
            if rng.random() < 0.3:
                rs["rules"][0].pop("method_list")
        elif cls == "by-unit-name-and-path":
            # both restrictions in one rule; files with the same base name in different directories tell them apart
            bases = {}
            for f in files:
                bases.setdefault(os.path.basename(f), []).append(f)
            twins = sorted(b for b, fs in bases.items() if len(fs) > 1)
            b = rng.choice(twins) if twins and rng.random() < 0.85 else os.path.basename(rng.choice(files))
            f = rng.choice(bases[b])
            r = rng.random()
            if r < 0.5 and "/" in f:
                up = os.path.dirname(f) + "/"                     # the directory of one of the twins
            elif r < 0.8:
                up = f if "/" in f else f"src_{tag}/" + f           # the relative path of one of them
            else:
                other = [d for d in {os.path.dirname(x) for x in files} if d and d != os.path.dirname(f)]
                up = (rng.choice(sorted(other)) + "/") if other else f"nowhere_{tag}/"      # a directory the file is not in
            here = sorted({m["name"] for m in ms if os.path.basename(m["file"]) == b})
            ml = rng.sample(here, min(len(here), rng.randint(1, 3))) + ["%unit_init"]
            rs["rules"] = [{"unit_name": b if rng.random() < 0.8 else b.split(".")[0], "unit_path": up, "method_list": ml}]
            if rng.random() < 0.25:
                rs["rules"][0].pop("method_list")
        elif cls == "shared-chain-entries":
            # every function that hands its parameter down a shared helper -> leaf chain, named explicitly
            heads = sorted({m["name"] for m in ms if m.get("tcalls") and m["role"] == "function"})
            rs["rules"] = [{"method_list": heads or some_names(2)}]
            if rng.random() < 0.3:
                rs["rules"][0]["method_list"] = rs["rules"][0]["method_list"] + ["%unit_init"]
        elif cls == "by-attribute":
            have = sorted({a for m in ms for a in m["attrs"]})
            want = rng.sample(have, min(len(have), rng.randint(1, 2))) if have else [f"{DECOS[0]}_{tag}"]
            r = {"attrs": want}
            if rng.random() < 0.4:
                r["lang"] = "python"
            if rng.random() < 0.3:
                r["method_list"] = some_names(3)
            rs["rules"] = [r]
        elif cls == "overlapping-rules":
            f = rng.choice(files)
            rules = [{"method_list": some_names(2)},
                     {"unit_name": os.path.basename(f), "method_list": some_names(2) + ["%unit_init"]},
                     {"lang": rng.choice(["python", "javascript"]), "method_list": some_names(2)},
                     {"unit_path": unit_path_of(rng.choice(files)), "method_list": ["%unit_init"]}]
            rng.shuffle(rules)
            if rng.random() < 0.5:
                rs["rules"] = rules[:2]
                rs["extra_files"] = {f"more_{tag}/extra-entry.yaml": rules[2:]}
            else:
                rs["rules"] = rules
        elif cls == "repo-default":
            rs["use_repo_default"] = True
        out.append(rs)
    return out


def rules_yaml(rules):
    import yaml
    return yaml.safe_dump(rules, sort_keys=False, default_flow_style=False) if rules else "[]\n"


# ---------------------------------------------------------------------------------------------------------------------
# the restated matching rule

def rule_selects(rule, unit, method):
    """unit: {lang, path (full path lian analyses), name (basename)}; method: {name, attrs}.
    Every restriction a rule states must hold; a restriction it does not state does not restrict."""
    if rule.get("lang") and rule["lang"] != unit["lang"]:
        return False
    if rule.get("unit_name") and rule["unit_name"] not in unit["name"]:
        return False
    if rule.get("unit_path") and rule["unit_path"] not in unit["path"]:
        return False
    if rule.get("method_list") and method["name"] not in rule["method_list"]:
        return False
    if rule.get("attrs") and not all(a in method["attrs"] for a in rule["attrs"]):
        return False
    return True


def extern_units(wsd, langs):
    """the mock files lian copied into <workspace>/externs, parsed here: methods by name, whether top-level code exists"""
    out = []
    root = os.path.join(wsd, "externs")
    for dp, dn, fn in os.walk(root):
        dn.sort()
        for f in sorted(fn):
            ext = os.path.splitext(f)[1]
            lang = LANG_OF_EXT.get(ext)
            if lang is None or lang not in langs:
                continue
            p = os.path.join(dp, f)
            with open(p) as fh:
                text = fh.read()
            meths, has_top = [], False
            if lang == "python":
                tree = ast.parse(text)
                for node in ast.walk(tree):
                    if isinstance(node, (ast.FunctionDef, ast.AsyncFunctionDef)):
                        meths.append({"name": node.name, "attrs": [ast.unparse(d) for d in node.decorator_list]})
                has_top = any(not isinstance(n, (ast.FunctionDef, ast.AsyncFunctionDef, ast.ClassDef, ast.Import, ast.ImportFrom))
                              for n in tree.body)
            else:
                code = re.sub(r"/\*.*?\*/", "", text, flags=re.S)
                code = "\n".join(l.split("//")[0] for l in code.splitlines())
                depth = 0
                for line in code.splitlines():
                    s = line.strip()
                    if depth == 0 and s:
                        m = re.match(r"(?:async\s+)?function\s+(\w+)\s*\(", s)
                        if m:
                            meths.append({"name": m.group(1), "attrs": []})
                        elif not s.startswith(("class ", "import ", "export ", "}")):
                            has_top = True
                    depth += s.count("{") - s.count("}")
            out.append({"lang": lang, "path": p, "name": f, "methods": meths, "has_top": has_top, "extern": True})
    return out


def read_own_log():
    try:
        sys.stdout.flush()
        with open(os.readlink("/proc/self/fd/1"), "r", errors="replace") as f:
            return f.read()
    except OSError:
        return None


# ---------------------------------------------------------------------------------------------------------------------
# child

def analyse(job):
    project, rs = job["project"], job["ruleset"]
    tag, cls = project["tag"], rs["cls"]
    rec = callgraph.install_p3_recorder()
    sc = common.scratch()
    base = os.path.join(sc, f"c20_{tag}_{job['k']}")
    root = os.path.join(base, f"src_{tag}")
    for rel, text in project["files"].items():
        p = os.path.join(root, rel)
        os.makedirs(os.path.dirname(p), exist_ok=True)
        with open(p, "w") as f:
            f.write(text)
    import yaml
    if rs["use_repo_default"]:
        with open(os.path.join(common.REPO, "default_settings", "entry.yaml")) as f:
            entry_text = f.read()
        rules = yaml.safe_load(entry_text) or []
    else:
        entry_text = rules_yaml(rs["rules"])
        rules = list(rs["rules"])
    st = lianrun.write_settings(os.path.join(base, "settings"), entry=entry_text, source=SOURCE_YAML, sink=SINK_YAML)
    for rel, rr in rs["extra_files"].items():
        p = os.path.join(st, rel)
        os.makedirs(os.path.dirname(p), exist_ok=True)
        with open(p, "w") as f:
            f.write(rules_yaml(rr))
        rules += rr
    ws = os.path.join(base, "ws")
    langs = ["python", "javascript"]
    mark = f"=====C20-BEGIN-{tag}-{job['k']}====="
    print(mark)
    app = lianrun.run_lian(lianrun.lian_argv("run", ",".join(langs), [root], ws, st, []))
    wsd = lianrun.ws_dir(ws)
    log = read_own_log()
    res = {"cls": cls, "tag": tag, "fails": [], "harness": [], "selected": 0, "started": len(rec["entries"]), "flows_expected": 0,
           "flows_observed": 0, "uncalled_selected": 0, "extern_selected": 0, "unit_init_selected": 0, "console_checked": 0,
           "wrapper_calls": rec["wrapper_calls"], "recorder_errors": rec["errors"][:3], "n_rules": len(rules),
           "langs": project["langs"], "selected_by_role": {}, "chain_flows_expected": 0, "entries_sharing_a_chain": 0,
           "same_base_name_files": len(project["files"]) - len({os.path.basename(f) for f in project["files"]})}
    gi = callgraph.GirIndex(wsd)
    # ---- units as this check knows them ---------------------------------------------------------------------------------
    units = []
    for rel in sorted(project["files"]):
        lang = LANG_OF_EXT[os.path.splitext(rel)[1]]
        units.append({"lang": lang, "path": os.path.join(wsd, "src", f"src_{tag}", rel), "name": os.path.basename(rel), "rel": rel,
                      "extern": False})
    ext_units = extern_units(wsd, langs)
    # ---- expected selection ------------------------------------------------------------------------------------------------
    expected = {}           # GIR method id -> description
    def want(unit, method, gir_id, desc):
        if any(rule_selects(r, unit, method) for r in rules):
            if gir_id is None:
                res["harness"].append(f"selected method {desc} has no method_decl row")
            else:
                expected[gir_id] = desc
    method_gid = {}
    for u in units:
        uid = gi.unit_for(os.path.join(root, u["rel"]))
        if uid is None:
            res["harness"].append(f"file {u['rel']} has no unit in module_symbols")
            continue
        for i, m in enumerate(project["methods"]):
            if m["file"] != u["rel"]:
                continue
            first = m["line"] - len(m["attrs"])
            gid = gi.method_id(uid, m["line"], first, m["name"])
            method_gid[i] = gid
            want(u, m, gid, {"file": m["file"], "name": m["name"], "role": m["role"], "lang": m["lang"], "idx": i})
        ui = project["unit_init"][u["rel"]]
        has_row = uid in gi.unit_init
        if ui["exists"] != has_row:
            res["harness"].append(f"{u['rel']}: generator says unit initialiser exists={ui['exists']}, GIR says {has_row}")
        if ui["exists"]:
            want(u, {"name": "%unit_init", "attrs": []}, gi.unit_init.get(uid),
                 {"file": u["rel"], "name": "%unit_init", "role": "unit-init", "lang": u["lang"], "idx": None})
    for u in ext_units:
        uid = None
        for k_, r_ in gi.units.items():
            if os.path.realpath(r_.get("unit_path", "")) == os.path.realpath(u["path"]):
                uid = k_
        if uid is None:
            res["harness"].append(f"extern file {u['path']} has no unit")
            continue
        rows = {}
        for r_ in gi.methods_of_unit.get(uid, []):
            rows.setdefault(r_.get("name"), []).append(int(r_["stmt_id"]))
        for m in u["methods"]:
            ids = rows.get(m["name"], [])
            if any(rule_selects(r, u, m) for r in rules):
                if len(ids) != 1:
                    res["harness"].append(f"extern method {m['name']} of {u['name']}: {len(ids)} method_decl rows")
                else:
                    expected[ids[0]] = {"file": "externs/" + u["name"], "name": m["name"], "role": "extern-method", "lang": u["lang"], "idx": None}
        if u["has_top"] and any(rule_selects(r, u, {"name": "%unit_init", "attrs": []}) for r in rules):
            if uid in gi.unit_init:
                expected[gi.unit_init[uid]] = {"file": "externs/" + u["name"], "name": "%unit_init", "role": "extern-unit-init", "lang": u["lang"], "idx": None}
            else:
                res["harness"].append(f"extern {u['name']} has top-level code but no %unit_init row")
    res["selected"] = len(expected)
    for d in expected.values():
        res["selected_by_role"][d["role"]] = res["selected_by_role"].get(d["role"], 0) + 1
    # ---- (1)(2) the start set ---------------------------------------------------------------------------------------------
    started = list(rec["entries"])
    name_of = {int(r["stmt_id"]): r.get("name") for rows in gi.methods_of_unit.values() for r in rows}

    def describe(gid):
        d = expected.get(gid)
        if d:
            return f"{d['file']}:{d['name']}"
        r = gi.by_id.get(gid, {})
        u = gi.units.get(int(r.get("unit_id", -1)), {})
        return f"{os.path.basename(str(u.get('unit_path', '?')))}:{r.get('name')}"

    def role_of(gid):
        d = expected.get(gid)
        if d:
            return d["role"]
        r = gi.by_id.get(gid, {})
        u = gi.units.get(int(r.get("unit_id", -1)), {})
        if u.get("is_extern"):
            return "extern-method"
        return "unit-init" if r.get("name") == "%unit_init" else "method"

    case = {"project": project, "ruleset": rs}
    for gid in sorted(set(started) - set(expected)):
        res["fails"].append((f"{cls}:start-set:unselected-method-started[{role_of(gid)}]",
                             f"P3 started from {describe(gid)} (method {gid}) which no rule of {json.dumps(rules)[:300]} selects", case))
    for gid in sorted(set(expected) - set(started)):
        res["fails"].append((f"{cls}:start-set:selected-method-not-started[{role_of(gid)}]",
                             f"{describe(gid)} (method {gid}) is selected by the rules {json.dumps(rules)[:300]} but P3 never started from it", case))
    if len(started) != len(set(started)):
        dup = sorted({g for g in started if started.count(g) > 1})
        res["fails"].append((f"{cls}:start-set:method-started-more-than-once", f"P3 started more than once from {[describe(g) for g in dup]}", case))
    ep_file = callgraph.read_entry_points(wsd)
    if (ep_file or set()) != set(started):
        res["fails"].append((f"{cls}:start-set:entry-points-file-differs-from-actual-starts",
                             f"semantic_p1/entry_points holds {sorted(ep_file) if ep_file is not None else None}, P3 started from {sorted(set(started))}", case))
    live = set(int(x) for x in app.loader.get_entry_points())
    if live != set(started):
        res["fails"].append((f"{cls}:start-set:loader-entry-points-differ-from-actual-starts",
                             f"loader.get_entry_points() = {sorted(live)}, P3 started from {sorted(set(started))}", case))
    # a method without any statement (docstring-only body, `{}`) has nothing to analyse: being started is all that can be demanded
    statementless = {g for i_, g in method_gid.items() if g is not None and project["methods"][i_].get("variant") in ("docstring-only", "empty-braces")}
    # console lines: an entry's analysis starts with its own `Analyzing <method id ...>` line at stack depth 1
    if log is not None and mark in log:
        seg = log.split(mark, 1)[1]
        analysed_console = [int(x) for x in re.findall(r"^Analyzing <method (\d+) name:", seg, flags=re.M)]
        res["console_checked"] = len(analysed_console)
        miss = [g for g in set(started) if g not in analysed_console and g not in statementless]
        if miss:
            res["fails"].append((f"{cls}:start-set:console-lacks-analyzing-line-for-a-start",
                                 f"no `Analyzing <method ..>` line for started entries {[describe(g) for g in miss]}", case))
    else:
        res["harness"].append("console log not readable")
    # ---- (3) each selected method is analysed as a frame of its own -------------------------------------------------------------
    called_somewhere = set()
    for m in project["methods"]:
        called_somewhere.update(m["calls"])
        called_somewhere.update(m.get("tcalls", []))
    for ui in project["unit_init"].values():
        called_somewhere.update(ui["calls"])
    for gid, d in sorted(expected.items()):
        if gid not in started:
            continue
        fr = rec["frames"].get((gid, -1, -1, gid))
        ok = fr is not None and fr["analyze"] > 0 and fr["stmts"] > 0 and fr["done"] > 0
        if d["idx"] is not None and d["idx"] not in called_somewhere:
            res["uncalled_selected"] += 1
        if d["role"].startswith("extern"):
            res["extern_selected"] += 1
        if d["role"].endswith("unit-init"):
            res["unit_init_selected"] += 1
        if gid in statementless:
            res["statementless_selected"] = res.get("statementless_selected", 0) + 1
            continue
        if not ok:
            res["fails"].append((f"{cls}:selected-entry-not-analysed[{d['role']}]",
                                 f"{describe(gid)} was taken as a start but its own frame is {fr}", case))
    # ---- (4) flows ------------------------------------------------------------------------------------------------------------
    def closure(gids):
        """methods of the generated project reachable from the given start methods (GIR ids)"""
        out, work = set(), []
        for g in gids:
            if g in gid_method:
                work.append(gid_method[g])
            elif g in gid_unit_init:
                work += project["unit_init"][gid_unit_init[g]]["calls"]
        while work:
            i = work.pop()
            if i in out:
                continue
            out.add(i)
            work += project["methods"][i]["calls"] + project["methods"][i].get("tcalls", [])
        return out
    gid_method = {g: i for i, g in method_gid.items() if g is not None}
    gid_unit_init = {}
    for u in units:
        uid_ = gi.unit_for(os.path.join(root, u["rel"]))
        if uid_ in gi.unit_init:
            gid_unit_init[gi.unit_init[uid_]] = u["rel"]
    reach = closure(expected)
    # the flow clause is judged against what P3 really started from, so that a wrong start set (reported above) is not reported a
    # second time as missing / surplus flows
    reach_started = closure(started)
    # validate the Python part of the reachability against CPython
    dyn_err = validate_reach_python(project, root, expected, reach)
    if dyn_err:
        res["harness"].append(dyn_err)
    def flows_of(i):
        """flows whose source is the parameter tsrc of method i: into its own sink, and into the sink of every leaf its parameter
        is handed down to (helper -> .. -> leaf)"""
        m = project["methods"][i]
        out = {}
        if m["param_line"] is None:
            return out
        if m["sink_line"] is not None:
            out[(m["file"], m["param_line"], m["sink_line"])] = ("own", i)
        work, seen = list(m.get("tcalls", [])), set()
        while work:
            j = work.pop()
            if j in seen:
                continue
            seen.add(j)
            mj = project["methods"][j]
            if mj["sink_line"] is not None:
                out[(m["file"], m["param_line"], mj["sink_line"])] = ("chain", i)
            work += mj.get("tcalls", [])
        return out
    exp_flows = {}
    for i in reach_started:
        exp_flows.update(flows_of(i))
    all_flows = {}
    for i in range(len(project["methods"])):
        all_flows.update(flows_of(i))
    obs = set()
    tf = os.path.join(wsd, "taint", "taint_data_flow.json")
    if os.path.exists(tf):
        with open(tf) as f:
            data = json.load(f)
        srcroot = os.path.join(wsd, "src", f"src_{tag}") + os.sep
        for fl in data:
            sp, kp = str(fl.get("source_file_path")), str(fl.get("sink_file_path"))
            key = (kp[len(srcroot):] if kp.startswith(srcroot) else kp, fl.get("source_line"), fl.get("sink_line"))
            if sp != kp:
                key = (key[0] + "<-" + sp, key[1], key[2])
            obs.add(key)
    res["flows_expected"], res["flows_observed"] = len(exp_flows), len(obs)
    entry_idx = {gid_method[g] for g in started if g in gid_method}
    started_order = [g for g in started if g in gid_method]
    n_chain = sum(1 for v_ in exp_flows.values() if v_[0] == "chain")
    res["chain_flows_expected"] = n_chain
    res["flows_behind_empty_call"] = sum(1 for k_, v_ in exp_flows.items() if v_[0] == "own" and
                                         project["methods"][v_[1]].get("empty_call_before_sink") in ("docstring-only", "empty-braces"))
    res["entries_sharing_a_chain"] = sum(1 for g in set(started) if g in gid_method and project["methods"][gid_method[g]].get("tcalls"))
    for k in sorted(set(exp_flows) - obs):
        how, i = exp_flows[k]
        m = project["methods"][i]
        where = "selected-entry" if i in entry_idx else "callee-of-selected-entry"
        if how == "chain":
            nth = started_order.index(method_gid[i]) + 1 if method_gid.get(i) in started_order else 0
            # within ONE entry's analysis the chain's inner call sites are entered once per function that hands its parameter down;
            # if under every started entry that reaches this function three or more such functions are reachable, the per-call-site
            # analysis budget of that entry is a (known) explanation - otherwise it is not
            leaf_sinks = {kk[2] for kk in flows_of(i) if kk != (m["file"], m["param_line"], m["sink_line"])}
            def hands_down(j):
                return any(kk[2] in leaf_sinks and vv[0] == "chain" for kk, vv in flows_of(j).items())

            def visits(j, depth=0):
                """number of call paths below (and including) method j on which the chain is entered"""
                if depth > 30:
                    return 0
                return (1 if hands_down(j) else 0) + sum(visits(c, depth + 1) for c in project["methods"][j]["calls"])
            per_entry = []
            for g in set(started):
                if i in closure([g]):
                    if g in gid_method:
                        per_entry.append(visits(gid_method[g]))
                    else:
                        per_entry.append(sum(visits(c) for c in project["unit_init"][gid_unit_init[g]]["calls"]))
            # length of the chain below the function (helper -> helper -> leaf = 3): the budget of a call site is kept per calling
            # call site, so only from the third chain level on do different callers share it
            def chain_len(j, d=0):
                mj = project["methods"][j]
                return max([d + 1] + [chain_len(c, d + 1) for c in mj.get("tcalls", [])]) if d < 10 else d
            deep = max([chain_len(c) for c in m.get("tcalls", [])] or [0]) >= 3
            crowded = deep and bool(per_entry) and min(per_entry) >= 3
            tag = "{chain-of-3-or-more-levels-entered-on-3-or-more-call-paths-within-each-reaching-entry}" if crowded else ""
            res["fails"].append((f"flow-from-entry-parameter-through-shared-call-chain-missing{tag}[{m['lang']}]" if crowded else
                                 f"{cls}:flow-from-entry-parameter-through-shared-call-chain-missing[{m['lang']}]",
                                 f"{m['file']}: parameter tsrc of {m['name']} (line {k[1]}) is handed down helper -> leaf to tsnk (line {k[2]}); "
                                 f"{m['name']} is reachable from an entry P3 started from (it is start no. {nth} of {len(started)}; "
                                 f"{res['entries_sharing_a_chain']} starts share such a chain) but taint_data_flow.json has no such flow", case))
        else:
            if m.get("empty_call_before_sink"):
                where += f"-behind-call-of-{m['empty_call_before_sink']}-function"
            res["fails"].append((f"{cls}:flow-missing-in-{where}[{m['lang']}:{m['role']}]",
                                 f"{m['file']}: parameter tsrc of {m['name']} (line {k[1]}) -> tsnk (line {k[2]}) is reachable from an entry P3 started from "
                                 f"but taint_data_flow.json has no such flow (it has {len(obs)})", case))
    for k in sorted(obs - set(exp_flows)):
        hit = all_flows.get(k)
        i = hit[1] if hit else None
        what = "code-reachable-from-no-entry" if i is not None else "no-embedded-flow"
        m = project["methods"][i] if i is not None else {"lang": "?", "role": "?", "name": "?"}
        res["fails"].append((f"{cls}:flow-reported-in-{what}[{m['lang']}:{m['role']}]",
                             f"taint_data_flow.json reports {k} ({m['name']}) although no entry P3 started from reaches that code; started: "
                             f"{sorted(describe(g) for g in set(started))[:8]}", case))
    return res


def validate_reach_python(project, root, expected, reach):
    """CPython: import every generated Python module (tsnk is a no-op) under sys.setprofile and, for every selected Python function
    / class method / unit initialiser, run it and collect the generated functions entered. Must equal the static closure."""
    import builtins
    import importlib
    builtins.tsnk = lambda *a: None
    pyfiles = {os.path.join(root, rel): rel for rel in project["files"] if rel.endswith(".py")}
    by_line = {(m["file"], m["line"] - len(m["attrs"])): i for i, m in enumerate(project["methods"])}
    entered = set()
    phase = ["import"]
    sel_ui = {d["file"] for d in expected.values() if d["role"] == "unit-init" and d["lang"] == "python"}

    def prof(frame, event, arg):
        if event != "call":
            return
        rel = pyfiles.get(frame.f_code.co_filename)
        if rel is None or frame.f_code.co_name == "<module>":
            return
        i = by_line.get((rel, frame.f_code.co_firstlineno))
        if i is None or project["methods"][i]["name"] != frame.f_code.co_name:
            return
        if phase[0] == "import":
            # top-level code counts only when it belongs to a selected unit initialiser: find the module frame this call is under
            fr = frame.f_back
            while fr is not None and not (fr.f_code.co_name == "<module>" and fr.f_code.co_filename in pyfiles):
                fr = fr.f_back
            if fr is None or pyfiles[fr.f_code.co_filename] not in sel_ui:
                return
        entered.add(i)
    sys.path.insert(0, root)
    sel_idx = [d["idx"] for d in expected.values() if d["idx"] is not None and d["lang"] == "python" and d["role"] != "nested-function"]
    err = None

    def modname(rel):
        parts = rel[:-3].split("/")
        if parts[-1] == "__init__":
            parts = parts[:-1]
        return ".".join(parts)
    sys.setprofile(prof)
    try:
        mods = {}
        for rel in sorted(pyfiles.values()):
            mods[rel] = importlib.import_module(modname(rel))
        phase[0] = "entries"
        for i in sel_idx:
            m = project["methods"][i]
            mod = mods[m["file"]]
            if m["cls"]:
                getattr(getattr(mod, m["cls"])(), m["name"])(0)
            elif m["role"] == "empty-helper":
                getattr(mod, m["name"])()
            else:
                getattr(mod, m["name"])(0)
    except BaseException as e:      # noqa
        err = f"generated project did not run under CPython: {type(e).__name__}: {str(e)[:200]}"
    finally:
        sys.setprofile(None)
        sys.path.remove(root)
    if err:
        return err
    static_py = {i for i in reach if project["methods"][i]["lang"] == "python"}
    dyn = {i for i in entered if project["methods"][i]["role"] != "decorator"}
    # decorators run at import time whether or not anything is selected; they carry no flow. Nested functions are never called.
    if dyn != {i for i in static_py if project["methods"][i]["role"] not in ("decorator", "nested-function")}:
        return f"reachability oracles disagree: CPython entered {sorted(dyn)}, generator closure {sorted(static_py)}"
    return None


# ---------------------------------------------------------------------------------------------------------------------

def load_extra_findings(chk):
    p = os.environ.get("VERIF_EXTRA_FINDINGS")
    if not p:
        return
    with open(p) as f:
        for e in json.load(f).get("findings", []):
            if e.get("property") == chk.prop and not str(e.get("status", "open")).startswith("fixed"):
                chk.findings.open[e["signature"]] = e


def main():
    lianrun.prepare_zygote(warm=True)
    chk = common.Check(PROP, rule=(
        "generated 2-5 file Python+JavaScript projects x entry rule sets; distinct_nontrivial = distinct (project, rule set) pairs "
        "in which at least one method was selected and the set of P3 start methods, the entry_points file, the console and the "
        "taint flows were all compared with the restated rule"))
    thorough = chk.tier == "thorough"
    load_extra_findings(chk)
    rp = os.environ.get("VERIF_REPLAY")
    jobs = []
    if rp:
        with open(rp) as f:
            case = json.load(f)["case"]
        jobs.append({"project": case["project"], "ruleset": case["ruleset"], "k": 0})
    else:
        rng = random.Random(chk.seed)
        n_proj = 44 if not thorough else 500
        per = 6 if not thorough else 8
        base = rng.randrange(1 << 30)
        for i in range(n_proj):
            proj = gen_project(base + i, f"s{chk.seed}q{i}")
            # every project meets the rule classes in rotation, so that each class is met by many projects in either tier
            classes = [RULE_CLASSES[(i + j) % len(RULE_CLASSES)] for j in range(per)]
            for k, rs in enumerate(gen_rule_sets(proj, base * 7 + i, classes)):
                jobs.append({"project": proj, "ruleset": rs, "k": k})
    n_sample = 0
    for r in forkpool.run_jobs(analyse, jobs, timeout=300 if not thorough else 900, tag="c20"):
        proj, rs = r.item["project"], r.item["ruleset"]
        if r.status != "ok":
            if r.status in ("exception", "exit", "signal"):
                what = r.value[0] if r.status == "exception" else r.status
                chk.fail(f"{rs['cls']}:analysis-died:{what}",
                         f"run over project {proj['tag']} with rule set {rs['cls']} ended with {r.status}: {str(r.value)[:500]} {r.log_text(800)}",
                         {"project": proj, "ruleset": rs})
            else:
                chk.note_inconclusive(f"project {proj['tag']} / {rs['cls']}: {r.status}")
            continue
        v = r.value
        chk.evaluated(1)
        chk.count(f"rule set class {v['cls']}: runs", 1)
        chk.count("methods selected by the restated rules", v["selected"])
        chk.count("start methods recorded at P3 init_frame_stack", v["started"])
        chk.count("selected methods that nothing calls (must still be analysed)", v["uncalled_selected"])
        chk.count("selected extern-mock methods", v["extern_selected"])
        chk.count("selected unit initialisers", v["unit_init_selected"])
        chk.count("embedded flows expected (reachable from a selected entry)", v["flows_expected"])
        chk.count("flows expected from an entry parameter through a shared helper -> leaf chain", v["chain_flows_expected"])
        chk.count("flows expected behind a call of a statement-less function (docstring-only / empty braces)", v.get("flows_behind_empty_call", 0))
        chk.count("selected statement-less methods (started, nothing to analyse)", v.get("statementless_selected", 0))
        if v["entries_sharing_a_chain"] >= 3:
            chk.count("runs with >= 3 started methods that hand their parameter down a shared call chain", 1)
        if v["same_base_name_files"] > 0:
            chk.count("runs over a project with same-base-name files in different directories", 1)
        chk.count("flows read from taint_data_flow.json", v["flows_observed"])
        chk.count("console `Analyzing` lines parsed", v["console_checked"])
        chk.count("P3 wrapper invocations", v["wrapper_calls"])
        if v["selected"] == 0:
            chk.count("runs in which the rules select nothing", 1)
        if len(v["langs"]) > 1:
            chk.count("runs over a mixed Python+JavaScript project", 1)
        for role, n in v["selected_by_role"].items():
            chk.count(f"selected [{role}]", n)
        for h in v["harness"]:
            chk.note_inconclusive(f"harness: {v['tag']}/{v['cls']}: {h}")
        if v["recorder_errors"]:
            chk.note_inconclusive(f"recorder raised: {v['recorder_errors']}")
        if v["selected"] > 0:
            chk.nontrivial_case((v["tag"], r.item["k"]))
        seen = set()
        for sig, desc, case in v["fails"]:
            if sig in seen:
                continue
            seen.add(sig)
            chk.fail(sig, desc, case)
        if n_sample < 3 and v["selected"] >= 2 and v["flows_expected"] >= 2 and not rs["use_repo_default"]:
            n_sample += 1
            chk.sample({"files": proj["files"], "rules": rs["rules"], "extra_rule_files": rs["extra_files"], "selected": v["selected"],
                        "started": v["started"], "flows_expected": v["flows_expected"], "flows_observed": v["flows_observed"]})
    if not rp:
        k = 1 if not thorough else 12
        chk.require("methods selected by the restated rules", 150 * k)
        chk.require("start methods recorded at P3 init_frame_stack", 150 * k)
        chk.require("selected methods that nothing calls (must still be analysed)", 40 * k)
        chk.require("selected unit initialisers", 30 * k)
        chk.require("embedded flows expected (reachable from a selected entry)", 150 * k)
        chk.require("flows read from taint_data_flow.json", 100 * k)
        chk.require("runs in which the rules select nothing", 10)
        chk.require("flows expected behind a call of a statement-less function (docstring-only / empty braces)", 80 * k)
        chk.require("flows expected from an entry parameter through a shared helper -> leaf chain", 100 * k)
        chk.require("runs with >= 3 started methods that hand their parameter down a shared call chain", 25 * k)
        chk.require("runs over a project with same-base-name files in different directories", 60 * k)
        chk.require("runs over a mixed Python+JavaScript project", 100 * k)
        chk.require("console `Analyzing` lines parsed", 150 * k)
        for c in RULE_CLASSES:
            chk.require(f"rule set class {c}: runs", 15 * k)
    else:
        chk.nontrivial_case("replay-a"); chk.nontrivial_case("replay-b")
    chk.assumptions += [
        "matching rule as documented: language equality, unit-name / unit-path containment (in the file name / in the path of the "
        "file lian analyses, i.e. the workspace copy), method-name membership, attribute inclusion; a rule selects a method iff "
        "every restriction it states holds; the rule sets are the union of every *entry.yaml under the settings directory",
        "a file has a unit initialiser iff it has top-level code other than declarations and imports",
        "a selected method whose body has no statement at all (docstring-only, `{}`) must be among the starts, but there is nothing of "
        "it to analyse; everything BEHIND a call of such a function must still be analysed (flows behind the call are demanded)",
        "attribute names in the workload are chosen so that none is a substring of another",
        "reachability comes from the generator's call structure (direct calls by name inside one file), validated against CPython "
        "for the Python files; JavaScript reachability is the generator's closure only",
    ]
    sys.exit(chk.finish())


if __name__ == "__main__":
    main()
