"""C03 — emitted GIR is structurally well-formed for every input in every language; the lang phase never ends
with an unhandled exception.

Deciding step: the real `lang` sub-command is run over projects made of the repo's corpora, hand-written valid
programs and seeded byte-level mutants of both; the child then reads `frontend/gir.bundle*` back and evaluates the
structural invariants I1..I6 (lib/monitors/gir_wellformed.py).  `GIRParser.deal_with_file_unit` is wrapped so that an
exception raised while one file is lowered is recorded per file and the batch continues; every distinct crash
signature is then confirmed by an unwrapped, unmonitored run of the witness file in its own child (it must die with a
traceback or a signal).  Batches that die outside the per-file entry are bisected down to the file.
A SystemExit raised while one file is lowered (util.error_and_quit) escapes lian's per-file containment and ends the
phase for every file of the project: recorded per file by the same wrapper and reported as
`lang-phase-aborted:<lang>:<innermost lian function>` once an unwrapped two-file probe {witness, small program}
ends by SystemExit as well.  Every project carries a few "empty-lowering" files (lib/c03_programs.EMPTY_LOWERING and
truncated licence headers) next to ordinary ones, and the hand-written library has feature snippets
(lib/c03_programs.FEATURES) for syntax the corpora lack."""
import base64
import json
import os
import random
import re
import sys

from lib import common, forkpool, lianrun, mutate
from lib import c03_programs
from lib.monitors import gir_wellformed as gw

PROP = "C03"
LANG_EXT = {"python": [".py"], "javascript": [".js"], "typescript": [".ts", ".tsx"], "java": [".java"],
            "go": [".go"], "c": [".c", ".h", ".i"], "php": [".php"], "ruby": [".rb"], "smali": [".smali"],
            "llvm": [".ll"]}
CORPUS_DIRS = ["tests/lang_parser", "tests/dataflows", "tests/control_flows", "tests/import", "tests/state_flows",
               "tests/type", "tests/prototype", "tests/builtin_apis", "tests/apply_summary_tests",
               "tests/motivativing_examples", "tests/preprocessor", "tests/benchmarks", "tests/abc", "tests/arkTS",
               "tests/tmp", "tests/run", "src/lian/externs/mock"]
BIG_CORPUS_DIRS = ["tests/real_cases"]          # thorough only (1000+ files of one vendored project)
# inputs only (scratch copies made by tools/scratch_repo.sh link tests/ to the pristine checkout)
CORPUS_ROOT = common.REPO if os.path.isdir(os.path.join(common.REPO, "tests")) else "/repo"


def available_languages():
    """Languages of lian's own table whose grammar library is present and non-empty."""
    out = []
    libdir = os.path.join(common.REPO, "lib", "linux_x86_64")
    for lang in LANG_EXT:
        p = os.path.join(libdir, f"{lang}.so")
        try:
            if os.path.getsize(p) > 0:
                out.append(lang)
        except OSError:
            pass
    return out


# ---------------------------------------------------------------------------------------------------
# workload

class Src:
    __slots__ = ("lang", "name", "data", "kind", "origin", "edits")

    def __init__(self, lang, name, data, kind, origin, edits=None):
        self.lang, self.name, self.data, self.kind, self.origin, self.edits = lang, name, data, kind, origin, edits


def collect_corpus(langs, thorough, max_bytes):
    ext_lang = {e: l for l in langs for e in LANG_EXT[l]}
    out = {l: [] for l in langs}
    seen = set()
    dirs = CORPUS_DIRS + (BIG_CORPUS_DIRS if thorough else [])
    for d in dirs:
        root = os.path.join(CORPUS_ROOT, d)
        if not os.path.isdir(root):
            continue
        for dp, dns, fns in os.walk(root):
            dns.sort()
            for fn in sorted(fns):
                ext = os.path.splitext(fn)[1].lower()
                lang = ext_lang.get(ext)
                if not lang:
                    continue
                p = os.path.join(dp, fn)
                try:
                    if os.path.islink(p) or not (0 < os.path.getsize(p) <= max_bytes):
                        continue
                    with open(p, "rb") as f:
                        data = f.read()
                except OSError:
                    continue
                key = (lang, data)
                if key in seen:
                    continue
                seen.add(key)
                out[lang].append(Src(lang, fn, data, "corpus", os.path.relpath(p, CORPUS_ROOT)))
    return out


def handwritten(langs):
    out = {l: [] for l in langs}
    for l in langs:
        for name, text in c03_programs.PROGRAMS.get(l, []) + c03_programs.FEATURES.get(l, []):
            out[l].append(Src(l, name, text.encode("utf-8"), "handwritten", f"c03_programs:{name}"))
    return out


BLOCK_COMMENT_LANGS = ("javascript", "typescript", "java", "go", "c", "php")


def empty_lowering(langs):
    """Files that parse but lower to zero GIR statements (lib/c03_programs.EMPTY_LOWERING)."""
    out = {l: [] for l in langs}
    for l in langs:
        for name, text in c03_programs.EMPTY_LOWERING.get(l, []):
            out[l].append(Src(l, name, text.encode("utf-8"), "empty-lowering", f"c03_programs:{name}"))
    return out


def truncated_header(rng, lang, base):
    """An ordinary source with a licence header in front, cut somewhere inside that header."""
    lic = c03_programs._LICENCE
    if lang in BLOCK_COMMENT_LANGS:
        head = ("<?php\n" if lang == "php" else "") + c03_programs._block_comment(lic)
        lo = head.index("/*") + 3
        cut = rng.randrange(lo, len(head) - 3)               # inside the (then unterminated) block comment
    else:
        prefix = ";" if lang == "llvm" else "#"
        head = c03_programs._line_comment(prefix, lic)
        cut = rng.randrange(2, len(head))
    data = (head.encode("utf-8") + base.data)[:cut]
    ext = os.path.splitext(base.name)[1]
    return Src(lang, "truncated_header" + ext, data, "empty-lowering", f"licence header + {base.origin}, cut at {cut}")


def safe_name(i, src):
    base, ext = os.path.splitext(src.name)
    base = re.sub(r"[^A-Za-z0-9_]", "_", base)[:40] or "f"
    return f"{base}_{i}{ext.lower()}"


def build_batches(chk, langs, rng):
    thorough = chk.tier == "thorough"
    corpus = collect_corpus(langs, thorough, 120_000 if not thorough else 400_000)
    hand = handwritten(langs)
    empties = empty_lowering(langs)
    n_mut_total = 2600 if not thorough else 38_000
    batch_size = 70 if not thorough else 110
    # originals
    originals = {l: corpus[l] + hand[l] for l in langs}
    # mutants: share per language ~ sqrt of corpus size so that the small corpora are not starved
    weights = {l: (len(originals[l]) ** 0.5 if originals[l] else 0) for l in langs}
    wsum = sum(weights.values()) or 1
    mutants = {l: [] for l in langs}
    for l in langs:
        pool = originals[l]
        if not pool:
            continue
        small = [s for s in pool if len(s.data) <= 40_000] or pool
        k = int(n_mut_total * weights[l] / wsum)
        for j in range(k):
            base = rng.choice(small if rng.random() < 0.9 else pool)
            other = rng.choice(small).data
            data, edits = mutate.mutate(rng, base.data, other)
            mutants[l].append(Src(l, base.name, data, "mutant", base.origin, edits))
    batches = []

    def add_batch(langs_, srcs, mock=True, quiet=True, nested=False, tag=""):
        files = []
        srcs = list(srcs)
        if tag != "single-file":
            # a few files without a single statement next to the ordinary ones, in every project
            k = len(batches)
            for l in langs_:
                pool = empties.get(l, [])
                if pool:
                    srcs.insert(rng.randrange(0, len(srcs) + 1), pool[k % len(pool)])
                    srcs.insert(rng.randrange(0, len(srcs) + 1), pool[(k + 1) % len(pool)])
                if originals.get(l):
                    srcs.insert(rng.randrange(0, len(srcs) + 1), truncated_header(rng, l, rng.choice(originals[l])))
        for i, s in enumerate(srcs):
            nm = safe_name(i, s)
            if nested:
                nm = os.path.join(*(["pkg%d" % (i % 3)] + (["sub%d" % (i % 2)] if i % 4 == 0 else []) + [nm]))
            files.append((nm, s))
        batches.append({"id": len(batches), "langs": list(langs_), "files": files, "mock": mock, "quiet": quiet,
                        "tag": tag})

    for l in langs:
        items = originals[l] + mutants[l]
        # originals and mutants are mixed inside the same projects
        rng.shuffle(items)
        # keep the few huge files from making one batch slow: sort chunks by nothing, just chunk
        for k in range(0, len(items), batch_size):
            chunk = items[k:k + batch_size]
            add_batch([l], chunk, mock=(len(batches) % 4 != 3), quiet=(len(batches) % 5 != 4),
                      nested=(len(batches) % 3 == 1), tag="single-language")
    # multi-language projects (one `-l a,b,c` run over a mixed tree)
    n_multi = 3 if not thorough else 30
    for j in range(n_multi):
        ls = rng.sample(langs, min(len(langs), rng.choice([2, 3, 4])))
        srcs = []
        for l in ls:
            pool = originals[l] + mutants[l]
            srcs += rng.sample(pool, min(len(pool), 12 if not thorough else 25))
        rng.shuffle(srcs)
        add_batch(ls, srcs, mock=True, quiet=True, nested=True, tag="multi-language")
    # single-file projects
    n_single = 12 if not thorough else 120
    for j in range(n_single):
        l = rng.choice(langs)
        pool = empties[l] if (j % 6 == 5 and empties[l]) else originals[l] + mutants[l]
        if pool:
            add_batch([l], [rng.choice(pool)], mock=(j % 2 == 0), quiet=True, tag="single-file")
    if thorough:
        # one very large project (> config.MAX_ROWS = 400 000 rows) so that the GIR loader exports more than one
        # bundle mid-run. lian silently analyses only the first 1000 units of a project (loader.get_all_unit_info
        # tests hasattr(options, "benchmark"), which always holds), so the project is made of the 600 largest files.
        # Scheduled first: it is one process.
        l = "python" if "python" in langs else langs[0]
        pool = sorted((s for s in originals[l] + mutants[l] if len(s.data) < 150_000),
                      key=lambda s: -len(s.data))
        add_batch([l], pool[:600], mock=True, quiet=True, nested=True, tag="huge-project")
        batches.insert(0, batches.pop())
    return batches


# ---------------------------------------------------------------------------------------------------
# child side

def relpath_of(unit_path):
    p = str(unit_path)
    for marker, prefix in (("/lian_workspace/src/proj/", ""), ("/lian_workspace/externs/", "extern:"),
                           ("/lian_workspace/src/", "")):
        k = p.find(marker)
        if k >= 0:
            return prefix + p[k + len(marker):]
    return p


def write_project(root, files):
    proj = os.path.join(root, "proj")
    for rel, data in files:
        p = os.path.join(proj, rel)
        os.makedirs(os.path.dirname(p), exist_ok=True)
        with open(p, "wb") as f:
            f.write(data)
    return proj


def bundle_hash(df):
    """Canonical content hash of a GIR bundle (column order and NaN/None spelling do not matter)."""
    import hashlib
    h = hashlib.sha256()
    for r in lianrun.rows_as_dicts(df):
        h.update(json.dumps({k: (float(v) if isinstance(v, (int, float)) and not isinstance(v, bool) else str(v))
                             for k, v in r.items()}, sort_keys=True).encode())
        h.update(b"\n")
    return f"{len(df)}:{h.hexdigest()[:24]}"


def run_cli(job):
    """Forked child that only spawns the true CLI (`python src/lian/main.py lang ...`) in a fresh interpreter."""
    import subprocess
    sc = os.path.join(common.scratch(), f"c03cli_{os.getpid()}")
    os.makedirs(sc, exist_ok=True)
    files = [(rel, s.data if isinstance(s, Src) else s) for rel, s in job["files"]]
    proj = write_project(sc, files)
    st = lianrun.write_settings(os.path.join(sc, "settings"))
    ws = os.path.join(sc, "ws")
    argv = lianrun.lian_argv("lang", ",".join(job["langs"]), [proj], ws, st,
                             ["-q"] + ([] if job.get("mock", True) else ["--nomock"]))
    # /venv carries an editable install of /repo/src; PYTHONPATH makes the tree under test win when LIAN_REPO is a copy
    env = dict(os.environ, PYTHONHASHSEED="0", PYTHONDONTWRITEBYTECODE="1", PYTHONWARNINGS="ignore",
               PYTHONPATH=os.path.join(common.REPO, "src"))
    p = subprocess.run([sys.executable, os.path.join(common.REPO, "src", "lian", "main.py")] + argv[1:],
                       cwd=sc, env=env, stdout=subprocess.PIPE, stderr=subprocess.PIPE, timeout=300)
    err = p.stderr.decode("utf-8", "replace")
    out = {"rc": p.returncode, "traceback": "Traceback (most recent call last)" in err, "stderr_tail": err[-2500:],
           "bundle_hash": None}
    try:
        df = lianrun.read_bundles(lianrun.ws_dir(ws), "frontend", "gir")
        if df is not None:
            out["bundle_hash"] = bundle_hash(df)
    except Exception as e:
        out["bundle_hash"] = f"unreadable: {type(e).__name__}"
    return out


def run_batch(job):
    """Forked child: write the project, run `lian lang` with the recording wrappers, read the bundle, judge."""
    sc = os.path.join(common.scratch(), f"c03_{os.getpid()}")
    os.makedirs(sc, exist_ok=True)
    files = [(rel, s.data if isinstance(s, Src) else s) for rel, s in job["files"]]
    proj = write_project(sc, files)
    st = lianrun.write_settings(os.path.join(sc, "settings"))
    ws = os.path.join(sc, "ws")
    extra = (["-q"] if job.get("quiet", True) else []) + ([] if job.get("mock", True) else ["--nomock"])
    argv = lianrun.lian_argv("lang", ",".join(job["langs"]), [proj], ws, st, extra)
    if job.get("abort_probe"):
        # unwrapped, unmonitored: does the lang phase end normally on this project, and is the GIR of the other
        # file(s) written?
        code = "normal end"
        try:
            lianrun.run_lian(argv)
        except SystemExit as e:
            code = f"SystemExit({e.code!r})"
        bundle = False
        try:
            bundle = lianrun.read_bundles(lianrun.ws_dir(ws), "frontend", "gir") is not None
        except Exception:
            bundle = True
        return {"probe": code, "bundle_written": bundle}
    if not job.get("monitor", True):
        lianrun.run_lian(argv)                 # unwrapped, unmonitored: only the child's fate matters
        return {"unmonitored": True}
    rec = gw.install(gw.Recorder(), contain=job.get("contain", True), repo=common.REPO,
                     keep_rows=(len(files) <= 150))
    lianrun.run_lian(argv)
    w = lianrun.ws_dir(ws)
    read_error = None
    try:
        df = lianrun.read_bundles(w, "frontend", "gir")
    except Exception as e:          # lian swallowed a failed feather write and left a truncated file behind
        df, read_error = None, f"{type(e).__name__}: {e}"[:300]
        read_error_type = type(e).__name__
    ms = lianrun.read_feather(w, "frontend", "module_symbols")
    unit_lang, unit_rel = {}, {}
    if ms is not None:
        for r in lianrun.rows_as_dicts(ms):
            if "unit_id" in r:
                u = int(r["unit_id"])
                unit_lang[u] = str(r.get("lang", "unknown"))
                unit_rel[u] = relpath_of(r.get("unit_path", ""))
    out = {"units": [], "violations": [], "stats": {}, "ops": {}, "body_cols": [], "derived": [], "tbs": {},
           "bundle": "absent", "hooks": (rec.wrapper_calls, rec.parse_gir_calls, rec.flatten_calls),
           "n_bundles": 0, "read_error": read_error,
           "save_errors": [m for p_, m in rec.save_errors if "gir.bundle" in p_][:5]}
    lowered = 0
    for uid in rec.order:
        u = rec.units[uid]
        rel = unit_rel.get(uid) or relpath_of(u.path)
        out["units"].append((rel, u.lang, u.status, u.nrows, u.sig_exc, u.sig_fn, u.where, u.message,
                             bool(u.has_error), u.n_statements, u.contained))
        if u.status == "gir":
            lowered += 1
        if u.status == "crash":
            sig = gw.exception_signature(u.lang, u.sig_exc, u.sig_fn)
            out["tbs"].setdefault(sig, u.tb)
    if df is not None:
        fd = os.path.join(w, "frontend")
        out["n_bundles"] = len([n for n in os.listdir(fd) if n.startswith("gir.bundle")])
        out["bundle"] = "present"
        V = gw.judge(df, rec, unit_lang)
        for v in V.violations[:200]:
            v = dict(v)
            v["rel"] = unit_rel.get(v["unit_id"], "?")
            v["lang"] = unit_lang.get(v["unit_id"], "unknown")
            out["violations"].append(v)
        out["stats"] = V.stats
        out["ops"] = {l: sorted(str(o) for o in s) for l, s in V.ops.items()}
        out["body_cols"] = sorted(V.body_cols)
        out["derived"] = sorted(V.derived_cols)
        in_bundle = set(V.per_unit)
        out["units_in_bundle"] = len(in_bundle)
        out["lost_units"] = [unit_rel.get(uid, "?") for uid in rec.order
                             if rec.units[uid].status == "gir" and uid not in in_bundle]
        out["ordered_units"] = sum(1 for x in V.per_unit.values() if x["groups"] >= 2)
        if job.get("want_hash"):
            out["bundle_hash"] = bundle_hash(df)
    elif lowered:
        out["bundle"] = "unreadable" if read_error else "missing-although-units-were-lowered"
        if job.get("want_hash") and read_error:
            out["bundle_hash"] = f"unreadable: {read_error_type}"      # same spelling as run_cli
        if len(files) > 1 and out["save_errors"]:
            # scheduling hint only (nothing is judged from it): which units put which kind of value into the column
            # lian's feather export choked on, so that the parent can separate them in one step instead of bisecting
            m = re.search(r"column (\w+)", out["save_errors"][0])
            if m:
                col, kinds = m.group(1), {}
                for uid in rec.order:
                    u = rec.units[uid]
                    ts = {type(r.get(col)).__name__ for r in (u.rows or []) if r.get(col) is not None}
                    if ts:
                        kinds[unit_rel.get(uid) or relpath_of(u.path)] = "+".join(sorted(ts))
                out["column_kinds"] = kinds
        if len(files) == 1:
            # attribution only: the bundle of this single file is unreadable, so look at the rows lian handed to
            # its loader (add_unit_gir has stamped unit_id on them) to name the construct behind the write failure
            import pandas as pd
            rows = [r for uid in rec.order for r in (rec.units[uid].rows or [])
                    if not relpath_of(rec.units[uid].path).startswith("extern:")]
            try:
                V = gw.judge(pd.DataFrame(rows), rec, unit_lang)
                out["in_memory_violations"] = [dict(v, rel=unit_rel.get(v["unit_id"], "?"),
                                                    lang=unit_lang.get(v["unit_id"], "unknown"))
                                               for v in V.violations[:50]]
            except Exception as e:
                out["in_memory_violations"] = []
                out["in_memory_error"] = f"{type(e).__name__}: {e}"[:200]
    return out


# ---------------------------------------------------------------------------------------------------
# parent side

def sig_from_traceback_text(lang, exc_type, tb_text):
    src_root = os.path.realpath(os.path.join(common.REPO, "src", "lian"))
    fn = "(outside lian)"
    for m in re.finditer(r'File "([^"]+)", line (\d+), in (\S+)', tb_text or ""):
        if os.path.realpath(m.group(1)).startswith(src_root):
            fn = m.group(3)
    return gw.exception_signature(lang, exc_type, fn)


def encode_files(files):
    out = []
    for rel, s in files:
        data = s.data if isinstance(s, Src) else s
        ent = {"path": rel, "b64": base64.b64encode(data).decode("ascii")}
        try:
            t = data.decode("utf-8")
            if len(t) < 4000:
                ent["text"] = t       # for the human reader only; b64 is authoritative
        except UnicodeDecodeError:
            pass
        if isinstance(s, Src):
            ent["kind"], ent["origin"] = s.kind, s.origin
            if s.edits:
                ent["edits"] = s.edits
        out.append(ent)
    return out


def decode_files(ents):
    return [(e["path"], base64.b64decode(e["b64"])) for e in ents]


def make_case(job, files, kind):
    return {"kind": kind, "langs": job["langs"], "mock": job.get("mock", True), "quiet": job.get("quiet", True),
            "files": encode_files(files)}


class Driver:
    def __init__(self, chk):
        self.chk = chk
        self.thorough = chk.tier == "thorough"
        self.timeout = 120.0 if not self.thorough else 900.0
        self.crashes = {}       # sig -> {"n":, "witnesses": [(size, job, rel, src)], "tb":, "where", "message"}
        self.aborts = {}        # lang-phase-aborted:* -> same shape (SystemExit raised while one file is lowered)
        self.contained = {}     # contained:<lang>:<Exc>@<fn> -> count (evidence only)
        self.hand_without_gir = []
        self.sibling = {}       # lang -> a small hand-written program that lowers fine
        for l in LANG_EXT:
            small = [x for x in c03_programs.PROGRAMS.get(l, []) if "small" in x[0].lower()]
            if small:
                self.sibling[l] = Src(l, small[0][0], small[0][1].encode("utf-8"), "handwritten",
                                      "c03_programs:" + small[0][0])
        self.struct = {}        # sig -> {"n":, "witnesses": [(job, v)]}
        self.ops = {}
        self.body_cols = set()
        self.derived = set()
        self.slow_files = 0
        self.total_files = 0
        self.lost_units = []
        self.missing_bundles = []

    # ---- phase 1: run all batches, bisect dying ones ----------------------------------------------------
    def run_all(self, batches):
        chk = self.chk
        queue = list(batches)
        rounds = 0
        while queue and rounds < 12:
            rounds += 1
            nxt = []
            for r in forkpool.run_jobs(run_batch, queue, timeout=self.timeout, tag=f"c03r{rounds}"):
                job = r.item
                if r.status == "ok" and r.value["bundle"] in ("unreadable", "missing-although-units-were-lowered"):
                    # lian lowered units but left no readable bundle (a swallowed feather write failure):
                    # nothing of this project can be judged as a whole; narrow down to the file(s) behind it
                    chk.count("projects whose units were lowered but whose gir bundle is missing/unreadable")
                    chk.count(f"unreadable-bundle projects [{'+'.join(job['langs'])}]")
                    for m in r.value["save_errors"][:1]:
                        col = re.search(r"column (\w+)", m)
                        chk.count(f"swallowed gir bundle write failures on column "
                                  f"'{col.group(1) if col else '?'}'")
                    if len(job["files"]) > 1:
                        self.split(job, nxt, r.value.get("column_kinds"))
                    else:
                        self.single_file_unwritable(job, r.value)
                    continue
                if r.status == "ok":
                    self.absorb(job, r.value)
                    continue
                if len(job["files"]) > 1:
                    chk.count(f"batches that ended with status '{r.status}' and were bisected")
                    self.split(job, nxt)
                    continue
                self.single_file_death(job, r)
            queue = nxt
        if queue:
            chk.note_inconclusive(f"{len(queue)} sub-batches still pending after 12 bisection rounds")

    @staticmethod
    def split(job, nxt, column_kinds=None):
        files = job["files"]
        langs = sorted({s.lang for _, s in files if isinstance(s, Src)})
        parts = None
        if column_kinds:
            # units that store a string in the offending column / units that store something else / the rest
            a = [f for f in files if "str" in column_kinds.get(f[0], "")]
            b = [f for f in files if "str" not in column_kinds.get(f[0], "")]
            if a and b:
                mixed = [f for f in a if column_kinds.get(f[0]) != "str"]
                pure = [f for f in a if column_kinds.get(f[0]) == "str"]
                parts = [pure, b] + [[f] for f in mixed]
        if parts is not None:
            pass
        elif len(langs) > 1:
            parts = [[f for f in files if isinstance(f[1], Src) and f[1].lang == l] for l in langs]
            parts.append([f for f in files if not isinstance(f[1], Src)])
        else:
            half = len(files) // 2
            parts = [files[:half], files[half:]]
        for part in parts:
            if part:
                j = dict(job)
                j["files"] = part
                present = sorted({f[1].lang for f in part if isinstance(f[1], Src) and f[1].lang in LANG_EXT})
                if len(langs) > 1 and present:
                    j["langs"] = present
                nxt.append(j)

    def single_file_unwritable(self, job, v):
        """One file alone makes lian's own feather write of the GIR bundle fail (mixed value types in a column)."""
        rel, s = job["files"][0]
        lang = s.lang if isinstance(s, Src) else job["langs"][0]
        msg = (v["save_errors"] or [v.get("read_error") or "?"])[0]
        col = re.search(r"column (\w+)", msg)
        col = col.group(1) if col else "?"
        self.chk.count("single files whose own gir bundle is unreadable (swallowed feather write failure)")
        tail = (f" — and the GIR of this single file cannot be read back at all: lian's feather export fails "
                f"({msg[:160]}), the failure is swallowed and a truncated gir.bundle0 is left behind")
        # the construct behind it, named from the rows lian handed to its loader
        explained = [x for x in v.get("in_memory_violations", [])
                     if x["inv"] == "I5" and x["construct"].endswith("." + col)]
        if explained:
            for x in explained[:1]:
                sig = f"{x['inv']}:{x['lang']}:{x['construct']}"
                ent = self.struct.setdefault(sig, {"n": 0, "witnesses": []})
                ent["n"] += 1
                if len(ent["witnesses"]) < 6:
                    ent["witnesses"].append((job, dict(x, detail=x["detail"] + tail, fixed_sig=sig)))
            return
        # Not explained by a body-valued attribute: scalar values of different types share a column (e.g. a C
        # call_stmt with name = 0 next to string names). Nothing readable is emitted for the file, which the statement
        # of C03 allows; that the failed write is swallowed and leaves a truncated file is loader behaviour (C15).
        # Recorded as evidence with the witness, not judged here.
        self.chk.count("single files whose unreadable bundle is due to mixed scalar types in one column "
                       "(evidence only, not judged by C03)")
        lst = self.chk.extra.setdefault("unreadable_single_file_bundles", [])
        if len(lst) < 10:
            data = s.data if isinstance(s, Src) else s
            lst.append({"lang": lang, "column": col, "file": rel, "error": msg[:200],
                        "origin": getattr(s, "origin", None), "edits": getattr(s, "edits", None),
                        "text": data[:800].decode("utf-8", "replace")})

    def single_file_death(self, job, r):
        """A project of one file whose monitored run did not come back with a result."""
        chk = self.chk
        rel, s = job["files"][0]
        lang = s.lang if isinstance(s, Src) else (job["langs"][0] if len(job["langs"]) == 1 else "mixed")
        if r.status == "timeout":
            self.slow_files += 1
            chk.count("files whose lowering exceeded the watchdog (not judged)")
            return
        if r.status == "exit":
            chk.count("single-file projects whose lang run ended by SystemExit outside the per-file entry")
            sig = f"lang-phase-aborted:{lang}:(outside the per-file entry)"
            ent = self.aborts.setdefault(sig, {"n": 0, "witnesses": [], "where": "?", "message": repr(r.value)})
            ent["n"] += 1
            ent["witnesses"].append((len(s.data if isinstance(s, Src) else s), job, rel, s))
            return
        if r.status == "lost":
            chk.note_inconclusive(f"child vanished without a result on {rel}: {r.log_text(300)}")
            return
        if r.status == "signal":
            sig = f"crash:{lang}:signal{r.value}"
            ent = self.crashes.setdefault(sig, {"n": 0, "witnesses": [], "tb": r.log_text(3000), "where": "native",
                                                "message": f"child killed by signal {r.value}"})
        else:
            et, msg, tb = r.value
            sig = sig_from_traceback_text(lang, et, tb)
            ent = self.crashes.setdefault(sig, {"n": 0, "witnesses": [], "tb": tb[-2500:], "where": "batch level",
                                                "message": msg[:300]})
        ent["n"] += 1
        ent["witnesses"].append((len(s.data if isinstance(s, Src) else s), job, rel, s))

    def absorb(self, job, v):
        chk = self.chk
        by_rel = dict(job["files"])
        chk.evaluated(len(v["units"]))
        chk.count("lang runs (projects) completed and judged")
        chk.count(f"projects: {job.get('tag', 'other')}")
        if v["hooks"][0] == 0:
            chk.note_inconclusive("the deal_with_file_unit wrapper was never called in a completed run")
        chk.count("wrapper calls: GIRParser.deal_with_file_unit", v["hooks"][0])
        chk.count("wrapper calls: Parser.parse_gir", v["hooks"][1])
        chk.count("wrapper calls: GIRProcessing.flatten", v["hooks"][2])
        emitting = sum(1 for u in v["units"] if u[2] == "gir" and not u[0].startswith("extern:"))
        zero_here = 0
        for (rel, lang, status, nrows, exc, fn, where, message, has_err, n_stmts, contained) in v["units"]:
            s = by_rel.get(rel)
            kind = s.kind if isinstance(s, Src) else ("extern" if rel.startswith("extern:") else "other")
            if n_stmts == 0 and status == "nogir":
                zero_here += 1
                chk.count("files that parsed but lowered to zero statements (no GIR, project undisturbed)")
                chk.count(f"files that lowered to zero statements [{lang}]")
            if contained is not None:
                chk.count("files whose translation failure lian itself contained (no GIR for that file, allowed)")
                key = "contained" + gw.exception_signature(lang, contained[0], contained[1])[len("crash"):]
                self.contained[key] = self.contained.get(key, 0) + 1
                if kind == "handwritten" and len(self.hand_without_gir) < 40:
                    self.hand_without_gir.append({"file": getattr(s, "origin", rel), "why": f"{key} ({contained[2]}: "
                                                                                            f"{contained[3][:80]})"})
            self.total_files += 1
            chk.count(f"files[{lang}]")
            chk.count(f"files of kind {kind}")
            chk.count(f"files that ended as '{status}'")
            if status == "gir":
                chk.count(f"files that emitted GIR [{lang}]")
                chk.count(f"files of kind {kind} that emitted GIR")
                if has_err:
                    chk.count("files with syntax errors (ERROR/MISSING nodes) that still emitted GIR")
                if kind == "mutant":
                    chk.nontrivial_case(("mutant-gir", lang, rel, job["id"]))
            if status == "crash":
                sig = gw.exception_signature(lang, exc, fn)
                ent = self.crashes.setdefault(sig, {"n": 0, "witnesses": [], "tb": v["tbs"].get(sig), "where": where,
                                                    "message": message})
                ent["n"] += 1
                if s is not None and len(ent["witnesses"]) < 40:
                    ent["witnesses"].append((len(s.data), job, rel, s))
            elif status == "quit":
                # a SystemExit raised while ONE file is lowered ends the whole lang phase: no GIR for any file
                chk.count("files on which the per-file entry raised SystemExit (candidate phase abort)")
                sig = f"lang-phase-aborted:{lang}:{fn}"
                ent = self.aborts.setdefault(sig, {"n": 0, "witnesses": [], "where": where, "message": message})
                ent["n"] += 1
                if s is not None and len(ent["witnesses"]) < 40:
                    ent["witnesses"].append((len(s.data), job, rel, s))
        if zero_here and emitting:
            chk.count("projects in which statement-less files sat next to GIR-emitting files and the phase ended "
                      "normally")
        for k, n in v["stats"].items():
            chk.count(k, n)
        for l, ops in v["ops"].items():
            self.ops.setdefault(l, set()).update(ops)
        self.body_cols.update(v["body_cols"])
        self.derived.update(v["derived"])
        if v["bundle"] == "present":
            chk.count("units found in the bundles", v.get("units_in_bundle", 0))
            chk.count("units with >= 2 distinct top-level groups in %unit_init (order decided non-trivially)",
                      v.get("ordered_units", 0))
            if v["n_bundles"] > 1:
                chk.count("projects whose GIR was exported in more than one bundle")
            for rel in v.get("lost_units", []):
                self.lost_units.append((job["id"], rel))
        elif v["bundle"].startswith("missing"):
            chk.count("projects whose units were lowered but no gir bundle was written")
            self.missing_bundles.append(job)
        for viol in v["violations"]:
            sig = f"{viol['inv']}:{viol['lang']}:{viol['construct']}"
            ent = self.struct.setdefault(sig, {"n": 0, "witnesses": []})
            ent["n"] += 1
            if len(ent["witnesses"]) < 6:
                ent["witnesses"].append((job, viol))

    # ---- phase 2: confirm crashes with unwrapped runs ---------------------------------------------------
    def confirm_crashes(self):
        chk = self.chk
        jobs = []
        for sig, ent in sorted(self.crashes.items()):
            ent["witnesses"].sort(key=lambda w: (w[0], w[2]))
            for (size, job, rel, s) in ent["witnesses"][:2]:
                lang = s.lang if isinstance(s, Src) else job["langs"][0]
                j = {"id": -1, "langs": [lang] if lang in LANG_EXT else job["langs"], "files": [(rel, s)],
                     "mock": job.get("mock", True), "quiet": True, "monitor": False, "sig": sig, "src_job": job}
                jobs.append(j)
        chk.count("distinct crash signatures seen under the per-file wrapper", len(self.crashes))
        confirmed = {}
        for r in forkpool.run_jobs(run_batch, jobs, timeout=self.timeout, tag="c03confirm"):
            j = r.item
            sig = j["sig"]
            chk.count("unwrapped confirmation runs")
            if r.status == "exception":
                et, msg, tb = r.value
                sig2 = sig_from_traceback_text(sig.split(":")[1], et, tb)
                if sig2 == sig:
                    confirmed.setdefault(sig, []).append((j, f"{et}: {msg[:200]}", tb[-1800:]))
                else:
                    chk.count("confirmation runs that died with a different signature")
                    confirmed.setdefault(sig2, []).append((j, f"{et}: {msg[:200]}", tb[-1800:]))
            elif r.status == "signal":
                confirmed.setdefault(sig, []).append((j, f"killed by signal {r.value}", r.log_text(1800)))
            elif r.status == "timeout":
                chk.count("confirmation runs that exceeded the watchdog")
            else:
                chk.count(f"crash witnesses NOT reproduced by the unwrapped run (status {r.status})")
        for sig, lst in sorted(confirmed.items()):
            n = self.crashes.get(sig, {}).get("n", len(lst))
            for (j, msg, tb) in lst:
                rel, s = j["files"][0]
                desc = (f"the lang phase dies with an unhandled {msg} while lowering one file "
                        f"({n} file(s) with this signature in this run; innermost lian frame "
                        f"{self.crashes.get(sig, {}).get('where')})")
                case = make_case(j, j["files"], "crash")
                case["traceback_tail"] = tb
                chk.fail(sig, desc, case)
        chk.count("distinct crash signatures confirmed by an unwrapped run", len(confirmed))
        self.confirmed = confirmed

    # ---- phase 2a: SystemExit while one file is lowered: does it take the other files' GIR with it? ------
    def confirm_aborts(self):
        """Each distinct signature is re-observed on a two-file project {witness, a small program that lowers fine}
        run unwrapped and unmonitored: the phase must end normally and write the sibling's GIR.  It is a violation
        when the run ends by SystemExit (the per-file containment only catches Exception) — one file must never
        take the other files' GIR with it."""
        chk = self.chk
        chk.count("distinct phase-abort signatures seen under the per-file wrapper", len(self.aborts))
        jobs = []
        for sig, ent in sorted(self.aborts.items()):
            ent["witnesses"].sort(key=lambda w: (w[0], w[2]))
            for (size, job, rel, s) in ent["witnesses"][:2]:
                lang = s.lang if isinstance(s, Src) and s.lang in LANG_EXT else job["langs"][0]
                sib = self.sibling.get(lang)
                files = [(rel, s)] + ([("sibling_" + sib.name, sib)] if sib is not None else [])
                jobs.append({"id": -3, "langs": [lang], "files": files, "mock": False, "quiet": True,
                             "abort_probe": True, "sig": sig})
        for r in forkpool.run_jobs(run_batch, jobs, timeout=self.timeout, tag="c03abort"):
            chk.count("unwrapped phase-abort probes (witness + sibling project)")
            j, sig = r.item, r.item["sig"]
            if r.status != "ok":
                chk.count(f"phase-abort probes that did not complete ({r.status})")
                continue
            v = r.value
            if v["probe"] == "normal end":
                chk.count("phase-abort candidates NOT reproduced by the unwrapped probe")
                continue
            ent = self.aborts[sig]
            desc = (f"lowering one file ends the whole lang phase with {v['probe']} (raised in {ent['where']}: "
                    f"{ent['message']}): the per-file containment does not apply and "
                    + ("NO gir bundle is written for the other file of the project either"
                       if not v["bundle_written"] else "the phase stops early")
                    + f" [{ent['n']} file(s) with this signature in this run]")
            case = make_case(j, j["files"], "abort")
            chk.fail(sig, desc, case)
            chk.count("phase-abort signatures confirmed by the unwrapped probe")

    # ---- phase 2b: the same crash witnesses through the true CLI in a fresh interpreter ------------------
    def cli_confirm(self, limit):
        chk = self.chk
        jobs = []
        for sig, lst in sorted(getattr(self, "confirmed", {}).items())[:limit]:
            j = dict(lst[0][0])
            j["sig"] = sig
            jobs.append(j)
        for r in forkpool.run_jobs(run_cli, jobs, timeout=330, tag="c03cli"):
            if r.status != "ok":
                chk.count(f"true CLI confirmation runs that did not complete ({r.status})")
                continue
            chk.count("crash signatures re-run through the true CLI")
            v = r.value
            if v["traceback"] and v["rc"] != 0:
                lang = r.item["sig"].split(":")[1]
                m = re.findall(r"^(\w+(?:\.\w+)*(?:Error|Exception|Exit|Interrupt)\w*)", v["stderr_tail"], re.M)
                et = m[-1].split(".")[-1] if m else "?"
                if sig_from_traceback_text(lang, et, v["stderr_tail"]) == r.item["sig"]:
                    chk.count("crash signatures reproduced by the true CLI (non-zero exit + same traceback signature)")
                else:
                    chk.count("true CLI died with a traceback of a different signature")
            else:
                chk.note_inconclusive(f"harness: {r.item['sig']} kills the forked unwrapped run but the true CLI "
                                      f"exited {v['rc']} without a traceback")

    # ---- phase 4: a few projects through the true CLI; the bundle must equal the forked, monitored run's ---
    def cli_crosscheck(self, batches, k):
        chk = self.chk
        # single-file projects without the extern mocks: unit ids do not depend on directory listing order
        picks = [b for b in batches if len(b["files"]) == 1][:k]
        jobs_a, jobs_b = [], []
        for n, b in enumerate(picks):
            j = dict(b, mock=False, quiet=True, want_hash=True, key=n)
            jobs_a.append(j)
            jobs_b.append(dict(j))
        got = {}
        for r in forkpool.run_jobs(run_batch, jobs_a, timeout=self.timeout, tag="c03xa"):
            if r.status == "ok":
                got.setdefault(r.item["key"], {})["fork"] = r.value.get("bundle_hash")
        for r in forkpool.run_jobs(run_cli, jobs_b, timeout=330, tag="c03xb"):
            if r.status == "ok":
                got.setdefault(r.item["key"], {})["cli"] = (r.value["bundle_hash"], r.value["rc"],
                                                             r.value["traceback"])
        for n, d in sorted(got.items()):
            if "fork" not in d or "cli" not in d:
                continue
            h, rc, tb = d["cli"]
            if tb:
                chk.count("cross-check projects on which the true CLI died with a traceback (judged by the crash path)")
                continue
            chk.count("projects run through both the forked monitored run and the true CLI")
            if h == d["fork"]:
                chk.count("true CLI bundle identical to the forked monitored run's bundle")
            else:
                chk.note_inconclusive(f"harness: forked monitored run and true CLI disagree on the bundle of "
                                      f"{picks[n]['files'][0][0]}: {d['fork']} vs {h}")

    # ---- phase 3: minimise structure violations to single-file projects when possible -------------------
    def settle_structure(self):
        chk = self.chk
        jobs = []
        for sig, ent in sorted(self.struct.items()):
            for (job, viol) in ent["witnesses"][:2]:
                rel = viol["rel"]
                s = dict(job["files"]).get(rel)
                if s is None or len(job["files"]) == 1 or viol.get("fixed_sig"):
                    continue
                jobs.append({"id": -2, "langs": job["langs"], "files": [(rel, s)], "mock": job.get("mock", True),
                             "quiet": True, "sig": sig})
        alone = {}
        for r in forkpool.run_jobs(run_batch, jobs, timeout=self.timeout, tag="c03min"):
            if r.status != "ok":
                continue
            for viol in r.value["violations"]:
                sig = f"{viol['inv']}:{viol['lang']}:{viol['construct']}"
                if sig == r.item["sig"] and sig not in alone:
                    alone[sig] = (r.item, viol)
        for sig, ent in sorted(self.struct.items()):
            if sig in alone:
                job, viol = alone[sig]
                files = job["files"]
            else:
                job, viol = ent["witnesses"][0]
                files = job["files"]
            desc = f"{viol['detail']} [file {viol['rel']}; {ent['n']} occurrence(s) in this run]"
            chk.fail(sig, desc, make_case(job, files, "structure"))


def replay(chk, path):
    with open(path) as f:
        case = json.load(f)["case"]
    files = decode_files(case["files"])
    job = {"id": 0, "langs": case["langs"], "files": files, "mock": case.get("mock", True),
           "quiet": case.get("quiet", True), "tag": "replay"}
    d = Driver(chk)
    # language attribution for raw byte files
    ext_lang = {e: l for l, es in LANG_EXT.items() for e in es}
    job["files"] = [(rel, Src(ext_lang.get(os.path.splitext(rel)[1].lower(), "unknown"), os.path.basename(rel),
                              data, "replay", "replay")) for rel, data in files]
    d.run_all([job])
    d.confirm_crashes()
    d.confirm_aborts()
    d.settle_structure()
    chk.nontrivial_case("replay")
    chk.nontrivial_case("replay-2")
    chk.sample({"replayed": path, "files": [rel for rel, _ in files], "langs": case["langs"]})


def main():
    lianrun.prepare_zygote(warm=False)
    chk = common.Check(PROP, rule=(
        "real `lian lang` runs over projects of corpus files, hand-written programs and seeded byte-level mutants "
        "(1-8 edits) in every language whose grammar is present; the bundle is read back and I1-I6 are evaluated on "
        "every row; exceptions are attributed per file by a wrapper around GIRParser.deal_with_file_unit and each "
        "distinct signature is confirmed by an unwrapped run. evaluations = files handed to the lang phase; "
        "distinct_nontrivial = distinct mutated files that still emitted GIR (the structure checker had something "
        "hostile to judge)"))
    chk.max_samples = 8
    if os.environ.get("VERIF_REPLAY"):
        replay(chk, os.environ["VERIF_REPLAY"])
        sys.exit(chk.finish())
    rng = random.Random(chk.seed * 7919 + 17)
    langs = available_languages()
    chk.extra["languages"] = langs
    batches = build_batches(chk, langs, rng)
    chk.count("projects generated", len(batches))
    d = Driver(chk)
    import time
    phases = {}
    for name, fn in (("run_all", lambda: d.run_all(batches)), ("confirm_crashes", d.confirm_crashes),
                     ("confirm_aborts", d.confirm_aborts),
                     ("cli_confirm", lambda: d.cli_confirm(6 if chk.tier == "quick" else 40)),
                     ("settle_structure", d.settle_structure),
                     ("cli_crosscheck", lambda: d.cli_crosscheck(batches, 6 if chk.tier == "quick" else 24))):
        t = time.time()
        fn()
        phases[name] = round(time.time() - t, 1)
    chk.extra["phase_wall_s"] = phases
    # ---- evidence ---------------------------------------------------------------------------------------
    chk.extra["distinct_operations_seen"] = {l: sorted(o) for l, o in sorted(d.ops.items())}
    chk.extra["distinct_operations_total"] = len(set().union(*d.ops.values())) if d.ops else 0
    chk.extra["body_valued_attributes_seen"] = sorted(d.body_cols)
    chk.extra["body_columns_derived_from_data"] = sorted(d.derived)
    chk.extra["crash_signatures_under_wrapper"] = {s: e["n"] for s, e in sorted(d.crashes.items())}
    chk.extra["units_lowered_but_absent_from_bundle"] = d.lost_units[:20]
    chk.extra["translation_failures_contained_by_lian"] = dict(sorted(d.contained.items()))
    chk.extra["handwritten_files_without_gir"] = d.hand_without_gir
    chk.count("distinct operations seen", chk.extra["distinct_operations_total"])
    chk.count("distinct (operation.attribute) body references seen", len(d.body_cols))
    for b in batches[:3]:
        rel, s = b["files"][0]
        chk.sample({"project": b["tag"], "langs": b["langs"], "n_files": len(b["files"]), "first_file": rel,
                    "kind": s.kind, "origin": s.origin, "edits": s.edits,
                    "head": s.data[:160].decode("utf-8", "replace")})
    for s_ in [s for b in batches for _, s in b["files"] if s.kind == "mutant"][:3]:
        chk.sample({"mutant_of": s_.origin, "edits": s_.edits, "head": s_.data[:200].decode("utf-8", "replace")})
    if d.slow_files:
        if d.slow_files * 100 > max(1, d.total_files):
            chk.note_inconclusive(f"{d.slow_files} files exceeded the watchdog and were not judged")
    thorough = chk.tier == "thorough"
    chk.require("rows checked", 60_000 if not thorough else 2_000_000)
    chk.require("blocks checked", 8_000 if not thorough else 250_000)
    chk.require("I4 parent links checked", 60_000 if not thorough else 2_000_000)
    chk.require("I5 body-valued attributes checked", 8_000 if not thorough else 250_000)
    chk.require("I6 source-order comparisons", 2_000 if not thorough else 60_000)
    chk.require("I6 flatten-vs-bundle id multisets compared", 500 if not thorough else 15_000)
    chk.require("I2 unit id ranges compared", 400 if not thorough else 12_000)
    chk.require("units with a %unit_init", 300 if not thorough else 9_000)
    chk.require("files of kind mutant that emitted GIR", 300 if not thorough else 12_000)
    chk.require("distinct operations seen", 60)
    chk.require("files that parsed but lowered to zero statements (no GIR, project undisturbed)",
                120 if not thorough else 1200)
    chk.require("projects in which statement-less files sat next to GIR-emitting files and the phase ended normally",
                40 if not thorough else 300)
    for l in langs:
        chk.require(f"files that lowered to zero statements [{l}]", 4 if not thorough else 30)
    if thorough:
        chk.require("projects whose GIR was exported in more than one bundle", 1)
    chk.require("true CLI bundle identical to the forked monitored run's bundle", 3 if not thorough else 12)
    for l in langs:
        chk.require(f"files that emitted GIR [{l}]", 15 if not thorough else 300)
    chk.assumptions += [
        "--strict-parse-mode is excluded (sys.exit on ERROR nodes is documented there)",
        "a SystemExit (util.error_and_quit) raised while ONE file is lowered is not an unhandled exception, but it "
        "ends the lang phase for the whole project: it is reported as lang-phase-aborted:<lang>:<function> once an "
        "unwrapped run of {that file + a small program that lowers fine} also ends by SystemExit; a SystemExit on "
        "project-level conditions (no input file at all) is not produced by this workload",
        "every project (except the single-file ones) contains files that parse but lower to zero statements "
        "(comment/licence only, prototype-only header, template without code, source cut inside its header comment)",
        "inputs come from /repo's corpora, lib/c03_programs.py and lib/mutate.py; languages without a grammar "
        "library (cpp, csharp) are skipped",
        "the per-file wrapper changes nothing but the fate of an exception; every crash signature is re-observed "
        "without any wrapper before it is reported",
    ]
    sys.exit(chk.finish())


if __name__ == "__main__":
    main()
