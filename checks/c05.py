"""C05 — names are bound to the declaration selected by the language's lexical scoping.

Workload: G-bind programs (lib/gen_bind.py): Python and JavaScript single-file programs, multi-file Python projects, and small
hand-written shadowing templates for Java, Go, C, PHP, TypeScript. Every declaration carries a unique constant and every read is
printed, so CPython / node reveal per executed occurrence which declaration the language bound it to; Python's symtable module is a
second, independent oracle (a disagreement between the two is a harness fault, never a lian violation). lian's answer is the
symbol_id recorded in semantic_p1/s2space_p1.bundle* for that (statement, name), compared with the stmt ids of the GIR declaration
rows of the scope (or file) the runtime selected; a read that raises NameError/ReferenceError must come out unresolved (negative id).
Second clause: an alpha-renamed twin (one declaration + exactly the occurrences bound to it, per the oracle; behaviour re-checked
under the runtime / javac / gcc / node) must give the same P1 binding tables up to that name; for Java/Go/C/PHP/TypeScript this
relation is the only oracle.

A failing occurrence gets a mechanism signature `<language>:<use-site>-><expected declaration>:bound-to-<what lian chose>`; for the
root causes found on the pinned tree the components that do not matter for the cause are written `*` (py_signature, js_signature,
proj_signature), so that one defect is one signature and everything else of the same program is still judged on its own."""
import json
import os
import random
import sys

from lib import common, forkpool, lianrun

PROP = "C05"
PY_BATCH = 10
JS_BATCH = 10
JUDGED = "occurrences judged (executed reads, call sites, assignment/declaration targets, global/nonlocal and function-local import statements)"
UNRES = "reads with no visible declaration judged (NameError/ReferenceError at run time)"


# =====================================================================================================================
# lian side
# =====================================================================================================================
def run_p1(files, lang, tag, root_name="proj"):
    """files: {relative path: text}. One real lang+P1 run over the directory. -> (views by relative path, s2 by path, unit ids)"""
    import pandas as pd
    from lib.monitors import binding as B
    sc = common.scratch()
    src = os.path.join(sc, f"c05src_{tag}", root_name)
    for n, t in files.items():
        p = os.path.join(src, n)
        os.makedirs(os.path.dirname(p), exist_ok=True)
        with open(p, "w") as f:
            f.write(t)
    st = lianrun.write_settings(os.path.join(sc, f"c05st_{tag}"))
    ws = os.path.join(sc, f"c05ws_{tag}")
    lianrun.run_lian(lianrun.lian_argv("semantic", lang, [src], ws, st, ["-q"]), stage="p1")
    wsd = lianrun.ws_dir(ws)
    gir = lianrun.read_bundles(wsd, "frontend", "gir")
    s2 = lianrun.read_bundles(wsd, "semantic_p1", "s2space_p1")
    ms = lianrun.rows_as_dicts(pd.read_feather(os.path.join(wsd, "frontend", "module_symbols")))
    prefix = os.path.join(wsd, "src", root_name) + os.sep
    unit_of, module_of = {}, {}
    for r in ms:
        if r.get("is_extern"):
            continue
        up = r.get("unit_path") or ""
        rel = up[len(prefix):] if up.startswith(prefix) else None
        if rel is None:
            continue
        if r.get("unit_id") is not None:
            unit_of[rel] = int(r["unit_id"])
        else:
            module_of[rel] = int(r["module_id"])
    rows_by_unit = {}
    for r in (lianrun.rows_as_dicts(gir) if gir is not None else []):
        rows_by_unit.setdefault(int(r.get("unit_id", -1)), []).append(r)
    views = {rel: B.UnitView(rows_by_unit.get(u, [])) for rel, u in unit_of.items()}
    stmt_unit = {}
    for rel, v in views.items():
        for sid in v.by_id:
            stmt_unit[sid] = rel
    s2rows = {}
    if s2 is not None:
        s2 = s2[[c for c in ("method_id", "stmt_id", "symbol_or_state", "name", "symbol_id", "source_unit_id") if c in s2.columns]]
    for r in (lianrun.rows_as_dicts(s2) if s2 is not None else []):
        rel = stmt_unit.get(int(r.get("stmt_id", -1)))
        if rel is not None:
            s2rows.setdefault(rel, []).append(r)
    s2v = {rel: B.S2(s2rows.get(rel, [])) for rel in views}
    return views, s2v, s2rows, unit_of, module_of


# =====================================================================================================================
# rename-pair comparison (second clause)
# =====================================================================================================================
def compare_twins(lang, vA, rowsA, vB, rowsB, renamed_lines, old, new, renamed_fields=(), skip_stmts=(), cross=None, strip="",
                  qualify=None, prefix="rename"):
    """Position-wise comparison of the P1 symbol tables of a program and its alpha-renamed twin.
    renamed_lines: {0-based line} of the renamed occurrences (one occurrence of a name per line); renamed_fields: field names of
    class-body reads `uN = name` (their GIR rows carry the class statement's line); skip_stmts: statements of occurrences that
    already failed the first clause (reported there; a misbinding to a same-named declaration necessarily changes under renaming).
    -> (signature|None, text, nrows)"""
    from lib.monitors import binding as B
    ra = [r for r in vA.rows if r.get("operation") != "block_end"]
    rb = [r for r in vB.rows if r.get("operation") != "block_end"]
    if len(ra) != len(rb) or any(x.get("operation") != y.get("operation") for x, y in zip(ra, rb)):
        import collections
        ca = collections.Counter(x.get("operation") for x in ra)
        cb = collections.Counter(x.get("operation") for x in rb)
        diff = {k: cb.get(k, 0) - ca.get(k, 0) for k in set(ca) | set(cb) if ca.get(k, 0) != cb.get(k, 0)}
        only = "(variable_decl-rows-appear-or-vanish)" if set(diff) == {"variable_decl"} else ""
        return (f"{prefix}:{lang}:gir-shape{only}",
                f"renaming {old}->{new} changes the shape of the GIR itself ({len(ra)} vs {len(rb)} rows; row count differences {diff})", 0)
    posA = {int(r["stmt_id"]): i for i, r in enumerate(ra)}
    posB = {int(r["stmt_id"]): i for i, r in enumerate(rb)}

    def table(rows, pos, view):
        out = []
        for r in rows:
            if B._int(r.get("symbol_or_state")) != 0 or not isinstance(r.get("name"), str):
                continue
            sid = B._int(r.get("stmt_id"))
            sym = B._int(r.get("symbol_id"))
            if sym in pos and sym in view.by_id:
                # a declaration is identified by where it lives (position of its enclosing block), what it is and the declared name:
                # robust against a different order of hoisted rows, and two rows declaring one name in one block are one declaration
                dr = view.by_id[sym]
                blk = view.norm_block(sym)
                dn = B.UnitView.decl_name(dr)
                if strip and isinstance(dn, str) and dn.startswith(strip):
                    dn = dn[len(strip):]
                tgt = ("decl", pos.get(blk, 0) if blk else 0, dr.get("operation"), old if dn == new else dn)
            elif sym is None or sym < 0:
                tgt = ("unresolved",)
            else:
                tgt = ("other", 0)
                allv = cross[0 if view is vA else 1] if cross else {}
                for rel, v2 in allv.items():
                    if sym in v2.by_id:      # a declaration in another file of the project: file, operation, declared name
                        dn = B.UnitView.decl_name(v2.by_id[sym])
                        tgt = ("decl-in", rel, v2.by_id[sym].get("operation"), old if dn == new else dn)
            row = view.by_id.get(sid, {})
            line = row.get("start_row")
            ren = (line is not None and int(line) in renamed_lines and row.get("operation") != "field_write") or \
                (row.get("operation") == "field_write" and row.get("field") in renamed_fields)
            nm_ = r["name"][len(strip):] if strip and r["name"].startswith(strip) else r["name"]
            out.append((pos.get(sid), nm_, tgt, None if line is None else int(line), ren, sid in skip_stmts, sid))
        return out
    ta, tb = table(rowsA, posA, vA), table(rowsB, posB, vB)
    if len(ta) != len(tb):
        return f"{prefix}:{lang}:s2space-row-count", f"{len(ta)} symbol rows before, {len(tb)} after renaming {old}->{new}", len(ta)
    for x, y in zip(ta, tb):
        if x[0] != y[0]:
            return f"{prefix}:{lang}:s2space-row-order", f"symbol rows are attached to different statements after renaming {old}->{new}: {x} vs {y}", len(ta)
        if x[5]:
            continue
        want = new if (x[1] == old and x[4]) else x[1]
        if y[1] != want:
            return f"{prefix}:{lang}:s2space-symbol-name", f"after renaming {old}->{new} the symbol at statement #{x[0]} is called {y[1]!r}, expected {want!r}", len(ta)
        if x[2] != y[2]:
            kind = lambda t: t[2] if t[0] in ("decl", "decl-in") else t[0]
            q_ = qualify(x[6]) if qualify else ""       # (a cause qualifier computed from where the statement sits, not a skip)
            return ((f"{prefix}:{lang}:s2space-symbol_id{q_}" if q_ else f"{prefix}:{lang}:s2space-symbol_id({kind(x[2])}->{kind(y[2])})"),
                    f"renaming {old}->{new} changed the binding of {x[1]!r} at statement #{x[0]} (line {x[3]}): {x[2]} -> {y[2]}", len(ta))
    return None, "", len(ta)


# =====================================================================================================================
# Python, single file
# =====================================================================================================================
def py_prepare(seed):
    """Generate + both oracles. -> program dict or None (discarded) ; harness faults are recorded in prog['faults']."""
    from lib import gen_bind
    from lib.monitors import binding as B
    text, meta = gen_bind.gen_python(seed)
    return py_prepare_text(text, meta, seed)


def py_prepare_text(text, meta, seed=None):
    from lib.monitors import binding as B
    obs, err = B.py_dynamic(text, meta)
    if obs is None:
        return {"discard": err}
    sym = B.PySym(text, meta)
    prog = {"text": text, "meta": meta, "seed": seed, "faults": [], "occ": {}, "obs_norm": None}
    if not sym.complete:
        prog["faults"].append("symtable tables could not be aligned with the generated scopes")
        return prog
    norm = {}
    for tag, vals in obs.items():
        norm[tag] = [list(v) for v in vals]
    prog["obs_norm"] = norm
    occ = {}
    for tag, u in meta["uses"].items():
        vals = obs.get(tag)
        if not vals:
            continue
        dyn = {B.py_variable_of_value(v, meta, sym) for v in vals}
        st = sym.owner(u["scope"], u["name"])
        if len(dyn) != 1 or next(iter(dyn))[0] == "?" or st == "?":
            prog["faults"].append(f"use {tag}: the runtime value identifies no single declaration ({sorted(map(str, dyn))}, symtable {st})")
            continue
        d = next(iter(dyn))
        if d[0] != st:
            prog["faults"].append(f"use {tag} of {u['name']}: runtime says scope {d[0]}, symtable says scope {st}")
            continue
        occ[tag] = {"kind": "use", "name": u["name"], "line": u["line"], "scope": u["scope"], "owner": d[0],
                    "site": B.py_site_kind(sym, u["scope"]) + (f"({sym.access(u['scope'], u['name'])})" if sym.access(u["scope"], u["name"]) else ""),
                    "decl": B.py_decl_kind(sym, meta, u["scope"], d[0], u["name"]), "cuse": bool(u.get("cuse")),
                    "csite": B.py_coarse_site(sym, u["scope"], u["name"]), "cdecl": B.py_coarse_decl(sym, u["scope"], d[0])}
    for ctag, c in meta["calls"].items():
        vals = obs.get(ctag)
        if not vals:
            continue
        callee = {meta["idents"].get(str(v[1])) if v[0] == "const" else None for v in vals}
        if len(callee) != 1 or None in callee:
            prog["faults"].append(f"call {ctag}: the callee did not identify itself ({vals})")
            continue
        csid = next(iter(callee))
        target = sym.scopes[csid]
        if c["kind"] == "mcall":
            # K.L().m(...): the bare name is the outermost class K; the method that ran must lie inside it
            q = target["parent"]
            while q is not None and q != c["cls"]:
                q = sym.scopes[q]["parent"]
            if q is None:
                prog["faults"].append(f"call {ctag}: the method that ran does not belong to class {c['name']}")
                continue
            target = sym.scopes[c["cls"]]
        dyn_owner = sym.owner(target["parent"], target["name"])
        st = sym.owner(c["scope"], c["name"])
        if dyn_owner != st or st == "?" or target["name"] != c["name"]:
            prog["faults"].append(f"call {ctag} of {c['name']}: runtime says scope {dyn_owner}, symtable says scope {st}")
            continue
        occ[ctag] = {"kind": c["kind"], "name": c["name"], "line": c["line"], "scope": c["scope"], "owner": st,
                     "site": B.py_site_kind(sym, c["scope"]) + "(call)",
                     "decl": B.py_decl_kind(sym, meta, c["scope"], st, c["name"]),
                     "csite": B.py_coarse_site(sym, c["scope"], c["name"]), "cdecl": B.py_coarse_decl(sym, c["scope"], st)}
    for c, a in meta["assigns"].items():
        # assignment targets are occurrences too (symtable is the only oracle for them; the runtime agrees through every read)
        st = sym.owner(a["scope"], a["name"])
        if st in ("?", None):
            continue
        occ[f"a{c}"] = {"kind": "assign", "name": a["name"], "line": a["line"], "scope": a["scope"], "owner": st, "const": c,
                        "site": B.py_site_kind(sym, a["scope"]) + (f"({sym.access(a['scope'], a['name'])})" if sym.access(a["scope"], a["name"]) else "") + "(assignment-target)",
                        "decl": B.py_decl_kind(sym, meta, a["scope"], st, a["name"]),
                        "csite": B.py_coarse_site(sym, a["scope"], a["name"]) + "(assignment-target)", "cdecl": B.py_coarse_decl(sym, a["scope"], st)}
    for key, g in meta["scopestmts"].items():
        # the name in a `global x` / `nonlocal x` statement is an occurrence as well (symtable is its oracle)
        st = sym.owner(g["scope"], g["name"])
        if st in ("?", None):
            continue
        occ[key] = {"kind": "scopestmt", "stmt": g["kind"], "name": g["name"], "line": g["line"], "scope": g["scope"], "owner": st,
                    "site": B.py_site_kind(sym, g["scope"]) + f"({g['kind']}-stmt)(the-statement-itself)",
                    "decl": B.py_decl_kind(sym, meta, g["scope"], st, g["name"]),
                    "csite": B.py_coarse_site(sym, g["scope"], g["name"]) + "(the-statement-itself)", "cdecl": B.py_coarse_decl(sym, g["scope"], st)}
    for key, r_ in meta["occ"].items():
        # out("uN", K.uN) after a class statement: the bare class name K is read there (symtable is its oracle; the attribute
        # read succeeded at run time). In a class body lian drops the statement, so only function/module level ones are judged.
        if not key.startswith("ru") or sym.scopes[r_["scope"]]["kind"] == "class":
            continue
        st = sym.owner(r_["scope"], r_["name"])
        if st in ("?", None) or key[1:] not in obs:
            continue
        occ[key] = {"kind": "reveal", "field": key[1:], "name": r_["name"], "line": r_["line"], "scope": r_["scope"], "owner": st,
                    "site": B.py_site_kind(sym, r_["scope"]) + "(class-name-read)", "decl": B.py_decl_kind(sym, meta, r_["scope"], st, r_["name"]),
                    "csite": B.py_coarse_site(sym, r_["scope"], r_["name"]), "cdecl": B.py_coarse_decl(sym, r_["scope"], st)}
    prog["occ"] = occ
    prog["owners"] = {k: sym.owner(o["scope"], o["name"]) for k, o in meta["occ"].items()}
    return prog


def py_pick_rename(prog, rng):
    """A variable (owner scope, name) all of whose occurrences the oracles classified; prefers names declared in >1 scope."""
    meta = prog["meta"]
    owners = prog["owners"]
    by_var = {}
    for k, o in meta["occ"].items():
        ow = owners.get(k)
        if ow == "?":
            return None
        by_var.setdefault((ow, o["name"]), []).append(k)
    judged = {(o["owner"], o["name"]) for o in prog["occ"].values()}
    cands = [v for v in by_var if v[0] is not None and v in judged and len(by_var[v]) >= 2]
    if not cands:
        return None
    shadowed = [v for v in cands if sum(1 for w in by_var if w[1] == v[1] and w[0] is not None) >= 2]
    v = rng.choice(sorted(shadowed or cands, key=str))
    return {"var": list(v), "keys": sorted(by_var[v]), "old": v[1], "new": v[1] + "_r"}


def py_expected_ids(view, meta, owner_sid, name):
    """stmt ids of the GIR declaration rows of `name` owned by the generated scope owner_sid. -> (ids, owner gir id | None)"""
    sc = meta["scopes"][str(owner_sid)]
    if sc["kind"] == "module":
        og = 0
    else:
        og = None
        for sid in view.anchors().get(sc["line"], []):
            if view.by_id[sid].get("name") == sc["name"]:
                og = sid
        if og is None:
            return None, None
    return sorted(int(r["stmt_id"]) for r in view.decl_rows(name) if view.owner_scope(int(r["stmt_id"])) == og), og


def py_signature(lang, csite, cdecl, what, chosen_left="", reparented=False):
    """Mechanism signature of one failing occurrence. Three root causes seen on the pinned tree get ONE signature each (the
    components that do not matter for the cause are written `*`); everything else keeps the full three-part form."""
    if "(declaration-left-in-catch_clause-body)" in cdecl:
        return f"{lang}:*->declaration-assigned-in-except-block(declaration-left-in-catch_clause-body):not-bound-to-it"
    if chosen_left == "(declaration-left-in-catch_clause-body)":
        return f"{lang}:*->*:bound-to-declaration-left-in-catch_clause-body"
    if what == "enclosing-class-member":
        if csite.startswith("nested-class-body"):
            return f"{lang}:nested-class-body->*:bound-to-member-of-outer-class"
        return f"{lang}:scope-nested-in-class->*:bound-to-enclosing-class-member"
    if reparented:
        return f"{lang}:scope-inside-or-naming-a-class-declared-below-a-nested-class->*:not-bound-to-it"
    if "(global-stmt" in csite and "(the-statement-itself)" not in csite and cdecl == "module-declaration" \
            and what == "enclosing-function-declaration":
        return f"{lang}:function-body(global-stmt)->module-declaration:bound-to-enclosing-function-declaration"
    return f"{lang}:{csite}->{cdecl}:bound-to-{what}"


def reparent_qualifier(view):
    from lib.monitors import binding as B
    rep = B.reparented_classes(view)

    def q(sid):
        return "(statement-inside-a-class-declared-below-a-nested-class)" if rep & set(view.owner_chain(sid)) else ""
    return q


def chosen_left(view, sym_id):
    """'(declaration-left-in-<op>-<col>)' when the declaration row lian chose was never hoisted out of a nested block."""
    from lib.monitors import binding as B
    r = view.by_id.get(sym_id)
    if r is None or r.get("operation") != "variable_decl":
        return ""
    return B.left_in_block(view, [sym_id], view.owner_scope(sym_id))


def judge_py_program(prog, view, s2, lang="python"):
    """-> {"judged", "unresolved", "pairs": set, "fails": [(sig, text, tag)], "faults": [...]}"""
    from lib.monitors import binding as B
    meta = prog["meta"]
    res = {"judged": 0, "unresolved": 0, "pairs": set(), "fails": [], "faults": [], "join_ok": 0, "failed_stmts": set()}
    tagged = B.tagged_rows(view)
    rep = B.reparented_classes(view)
    fields = {}
    for sid, r in view.by_id.items():
        if r.get("operation") == "field_write" and isinstance(r.get("field"), str):
            fields.setdefault(r["field"], []).append(r)
    for tag, o in prog["occ"].items():
        extra_rows = []
        if o["kind"] == "mcall":
            # K.L().m("cN", ...): one bare class name per line; lian spreads the line over several statements (field_read / call_stmt /
            # object_call_stmt): the occurrence is whichever of them carries a symbol of that name
            if not any(r.get("operation") == "object_call_stmt" for r, a in tagged.get(tag, [])):
                res["faults"].append(f"method call {tag} at line {o['line'] + 1} has no object_call_stmt row")
                continue
            hits = [r for r in view.by_id.values() if r.get("start_row") is not None and int(r["start_row"]) == o["line"]
                    and s2.ids(int(r["stmt_id"]), o["name"])]
            extra_rows, hits = hits[1:], hits[:1]
        elif o.get("cuse"):
            # a class-body read `uN = name`: lian lowers it to field_write(%class, uN, name) carrying the class statement's line
            hits = [r for r in fields.get(tag, []) if r.get("source") == o["name"]]
        elif o["kind"] == "reveal":
            hits = [r for r in view.by_id.values() if r.get("operation") == "field_read" and r.get("receiver_object") == o["name"]
                    and r.get("field") == o["field"] and r.get("start_row") is not None and int(r["start_row"]) == o["line"]]
        elif o["kind"] == "scopestmt":
            hits = [r for r in view.by_id.values() if r.get("operation") == o["stmt"] + "_stmt" and r.get("name") == o["name"]
                    and r.get("start_row") is not None and int(r["start_row"]) == o["line"]]
        elif o["kind"] == "assign":
            if meta["scopes"][str(o["scope"])]["kind"] == "class":
                continue        # a class attribute assignment is a field_write on %class, not a name binding
            hits = [r for r in view.by_id.values() if r.get("operation") == "assign_stmt" and r.get("target") == o["name"]
                    and str(r.get("operand")) == str(o["const"]) and r.get("start_row") is not None and int(r["start_row"]) == o["line"]]
        else:
            hits = [(r, a) for r, a in tagged.get(tag, []) if r.get("operation") == "call_stmt"]
            if o["kind"] == "use":
                hits = [(r, a) for r, a in hits if r.get("name") == "out" and len(a) == 2 and a[1] == o["name"]]
            else:
                hits = [(r, a) for r, a in hits if r.get("name") == o["name"]]
            hits = [r for r, a in hits if r.get("start_row") is not None and int(r["start_row"]) == o["line"]]
        if len(hits) != 1:
            res["faults"].append(f"occurrence {tag} ({o['name']} at line {o['line'] + 1}) could not be joined to exactly one GIR row ({len(hits)})")
            continue
        res["join_ok"] += 1
        row = hits[0]
        sid = int(row["stmt_id"])
        got = s2.ids(sid, o["name"])
        for r_ in extra_rows:
            got = got + s2.ids(int(r_["stmt_id"]), o["name"])
        res["judged"] += 1
        res["pairs"].add((o["site"], o["decl"]))
        where = f"{o['name']} at line {o['line'] + 1}"
        if o["owner"] is None:
            res["unresolved"] += 1
            bad = [g for g in got if g[0] is not None and g[0] >= 0]
            if not got or bad:
                res["failed_stmts"] |= {sid} | {int(r_["stmt_id"]) for r_ in extra_rows}
            if not got:
                res["fails"].append((f"{lang}:{o['csite']}->none:no-symbol-row", f"no s2space row for {where}", tag))
            elif bad:
                what = B.describe_choice(view, sid, bad)
                res["fails"].append((py_signature(lang, o["csite"], "none", what, chosen_left(view, bad[0][0]), bool(rep & set(view.owner_chain(sid)))),
                                     f"{where} has no visible declaration (NameError at run time) but lian binds it to statement "
                                     f"{bad[0][0]} ({what}: {view.by_id.get(bad[0][0], {}).get('operation')} at line "
                                     f"{B._int(view.by_id.get(bad[0][0], {}).get('start_row', -2)) + 1})", tag))
            continue
        exp, og = py_expected_ids(view, meta, o["owner"], o["name"])
        if exp is None:
            res["faults"].append(f"scope {o['owner']} has no method/class declaration row at its line")
            continue
        wrong = [g for g in got if g[0] not in exp]
        cdecl = o["cdecl"] + B.left_in_block(view, exp, og)
        if not got or wrong:
            res["failed_stmts"] |= {sid} | {int(r_["stmt_id"]) for r_ in extra_rows}
        if not got:
            res["fails"].append((f"{lang}:{o['csite']}->{cdecl}:no-symbol-row", f"no s2space row for {where}", tag))
        elif wrong:
            what = B.describe_choice(view, sid, wrong)
            res["fails"].append((py_signature(lang, o["csite"], cdecl, what, chosen_left(view, wrong[0][0]),
                                              bool(rep & (set(view.owner_chain(sid)) | set(exp)))),
                                 f"{where} is bound by the language to the {o['decl']} of scope "
                                 f"{meta['scopes'][str(o['owner'])]['name']} (declaration rows {exp}); lian recorded symbol_id {wrong[0][0]} ({what})", tag))
    return res


def batch_py_single(job):
    from lib import gen_bind
    tag, seeds, replay = job["tag"], job.get("seeds", []), job.get("replay")
    rng = random.Random(job.get("rseed", 0))
    progs = []
    res = new_result("python")
    if replay:
        p = py_prepare_text(replay["files"]["prog.py"], replay["meta"])
        if "discard" not in p:
            p["twin"] = None
            if replay.get("twin"):
                p["twin"] = replay["twin"]
            progs.append(p)
    for seed in seeds:
        p = py_prepare(seed)
        if "discard" in p:
            res["discarded"] += 1
            continue
        p["twin"] = None
        rn = py_pick_rename(p, rng) if not p["faults"] else None
        if rn:
            ttext, tmeta = gen_bind.gen_python(seed, {k: rn["new"] for k in rn["keys"]})
            tp = py_prepare_text(ttext, tmeta)
            if "discard" in tp or tp["faults"] or tp["obs_norm"] != p["obs_norm"]:
                res["twin_rejected"] += 1
            else:
                rn["text"] = ttext
                rn["lines"] = sorted({meta_line(p["meta"], k) for k in rn["keys"]})
                p["twin"] = rn
        progs.append(p)
    files = {}
    for i, p in enumerate(progs):
        files[f"s{i:03d}.py"] = p["text"]
        if p["twin"]:
            files[f"s{i:03d}_r.py"] = p["twin"]["text"]
    if not files:
        return res
    views, s2v, s2rows, unit_of, _ = run_p1(files, "python", tag)
    for i, p in enumerate(progs):
        name = f"s{i:03d}.py"
        case = {"kind": "py1", "files": {"prog.py": p["text"]}, "meta": p["meta"], "seed": p["seed"], "twin": p["twin"]}
        if not replay:
            # statement ids depend on the program's position in its batch; a finding that depends on them (set iteration order)
            # is replayed by running the very same batch again and reporting this program only
            case["batch"] = {"seeds": list(seeds), "rseed": job.get("rseed", 0)}
        finish_program(res, "python", p, views.get(name), s2v.get(name), case, judge_py_program)
        if p["twin"] and name in views:
            tname = f"s{i:03d}_r.py"
            if tname not in views:
                res["fails"].append(("python:no-gir-for-unit", "the lang phase emitted no GIR for the renamed twin", case))
                continue
            sig, text, n = compare_twins("python", views[name], s2rows.get(name, []), views[tname], s2rows.get(tname, []),
                                         set(p["twin"]["lines"]), p["twin"]["old"], p["twin"]["new"],
                                         renamed_fields={k for k in p["twin"]["keys"] if p["meta"]["uses"].get(k, {}).get("cuse")},
                                         skip_stmts=p.get("failed_stmts", ()), qualify=reparent_qualifier(views[name]))
            res["rename_pairs"] += 1
            res["rename_rows"] += n
            if sig:
                res["fails"].append((sig, text, case))
    if job.get("only_seed") is not None:
        res["fails"] = [f for f in res["fails"] if f[2].get("seed") == job["only_seed"]]
    return res


# =====================================================================================================================
# JavaScript, single file
# =====================================================================================================================
def js_parse_value(v):
    if isinstance(v, (int, float)):
        return ("const", int(v))
    if isinstance(v, str):
        if v == "!RE":
            return ("missing",)
        if v.startswith("F") and v[1:].isdigit():
            return ("ident", int(v[1:]))
    return ("unknown", v)


class JsOracle:
    """Which variable does a runtime value identify? A variable is ("decl", const) | ("param", const) | ("func", sid) |
    ("class", sid) | ("implicit", name) | None (nothing visible: ReferenceError) | "?" (the value identifies nothing)."""

    def __init__(self, meta, obs):
        self.meta, self.obs = meta, obs
        self.memo = {}

    def of_value(self, val):
        m = self.meta
        if val[0] == "missing":
            return None
        if val[0] == "const":
            c = str(val[1])
            if c in m["decls"]:
                return ("decl", int(c))
            if c in m["params"]:
                return ("param", int(c))
            if c in m["writes"]:
                return self.of_write(c)
            return "?"
        if val[0] == "ident":
            sid = m["idents"].get(str(val[1]))
            if sid is None:
                return "?"
            sc = m["scopes"][str(sid)]
            if sc["kind"] == "class":
                return ("class", sid)
            if sc.get("style") in ("decl", "expr", "arrow"):
                return ("func", sid)
        return "?"

    def of_write(self, c):
        """A keyword-less write `x = c` assigns whatever a read of x at the same place is bound to (its probe read, emitted right
        before it); when that read throws ReferenceError the write creates an implicit global."""
        if c in self.memo:
            return self.memo[c]
        self.memo[c] = "?"
        w = self.meta["writes"][c]
        vals = self.obs.get(w["probe"])
        if vals:
            vs = {self._key(self.of_value(js_parse_value(v))) for v in vals}
            if len(vs) == 1:
                r = self.of_value(js_parse_value(vals[0]))
                self.memo[c] = ("implicit", w["name"]) if r is None else r
        return self.memo[c]

    @staticmethod
    def _key(v):
        return json.dumps(v)

    def of_tag(self, tag):
        vals = self.obs.get(tag)
        if not vals:
            return "?"
        rs = [self.of_value(js_parse_value(v)) for v in vals]
        if any(r == "?" for r in rs) or len({self._key(r) for r in rs}) != 1:
            return "?"
        return rs[0]


def js_scope_chain(meta, sid):
    out = []
    while sid is not None:
        out.append(str(sid))
        sid = meta["scopes"][str(sid)]["parent"]
    return out


def js_function_of(meta, sid):
    for s in js_scope_chain(meta, sid):
        if meta["scopes"][s]["kind"] in ("function", "module"):
            return s
    return None


def js_kinds(meta, use_scope, var):
    """(fine site, fine decl, coarse site, coarse decl) of an occurrence in scope use_scope bound to variable var."""
    sc = meta["scopes"][str(use_scope)]
    chain = js_scope_chain(meta, use_scope)
    in_class = any(meta["scopes"][s]["kind"] == "class" for s in chain)
    ufn = js_function_of(meta, use_scope)
    if sc["kind"] == "module":
        site = csite = "module-body"
    elif sc["kind"] == "block":
        st = sc["style"]
        site = {"catch": "catch-block", "for": "loop-block", "while": "loop-block", "try": "try-block"}.get(st, "block")
        csite = site if site in ("catch-block", "loop-block") else "block"
        if meta["scopes"][ufn]["kind"] == "module":
            site += "-at-module-level"
    else:
        nested = any(meta["scopes"][s]["kind"] == "function" for s in chain[1:])
        site = {"method": "method-body", "arrow": "arrow-function-body"}.get(sc.get("style"), "function-body")
        if nested and site != "method-body":
            site = "nested-" + site
        csite = "function-body"
    if in_class and sc["kind"] != "module":
        csite += "-inside-class"
    if var is None:
        return site, "none", csite, "none"
    kind, ref = var
    qual = ""
    if kind == "decl":
        d = meta["decls"][str(ref)]
        dscope, dk = d["scope"], d["kind"]
    elif kind == "param":
        dscope, dk = meta["params"][str(ref)]["scope"], "parameter"
    elif kind in ("func", "class"):
        fs = meta["scopes"][str(ref)]
        dscope = fs["parent"]
        dk = "class" if kind == "class" else ("function-declaration" if fs["style"] == "decl" else "const-function-expression")
    else:
        return site, "implicit-global", csite, "implicit-global"
    dfn = js_function_of(meta, dscope)
    lexical = dk in ("let", "const", "class", "const-function-expression")
    if dk == "var" and meta["scopes"][str(dscope)]["kind"] == "block":
        qual = "(declared-in-nested-block)"
    if lexical and str(dscope) == str(use_scope):
        rel = "own-block" if sc["kind"] == "block" else "own-scope"
    elif dfn == ufn:
        rel = "module" if meta["scopes"][dfn]["kind"] == "module" else "same-function"
    elif meta["scopes"][dfn]["kind"] == "module":
        rel = "module"
    else:
        rel = "enclosing-function"
    cls = {"const": "let", "const-function-expression": "let", "class": "let", "function-declaration": "function"}.get(dk, dk)
    if lexical and meta["scopes"][str(dscope)]["kind"] == "block" and rel != "own-block":
        qual = "(declared-in-enclosing-block)"
    return site, f"{rel}-{dk}{qual}", csite, f"{rel}-{cls}{qual}"


def js_prepare_text(text, meta, outputs):
    prog = {"text": text, "meta": meta, "faults": [], "occ": {}, "obs_norm": None, "unclassified": 0}
    obs = {}
    for tag, v in outputs:
        obs.setdefault(tag, []).append(v)
    prog["obs_norm"] = obs
    orc = JsOracle(meta, obs)
    occ = {}
    var_of = {}
    for tag, u in meta["uses"].items():
        v = orc.of_tag(tag)
        var_of[tag] = v
        if v == "?":
            prog["unclassified"] += 1
            continue
        site, decl, csite, cdecl = js_kinds(meta, u["scope"], v)
        occ[tag] = {"kind": "use", "name": u["name"], "line": u["line"], "scope": u["scope"], "var": v, "site": site, "decl": decl,
                    "csite": csite, "cdecl": cdecl}
    for c, w in meta["writes"].items():
        v = orc.of_write(c)
        var_of[w["wtag"]] = v
        if v == "?":
            prog["unclassified"] += 1
            continue
        site, decl, csite, cdecl = js_kinds(meta, w["scope"], v)
        occ[w["wtag"]] = {"kind": "write", "name": w["name"], "line": w["line"], "scope": w["scope"], "var": v, "const": c,
                          "site": site + "(write)", "decl": decl, "csite": csite + "(write)", "cdecl": cdecl}
    for c, d in meta["decls"].items():
        # the target of `let x = c` is an occurrence too; it is bound to the very declaration it initialises
        v = ("decl", int(c))
        site, decl, csite, cdecl = js_kinds(meta, d["scope"], v)
        occ[f"a{c}"] = {"kind": "write", "name": d["name"], "line": d["line"], "scope": d["scope"], "var": v, "const": c,
                        "site": site + "(declaration-site)", "decl": decl, "csite": csite + "(declaration-site)", "cdecl": cdecl}
    for sid_, fs in meta["scopes"].items():
        if fs.get("style") in ("expr", "arrow"):
            v = ("func", int(sid_))
            site, decl, csite, cdecl = js_kinds(meta, fs["parent"], v)
            occ[f"d{sid_}"] = {"kind": "fdecl", "name": fs["name"], "line": fs["line"], "scope": fs["parent"], "var": v,
                               "site": site + "(declaration-site)", "decl": decl, "csite": csite + "(declaration-site)", "cdecl": cdecl}
    for ctag, c in meta["calls"].items():
        vals = obs.get(ctag)
        v = "?"
        if vals and len(vals) == 1 and isinstance(vals[0], (int, float)):
            sid = meta["idents"].get(str(int(vals[0])))
            if sid is not None:
                fs = meta["scopes"][str(sid)]
                if c["kind"] == "mcall":
                    v = ("class", fs["parent"])
                elif fs.get("style") in ("decl", "expr", "arrow"):
                    v = ("func", sid)
        var_of[ctag] = v
        if v == "?":
            prog["unclassified"] += 1
            continue
        site, decl, csite, cdecl = js_kinds(meta, c["scope"], v)
        occ[ctag] = {"kind": c["kind"], "name": c["name"], "line": c["line"], "scope": c["scope"], "var": v, "site": site + "(call)",
                     "decl": decl, "csite": csite, "cdecl": cdecl}
    for k, o in meta["occ"].items():
        if k[0] == "a":
            var_of[k] = ("decl", int(k[1:]))
        elif k[0] == "p":
            var_of[k] = ("param", int(k[1:]))
        elif k[0] == "d":
            sc = meta["scopes"][k[1:]]
            var_of[k] = ("class", int(k[1:])) if sc["kind"] == "class" else ("func", int(k[1:]))
    prog["occ"] = occ
    prog["var_of"] = var_of
    return prog


def js_pick_rename(prog, rng):
    meta = prog["meta"]
    var_of = prog["var_of"]
    by_var, names_ok = {}, {}
    for k, o in meta["occ"].items():
        v = var_of.get(k, "?")
        if v == "?":
            names_ok[o["name"]] = False
            continue
        names_ok.setdefault(o["name"], True)
        if v is not None:
            by_var.setdefault(json.dumps(v), []).append(k)
    judged = {json.dumps(o["var"]) for o in prog["occ"].values() if o["var"] is not None}
    cands = [v for v in by_var if v in judged and len(by_var[v]) >= 2 and names_ok.get(meta["occ"][by_var[v][0]]["name"])
             and len({meta["occ"][k]["name"] for k in by_var[v]}) == 1]
    if not cands:
        return None
    def nm(v):
        return meta["occ"][by_var[v][0]]["name"]
    shadowed = [v for v in cands if sum(1 for w in by_var if nm(w) == nm(v)) >= 2]
    v = rng.choice(sorted(shadowed or cands))
    return {"var": json.loads(v), "keys": sorted(by_var[v]), "old": nm(v), "new": nm(v) + "_r"}


def js_expected_ids(view, meta, var):
    """stmt ids of the declaration rows lian should have bound an occurrence of `var` to (None: cannot be located = harness fault)."""
    from lib.monitors import binding as B
    kind, ref = var
    rows = list(view.by_id.values())
    if kind == "decl":
        d = meta["decls"][str(ref)]
        init = [r for r in rows if r.get("operation") == "assign_stmt" and r.get("target") == d["name"] and str(r.get("operand")) == str(ref)]
        if len(init) != 1:
            return None, None
        isid = int(init[0]["stmt_id"])
        if d["kind"] == "var":
            own = view.owner_scope(isid)
            return sorted(int(r["stmt_id"]) for r in view.decl_rows(d["name"])
                          if r.get("operation") == "variable_decl" and "var" in str(r.get("attrs"))
                          and view.owner_scope(int(r["stmt_id"])) == own), own
        blk = view.norm_block(isid)
        return sorted(int(r["stmt_id"]) for r in view.decl_rows(d["name"])
                      if r.get("operation") == "variable_decl" and ("let" in str(r.get("attrs")) or "const" in str(r.get("attrs")))
                      and view.norm_block(int(r["stmt_id"])) == blk), view.parent_stmt(isid)
    if kind == "param":
        p = meta["params"][str(ref)]
        line = meta["scopes"][str(p["scope"])]["line"]
        anchors = [sid for sid in view.anchors().get(line, []) if view.by_id[sid].get("operation") == "method_decl"]
        if len(anchors) != 1:
            return None, None
        return sorted(int(r["stmt_id"]) for r in view.decl_rows(p["name"])
                      if r.get("operation") == "parameter_decl" and view.owner_scope(int(r["stmt_id"])) == anchors[0]), anchors[0]
    if kind in ("func", "class"):
        fs = meta["scopes"][str(ref)]
        if kind == "class" or fs["style"] == "decl":
            op = "class_decl" if kind == "class" else "method_decl"
            hit = [sid for sid in view.anchors().get(fs["line"], []) if view.by_id[sid].get("operation") == op and view.by_id[sid].get("name") == fs["name"]]
            return (sorted(hit), view.parent_stmt(hit[0])) if len(hit) == 1 else (None, None)
        init = [r for r in rows if r.get("operation") == "assign_stmt" and r.get("target") == fs["name"] and r.get("start_row") is not None
                and int(r["start_row"]) == fs["line"]]
        if len(init) != 1:
            return None, None
        blk = view.norm_block(int(init[0]["stmt_id"]))
        return sorted(int(r["stmt_id"]) for r in view.decl_rows(fs["name"])
                      if r.get("operation") == "variable_decl" and view.norm_block(int(r["stmt_id"])) == blk), view.parent_stmt(int(init[0]["stmt_id"]))
    if kind == "implicit":
        return sorted(int(r["stmt_id"]) for r in view.decl_rows(ref)
                      if r.get("operation") == "variable_decl" and view.norm_block(int(r["stmt_id"])) == 0), 0
    return None, None


def js_signature(lang, meta, view, o, use_sid, cdecl, what, chosen_row):
    """Mechanism signature of one failing JavaScript occurrence: the root causes seen on the pinned tree get one signature each
    (components that do not matter for the cause are written `*`); everything else keeps the full three-part form."""
    is_decl_row = chosen_row is not None and chosen_row.get("operation") in ("variable_decl", "class_decl")
    if is_decl_row:
        # lian's JavaScript frontend dissolves a bare `{ ... }`: what it declares lands in the enclosing block
        line = chosen_row.get("start_row")
        md = [d["scope"] for d in meta["decls"].values() if line is not None and d["line"] == int(line) and d["name"] == chosen_row.get("name")]
        md += [sc["parent"] for sc in meta["scopes"].values() if line is not None and sc.get("line") == int(line)
               and sc.get("name") == chosen_row.get("name") and sc.get("style") in ("expr", "arrow", "class")]
        if md:
            dsc = meta["scopes"][str(md[0])]
            if dsc["kind"] == "block" and dsc.get("style") == "bare" and str(md[0]) not in js_scope_chain(meta, o["scope"]):
                return f"{lang}:*->*:bound-to-declaration-of-dissolved-bare-block"
    v = o.get("var")
    if v and v[0] in ("decl", "func", "class"):
        dsid = meta["decls"][str(v[1])]["scope"] if v[0] == "decl" else meta["scopes"][str(v[1])]["parent"]
        dsc = meta["scopes"][str(dsid)]
        if dsc["kind"] == "block" and dsc.get("style") == "bare" and not (v[0] == "decl" and meta["decls"][str(v[1])]["kind"] == "var"):
            # ... where it collides with (or is deduplicated against) what that block declares under the same name
            return f"{lang}:*->declaration-in-dissolved-bare-block:not-bound-to-it"
    if cdecl.startswith("implicit-global") and "(no-declaration-row)" in cdecl:
        return f"{lang}:*->implicit-global(no-declaration-row):not-bound-to-it"
    if "(no-declaration-row)" in cdecl and "-let" in cdecl:
        return f"{lang}:*->block-scoped-declaration(no-declaration-row):not-bound-to-it"
    if "-var" in cdecl and "(no-declaration-row)" in cdecl:
        return f"{lang}:*->var(no-declaration-row):not-bound-to-it"
    if "-var(declared-in-nested-block)" in cdecl:
        return f"{lang}:*->var(declared-in-nested-block):not-bound-to-it"
    if is_decl_row:
        cid = int(chosen_row["stmt_id"])
        if "implicit-global-declaration" in what:
            return f"{lang}:*->*:bound-to-implicit-global-declaration"
        if view.owner_scope(cid) == 0 and view.norm_block(cid) != 0 and view.norm_block(cid) not in view.enclosing_blocks(use_sid):
            return f"{lang}:*->{'none' if cdecl == 'none' else 'declaration'}:bound-to-declaration-in-module-level-block"
    return f"{lang}:{o['csite']}->{cdecl}:bound-to-{what}"


def judge_js_program(prog, view, s2, lang="javascript"):
    from lib.monitors import binding as B
    meta = prog["meta"]
    res = {"judged": 0, "unresolved": 0, "pairs": set(), "fails": [], "faults": [], "join_ok": 0, "failed_stmts": set()}
    tagged = B.tagged_rows(view)
    for tag, o in prog["occ"].items():
        if o["kind"] == "mcall":
            continue
        if o["kind"] == "write":
            hits = [r for r in view.by_id.values() if r.get("operation") == "assign_stmt" and r.get("target") == o["name"]
                    and str(r.get("operand")) == str(o["const"])]
        elif o["kind"] == "fdecl":
            hits = [r for r in view.by_id.values() if r.get("operation") == "assign_stmt" and r.get("target") == o["name"]
                    and str(r.get("operand")).startswith("%")]
        else:
            hits = [(r, a) for r, a in tagged.get(tag, []) if r.get("operation") == "call_stmt"]
            if o["kind"] == "use":
                hits = [(r, a) for r, a in hits if r.get("name") == "out" and len(a) == 2 and a[1] == o["name"]]
            else:
                hits = [(r, a) for r, a in hits if r.get("name") == o["name"]]
            hits = [r for r, a in hits]
        hits = [r for r in hits if r.get("start_row") is not None and int(r["start_row"]) == o["line"]]
        if len(hits) != 1:
            res["faults"].append(f"occurrence {tag} ({o['name']} at line {o['line'] + 1}) could not be joined to exactly one GIR row ({len(hits)})")
            continue
        res["join_ok"] += 1
        sid = int(hits[0]["stmt_id"])
        got = s2.ids(sid, o["name"])
        res["judged"] += 1
        res["pairs"].add((o["site"], o["decl"]))
        where = f"{o['name']} at line {o['line'] + 1}"
        if o["var"] is None:
            res["unresolved"] += 1
            bad = [g for g in got if g[0] is not None and g[0] >= 0]
            if not got or bad:
                res["failed_stmts"].add(sid)
            if not got:
                res["fails"].append((f"{lang}:{o['csite']}->none:no-symbol-row", f"no s2space row for {where}", tag))
            elif bad:
                what = B.describe_choice(view, sid, bad, block_scoped=True)
                br = view.by_id.get(bad[0][0], {})
                res["fails"].append((js_signature(lang, meta, view, o, sid, "none", what, br),
                                     f"{where} has no visible declaration (ReferenceError at run time) but lian binds it to statement "
                                     f"{bad[0][0]} ({what}: {br.get('operation')} {br.get('attrs') or ''} at line {B._int(br.get('start_row', -2)) + 1})", tag))
            continue
        exp, og = js_expected_ids(view, meta, o["var"])
        if exp is None:
            res["faults"].append(f"the declaration {o['var']} of {where} could not be located in the GIR")
            continue
        wrong = [g for g in got if g[0] not in exp]
        cdecl = o["cdecl"] + ("(no-declaration-row)" if not exp else "")
        if not got or wrong:
            res["failed_stmts"].add(sid)
        if not got:
            res["fails"].append((f"{lang}:{o['csite']}->{cdecl}:no-symbol-row", f"no s2space row for {where}", tag))
        elif wrong:
            what = B.describe_choice(view, sid, wrong, block_scoped=True)
            br = view.by_id.get(wrong[0][0], {})
            res["fails"].append((js_signature(lang, meta, view, o, sid, cdecl, what, br if br else None),
                                 f"{where} is bound by the language to the {o['decl']} {o['var']} (declaration rows {exp}); lian recorded "
                                 f"symbol_id {wrong[0][0]} ({what}: {br.get('operation')} {br.get('attrs') or ''} at line {B._int(br.get('start_row', -2)) + 1})", tag))
    return res


def batch_js_single(job):
    from lib import gen_bind
    tag, seeds, replay = job["tag"], job.get("seeds", []), job.get("replay")
    rng = random.Random(job.get("rseed", 0))
    res = new_result("javascript")
    sc = common.scratch()
    wd = os.path.join(sc, f"c05node_{tag}")
    os.makedirs(wd, exist_ok=True)
    cands = []
    if replay:
        cands.append((None, replay["files"]["prog.js"], replay["meta"]))
    for seed in seeds:
        t, m = gen_bind.gen_javascript(seed)
        cands.append((seed, t, m))
    outs = gen_bind.run_node([t for _, t, _ in cands], wd)
    if outs is None:
        res["faults"].append("node did not run")
        return res
    progs = []
    for (seed, t, m), o in zip(cands, outs):
        if o["status"] != "ok":
            res["discarded"] += 1
            continue
        p = js_prepare_text(t, m, o["outputs"])
        p["seed"] = seed
        p["twin"] = None
        res["unclassified"] = res.get("unclassified", 0) + p["unclassified"]
        rn = js_pick_rename(p, rng) if seed is not None else None
        if replay and replay.get("twin"):
            p["twin"] = replay["twin"]
        if rn:
            tt, tm = gen_bind.gen_javascript(seed, {k: rn["new"] for k in rn["keys"]})
            rn["text"] = tt
            rn["lines"] = sorted({meta_line(m, k) for k in rn["keys"]})
            p["twin_try"] = rn
        progs.append(p)
    tw = [p for p in progs if p.get("twin_try")]
    if tw:
        touts = gen_bind.run_node([p["twin_try"]["text"] for p in tw], wd)
        for p, o in zip(tw, touts or [None] * len(tw)):
            same = o is not None and o["status"] == "ok"      # the twin must be total and print exactly what the original printed
            if same:
                obs = {}
                for t_, v in o["outputs"]:
                    obs.setdefault(t_, []).append(v)
                same = obs == p["obs_norm"]
            if same:
                p["twin"] = p.pop("twin_try")
            else:
                p.pop("twin_try")
                res["twin_rejected"] += 1
    files = {}
    for i, p in enumerate(progs):
        files[f"s{i:03d}.js"] = p["text"]
        if p["twin"]:
            files[f"s{i:03d}_r.js"] = p["twin"]["text"]
    if not files:
        return res
    views, s2v, s2rows, unit_of, _ = run_p1(files, "javascript", tag)
    for i, p in enumerate(progs):
        name = f"s{i:03d}.js"
        case = {"kind": "js1", "files": {"prog.js": p["text"]}, "meta": p["meta"], "seed": p["seed"], "twin": p["twin"]}
        finish_program(res, "javascript", p, views.get(name), s2v.get(name), case, judge_js_program)
        if p["twin"] and name in views:
            tname = f"s{i:03d}_r.js"
            if tname not in views:
                res["fails"].append(("javascript:no-gir-for-unit", "the lang phase emitted no GIR for the renamed twin", case))
                continue
            sig, text, n = compare_twins("javascript", views[name], s2rows.get(name, []), views[tname], s2rows.get(tname, []),
                                         set(p["twin"]["lines"]), p["twin"]["old"], p["twin"]["new"],
                                         skip_stmts=p.get("failed_stmts", ()))
            res["rename_pairs"] += 1
            res["rename_rows"] += n
            if sig:
                res["fails"].append((sig, text, case))
    return res


# =====================================================================================================================
# Python, multi-file projects
# =====================================================================================================================
def proj_resolve(meta, path, name, depth=0):
    """Which library declaration does `name` mean at module level of file `path` (following non-oracle generator knowledge of
    the import statements)? Used only to build the renamed twin, never to judge. -> const key or None"""
    if depth > 6:
        return None
    for c, d in meta["consts"].items():
        if d["file"] == path and d["name"] == name and d["scope"] == meta["files"][path]["scope"]:
            return c
    for k, imp in meta["imports"].items():
        if imp["file"] == path and imp["scope"] == meta["files"][path]["scope"] and name in imp["binds"]:
            t = (imp.get("target") or {}).get(name)
            if t and t[1] is not None:
                return proj_resolve(meta, t[0], t[1], depth + 1)
    return None


def proj_prepare(files, meta, run):
    from lib.monitors import binding as B
    prog = {"files": files, "meta": meta, "faults": [], "occ": {}, "obs_norm": None}
    obs = {}
    for tag, kind, payload in run["outputs"]:
        obs.setdefault(tag, []).append([kind, payload])
    prog["obs_norm"] = obs
    syms = {}
    for path, text in files.items():
        scopes = {sid: sc for sid, sc in meta["scopes"].items() if sc["file"] == path}
        try:
            syms[path] = B.PySym(text, {"scopes": scopes})
        except SyntaxError:
            prog["faults"].append(f"{path} does not parse")
            return prog
        if not syms[path].complete:
            prog["faults"].append(f"symtable tables of {path} could not be aligned with the generated scopes")
            return prog
    mod_file = {f["module"]: p for p, f in meta["files"].items()}

    def target_of(val):
        kind, payload = val
        if kind == "str" and payload == "!NE":
            return None
        if kind == "const":
            d = meta["consts"].get(str(payload))
            return ("decl", str(payload)) if d and d["kind"] != "method" else "?"
        if kind == "func":
            c = meta["funcs"].get(payload)
            if c is None:
                modn, qual = payload.split(":", 1)
                cs = [c2 for c2, d in meta["consts"].items() if d["kind"] == "function" and d["file"] == mod_file.get(modn)
                      and qual.split(".")[-1] == d["name"]]
                c = cs[0] if len(cs) == 1 else None
            return ("decl", c) if c else "?"
        if kind == "module":
            return ("module", payload) if payload in files else "?"
        return "?"

    def wildcard_bound(path, scope, name):
        return any(i["file"] == path and i["form"] == "wildcard" and name in i["binds"] for i in meta["imports"].values())

    causes = {}

    def source_names(j):
        """the names an import statement asks its module for (as spelled there); a wildcard asks for everything the module
        declares AND, the way lian walks the import graph, for everything that module itself imports (under the original names)"""
        if j["form"] == "wildcard":
            tp = next(iter((j.get("target") or {}).values()), [None])[0]
            out_ = set(j["binds"])
            for k2 in meta["imports"].values():
                if k2["file"] == tp:
                    out_ |= source_names(k2) if k2["form"] != "wildcard" else set()
            return out_
        if j["form"] == "import":
            return {j["module"].split(".")[-1]}
        return {n for n, a in (j.get("names") or [])}

    def source_name_twice(i, name, path):
        mine = {n for n, a in (i.get("names") or []) if (a or n) == name} if i["form"] != "import" else {i["module"].split(".")[-1]}
        return any(j is not i and j["file"] == path and (source_names(j) & mine) for j in meta["imports"].values())

    def chain_facts(fpath, fname, depth=0):
        """follow `fname`, looked up at module level of `fpath`, through the modules that re-export it:
        (some module of the chain binds it under an alias, some lookup of the chain happens in a package __init__)"""
        aliased, through_init = False, fpath.endswith("__init__.py")
        if depth <= 6:
            for k2 in meta["imports"].values():
                if k2["file"] == fpath and k2["scope"] == meta["files"][fpath]["scope"] and fname in k2["binds"]:
                    aliased = any((a2 or n2) == fname and a2 and a2 != n2 for n2, a2 in (k2.get("names") or []))
                    t2 = (k2.get("target") or {}).get(fname)
                    if t2 and t2[1] is not None:
                        a3, i3 = chain_facts(t2[0], t2[1], depth + 1)
                        aliased, through_init = aliased or a3, through_init or i3
                    break
        return aliased, through_init

    def import_kind(path, owner, name, tgt):
        """The import statement that binds `name` in scope `owner` of file `path`, and which of the five import mechanisms that
        fail on the pinned tree it involves (recomputed from the case: the import table of the generated project)."""
        for i in meta["imports"].values():
            if i["file"] == path and i["scope"] == owner and name in i["binds"]:
                t = (i.get("target") or {}).get(name)
                re = ""
                cause = None
                if meta["scopes"][str(owner)]["kind"] != "module":
                    cause = "function-local-import"
                elif i["form"] == "wildcard":
                    cause = "from-import-wildcard"
                elif tgt[0] == "decl" and t and meta["consts"][tgt[1]]["file"] != t[0]:
                    # a re-export chain. On the pinned tree it fails when some module of the chain re-exports under an ALIAS (lian
                    # matches the original name) or when a name is looked up in a package __init__; a chain of same-name
                    # re-exports through plain modules resolves, so it gets no cause and is judged like any other import.
                    re = "(re-exported-by-" + ("package-init" if t[0].endswith("__init__.py") else "module") + ")"
                    aliased, through_init = chain_facts(t[0], t[1])
                    if aliased:
                        cause = "re-exported-name"
                    elif through_init:
                        cause = "declared-in-package-__init__"
                    elif source_name_twice(i, name, path):
                        cause = "same-source-name-imported-twice-in-the-file"
                elif tgt[0] == "decl" and meta["consts"][tgt[1]]["file"].endswith("__init__.py"):
                    cause = "declared-in-package-__init__"
                elif source_name_twice(i, name, path):
                    cause = "same-source-name-imported-twice-in-the-file"
                causes[(path, owner, name)] = cause
                return i["kind"] + re
        return None

    def site_of(path, sid):
        sc = meta["scopes"][str(sid)]
        if sc["kind"] == "module":
            return "module-body"
        if sc.get("method"):
            return "method-body"
        return "nested-function-body" if meta["scopes"][str(sc["parent"])]["kind"] == "function" else "function-body"

    def describe(path, use_scope, name, tgt, sym):
        """-> (fine decl kind, owner scope per symtable or '?')"""
        st = sym.owner(use_scope, name)
        if tgt is None:
            return "none", st
        if tgt[0] == "module":
            ik = import_kind(path, st, name, tgt) if st not in ("?", None) else None
            return (f"imported-module({ik})" if ik else "?"), st
        d = meta["consts"][tgt[1]]
        if d["file"] == path:
            if d["kind"] == "parameter":
                return ("own-parameter" if d["scope"] == use_scope else "enclosing-function-parameter"), st
            osc = meta["scopes"][str(d["scope"])]
            base = "module-" if osc["kind"] == "module" else ("own-" if d["scope"] == use_scope else "enclosing-function-")
            # the same name may reach this file's scope through an import of a declaration of this very file? (not generated)
            return base + d["kind"], st
        ik = import_kind(path, st, name, tgt) if st not in ("?", None) else None
        return (f"imported-{d['kind']}({ik})" if ik else "?"), st

    occ = {}
    for tag, u in list(meta["uses"].items()) + [(t, dict(c, call=True)) for t, c in meta["calls"].items()]:
        vals = obs.get(tag)
        if not vals:
            continue
        path = u["file"]
        sym = syms[path]
        if u.get("call"):
            ts = {json.dumps(("decl", str(v[1])) if v[0] == "const" and str(v[1]) in meta["consts"] else "?") for v in vals}
        else:
            ts = {json.dumps(target_of(v)) for v in vals}
        if len(ts) != 1 or json.loads(next(iter(ts))) == "?":
            prog["faults"].append(f"{path}: occurrence {tag} of {u['name']}: the runtime value identifies no single declaration ({sorted(ts)})")
            continue
        tgt = json.loads(next(iter(ts)))
        tgt = tuple(tgt) if tgt is not None else None
        decl, st = describe(path, u["scope"], u["name"], tgt, sym)
        wc = wildcard_bound(path, u["scope"], u["name"])
        # symtable cross-check
        ok = True
        if st == "?" or decl == "?":
            ok = wc and tgt is not None and tgt[0] == "decl"          # symtable cannot see what `import *` binds
            if ok:
                st = meta["files"][path]["scope"]
                decl = f"imported-{meta['consts'][tgt[1]]['kind']}(from-import-wildcard)"
        elif tgt is None:
            ok = st is None
        elif st is None:
            ok = wc
            if ok:
                st = meta["files"][path]["scope"]
                d = meta["consts"][tgt[1]] if tgt[0] == "decl" else None
                decl = f"imported-{d['kind']}(from-import-wildcard)" if d else decl
        elif tgt[0] == "decl" and meta["consts"][tgt[1]]["file"] == path:
            d = meta["consts"][tgt[1]]
            ok = st == d["scope"]
        else:
            s_ = sym.sym(st, u["name"])
            ok = s_ is not None and s_.is_imported()
        if not ok:
            prog["faults"].append(f"{path}: occurrence {tag} of {u['name']}: runtime says {tgt}, symtable says scope {st}")
            continue
        cause = causes.get((path, st, u["name"]))
        if decl.endswith("(from-import-wildcard)"):
            cause = "from-import-wildcard"
        occ[tag] = {"kind": "call" if u.get("call") else "use", "file": path, "name": u["name"], "line": u["line"], "scope": u["scope"],
                    "target": tgt, "owner": st, "site": site_of(path, u["scope"]) + ("(call)" if u.get("call") else ""), "decl": decl,
                    "cause": cause}
    for k, imp in meta["imports"].items():
        if meta["scopes"][str(imp["scope"])]["kind"] == "module":
            continue            # module-level import statements lie in no method: they have no s2space rows
        for b in imp["binds"]:
            ev = [o for o in occ.values() if o["file"] == imp["file"] and o["owner"] == imp["scope"] and o["name"] == b and o["target"]]
            # what the statement binds is literal (module + name); reads of the name in that function are runtime evidence for it
            t = (imp.get("target") or {}).get(b)
            lit = None
            if t and t[1] is None:
                lit = ("module", t[0])
            elif t:
                c_ = proj_resolve(meta, t[0], t[1])
                lit = ("decl", c_) if c_ else None
            if ev and lit and tuple(ev[0]["target"]) != lit:
                prog["faults"].append(f"{imp['file']}: the function-local import of {b} says {lit}, the runtime says {ev[0]['target']}")
                continue
            tgt_ = tuple(ev[0]["target"]) if ev else lit
            if tgt_ is None:
                continue
            occ[f"{k}:{b}"] = {"kind": "importstmt", "op": "import_stmt" if imp["form"] == "import" else "from_import_stmt",
                               "file": imp["file"], "name": b, "line": imp["line"], "scope": imp["scope"], "target": tgt_,
                               "owner": imp["scope"], "site": site_of(imp["file"], imp["scope"]) + "(the-import-statement-itself)",
                               "decl": ev[0]["decl"] if ev else "imported-symbol(function-local)", "cause": "function-local-import"}
    prog["occ"] = occ
    return prog


def proj_pick_rename(prog, rng):
    """A library declaration + exactly the occurrences that mean it (per the runtime), to be renamed consistently."""
    meta = prog["meta"]
    cands = []
    for c, d in meta["consts"].items():
        if d["file"] == "main.py" or d["kind"] not in ("variable", "function"):
            continue
        uses = [t for t, o in prog["occ"].items() if o["target"] == ("decl", c)]
        if not uses or not any(prog["occ"][t]["file"] != d["file"] for t in uses):
            continue
        # every occurrence spelled like the declaration must have been classified
        spelled = [t for t, u in list(meta["uses"].items()) + list(meta["calls"].items()) if u["name"] == d["name"]]
        if any(t not in prog["occ"] for t in spelled):
            continue
        keys = [("a" if d["kind"] == "variable" else "d") + c]
        keys += [t for t in spelled if prog["occ"][t]["target"] == ("decl", c)]
        for k, imp in meta["imports"].items():
            for j, (n, a) in enumerate(imp.get("names") or []):
                t = (imp.get("target") or {}).get(a or n)
                if n == d["name"] and t and t[1] is not None and proj_resolve(meta, t[0], t[1]) == c:
                    keys.append(f"{k}s{j}")
        cands.append({"const": c, "keys": sorted(set(keys)), "old": d["name"], "new": d["name"] + "_r"})
    if not cands:
        return None
    return rng.choice(cands)


def proj_expected_ids(views, unit_of, module_of, meta, o):
    tgt = o["target"]
    if tgt[0] == "module":
        path = tgt[1]
        ids = set()
        if path in unit_of:
            ids.add(unit_of[path])
        if path.endswith("__init__.py"):
            d = os.path.dirname(path)
            if d in module_of:
                ids.add(module_of[d])
        return sorted(ids)
    d = meta["consts"][tgt[1]]
    view = views.get(d["file"])
    if view is None:
        return None
    osc = meta["scopes"][str(d["scope"])]
    if osc["kind"] == "module":
        og = 0
    else:
        og = None
        for sid in view.anchors().get(osc["line"], []):
            if view.by_id[sid].get("name") == osc["name"]:
                og = sid
        if og is None:
            return None
    return sorted(int(r["stmt_id"]) for r in view.decl_rows(d["name"]) if view.owner_scope(int(r["stmt_id"])) == og)


def proj_signature(o, what):
    if o["decl"] == "none":
        return f"python:{o['site'].replace('(call)', '')}->none:bound-to-{what}"
    if o["decl"].startswith("imported-"):
        # the import form is what matters for imported symbols, not where in the importing file the name is read
        if o.get("cause"):
            return f"python:*->imported-symbol({o['cause']}):not-bound-to-it"
        return f"python:*->{o['decl']}:bound-to-{what}"
    return f"python:{o['site'].replace('(call)', '')}->{o['decl']}(multi-file):bound-to-{what}"


def judge_project(prog, views, s2v, unit_of, module_of):
    from lib.monitors import binding as B
    meta = prog["meta"]
    res = {"judged": 0, "unresolved": 0, "pairs": set(), "fails": [], "faults": [], "join_ok": 0, "failed_stmts": {}, "imported": 0}
    tagged = {p: B.tagged_rows(v) for p, v in views.items()}
    for tag, o in prog["occ"].items():
        view = views.get(o["file"])
        if view is None:
            res["faults"].append(f"no GIR for {o['file']}")
            continue
        if o["kind"] == "importstmt":
            hits = [(r, None) for r in view.by_id.values() if r.get("operation") == o["op"] and B.UnitView.decl_name(r) == o["name"]]
        else:
            hits = [(r, a) for r, a in tagged[o["file"]].get(tag, []) if r.get("operation") == "call_stmt"]
            if o["kind"] == "use":
                hits = [(r, a) for r, a in hits if r.get("name") == "out" and len(a) == 2 and a[1] == o["name"]]
            else:
                hits = [(r, a) for r, a in hits if r.get("name") == o["name"]]
        hits = [r for r, a in hits if r.get("start_row") is not None and int(r["start_row"]) == o["line"]]
        if len(hits) != 1:
            res["faults"].append(f"{o['file']}: occurrence {tag} ({o['name']} at line {o['line'] + 1}) could not be joined to exactly one GIR row ({len(hits)})")
            continue
        res["join_ok"] += 1
        sid = int(hits[0]["stmt_id"])
        got = s2v[o["file"]].ids(sid, o["name"])
        res["judged"] += 1
        res["pairs"].add((o["site"], o["decl"]))
        where = f"{o['file']}: {o['name']} at line {o['line'] + 1}"
        if o["target"] is None:
            res["unresolved"] += 1
            bad = [g for g in got if g[0] is not None and g[0] >= 0]
            if not got or bad:
                res["failed_stmts"].setdefault(o["file"], set()).add(sid)
            if not got:
                res["fails"].append((f"python:{o['site']}->none:no-symbol-row", f"no s2space row for {where}", tag))
            elif bad:
                what = B.describe_choice(view, sid, bad, all_views=views)
                res["fails"].append((proj_signature(o, what), f"{where} has no visible declaration (NameError at run time) but lian binds it to "
                                     f"statement {bad[0][0]} ({what})", tag))
            continue
        if o["decl"].startswith("imported-"):
            res["imported"] += 1
        exp = proj_expected_ids(views, unit_of, module_of, meta, o)
        if exp is None:
            res["faults"].append(f"the declaration of {where} could not be located in the GIR")
            continue
        wrong = [g for g in got if g[0] not in exp]
        if not got or wrong:
            res["failed_stmts"].setdefault(o["file"], set()).add(sid)
        if not got:
            res["fails"].append((proj_signature(o, "no-symbol-row"), f"no s2space row for {where}", tag))
        elif wrong:
            what = B.describe_choice(view, sid, wrong, all_views=views)
            tdesc = meta["consts"][o["target"][1]] if o["target"][0] == "decl" else {"file": o["target"][1], "name": "(module)", "line": -1}
            res["fails"].append((proj_signature(o, what),
                                 f"{where} is bound by the language to {o['decl']}: {tdesc['name']} declared in {tdesc['file']} line "
                                 f"{tdesc['line'] + 1} (declaration ids {exp}); lian recorded symbol_id {wrong[0][0]} in unit {wrong[0][1]} ({what})", tag))
    return res


def batch_py_project(job):
    from lib import gen_bind
    tag, seeds, replay = job["tag"], job.get("seeds", []), job.get("replay")
    rng = random.Random(job.get("rseed", 0))
    res = new_result("python-project")
    res["imported"] = 0
    sc = common.scratch()
    items = []
    if replay:
        items.append((None, replay["files"], replay["meta"], replay.get("twin")))
    for seed in seeds:
        files, meta = gen_bind.gen_py_project(seed)
        items.append((seed, files, meta, None))
    for n, (seed, files, meta, twin) in enumerate(items):
        wd = os.path.join(sc, f"c05proj_{tag}_{n}")
        os.makedirs(wd, exist_ok=True)
        run = gen_bind.run_py_project(files, wd, calls=meta["funcs"])
        if run["status"] != "ok":
            res["discarded"] += 1
            continue
        p = proj_prepare(files, meta, run)
        p["seed"] = seed
        p["twin"] = twin
        if seed is not None and not p["faults"]:
            rn = proj_pick_rename(p, rng)
            if rn:
                tfiles, tmeta = gen_bind.gen_py_project(seed, {k: rn["new"] for k in rn["keys"]})
                wd2 = os.path.join(sc, f"c05proj_{tag}_{n}_r")
                os.makedirs(wd2, exist_ok=True)
                trun = gen_bind.run_py_project(tfiles, wd2, calls=tmeta["funcs"])
                tobs = {}
                for t_, k_, v_ in trun.get("outputs", []):
                    tobs.setdefault(t_, []).append([k_, v_])
                norm = lambda ob: {t_: [[k_, (v_.replace(rn["new"], rn["old"]) if isinstance(v_, str) else v_)] for k_, v_ in vs] for t_, vs in ob.items()}
                if trun["status"] == "ok" and norm(tobs) == norm(p["obs_norm"]):
                    rn["files"] = tfiles
                    rn["lines"] = {}
                    for k in rn["keys"]:
                        oc = meta["occ"][k]
                        rn["lines"].setdefault(oc["file"], []).append(oc["line"])
                    p["twin"] = rn
                else:
                    res["twin_rejected"] += 1
        views, s2v, s2rows, unit_of, module_of = run_p1(files, "python", f"{tag}_{n}")
        case = {"kind": "pyproj", "files": files, "meta": meta, "seed": seed, "twin": p["twin"]}
        if not views:
            res["fails"].append(("python:no-gir-for-unit", "the lang phase emitted no GIR for a generated project", case))
            continue
        res["programs"] += 1
        res["s2rows"] += sum(s.n for s in s2v.values())
        for f in p["faults"]:
            res["faults"].append(f)
        r = judge_project(p, views, s2v, unit_of, module_of)
        res["judged"] += r["judged"]
        res["unresolved"] += r["unresolved"]
        res["join_ok"] += r["join_ok"]
        res["imported"] += r["imported"]
        res["faults"] += r["faults"]
        res["pairs"] = sorted(set(map(tuple, res["pairs"])) | r["pairs"])
        seen = set()
        for sig, text, t_ in r["fails"]:
            if sig in seen:
                continue
            seen.add(sig)
            res["fails"].append((sig, text, dict(case, occurrence=t_)))
        if not res["samples"]:
            res["samples"].append({"lang": "python-project", "files": files, "occurrences_judged": r["judged"]})
        pair = meta.get("importer_pair")
        if pair and all(pf in views for pf in pair):
            # the same importer (same plan, same statements; only the unique tags/constants differ) under a file name that sorts
            # before and one that sorts after the modules it imports from: the analysis order must not show in the bindings
            sig, text, nrows = compare_twins("python-project", views[pair[0]], s2rows.get(pair[0], []), views[pair[1]],
                                             s2rows.get(pair[1], []), set(), None, None,
                                             skip_stmts=r["failed_stmts"].get(pair[0], ()), cross=(views, views),
                                             prefix="same-importer-under-two-file-names")
            res["importer_pairs"] = res.get("importer_pairs", 0) + 1
            res["importer_pair_rows"] = res.get("importer_pair_rows", 0) + nrows
            if sig:
                res["fails"].append((sig, f"{pair[0]} vs {pair[1]}: {text.replace('renaming None->None', 'the file name')}", case))
        if p["twin"]:
            tw = p["twin"]
            tviews, ts2v, ts2rows, tunit_of, _ = run_p1(tw["files"], "python", f"{tag}_{n}_r")
            res["rename_pairs"] += 1
            for path in files:
                if path not in views or path not in tviews:
                    continue
                sig, text, nrows = compare_twins("python-project", views[path], s2rows.get(path, []), tviews[path], ts2rows.get(path, []),
                                                 set(tw["lines"].get(path, [])), tw["old"], tw["new"],
                                                 skip_stmts=r["failed_stmts"].get(path, ()), cross=(views, tviews))
                res["rename_rows"] += nrows
                if sig:
                    res["fails"].append((sig, f"{path}: {text}", case))
                    break
    return res


# =====================================================================================================================
# Java / Go / C / PHP / TypeScript: alpha-renaming relation only
# =====================================================================================================================
def batch_template(job):
    from lib import gen_bind
    lang, idx = job["lang"], job["index"]
    res = new_result(lang)
    sc = common.scratch()
    if job.get("replay"):
        t = job["replay"]["template"]
        todo = [job["replay"]["placeholder"]]
    else:
        t = gen_bind.TEMPLATES[lang][idx]
        todo = list(t["renames"])
    base, lines = gen_bind.render_template(t)
    o0 = gen_bind.run_template(lang, t, base, os.path.join(sc, f"c05tc_{lang}_{idx}_base"))
    views, s2v, s2rows, unit_of, _ = run_p1({t["file"]: base}, lang, f"t_{lang}_{idx}_base")
    vA = views.get(t["file"])
    if vA is None or not vA.by_id:
        res["fails"].append((f"{lang}:no-gir-for-unit", "the lang phase emitted no GIR for a template program",
                             {"kind": "tmpl", "lang": lang, "template": t, "placeholder": todo[0] if todo else None}))
        return res
    res["programs"] += 1
    res["s2rows"] += s2v[t["file"]].n
    res["samples"].append({"lang": lang, "program": base, "renamed placeholders": todo})
    for k in todo:
        twin, _ = gen_bind.render_template(t, k)
        if o0 is not None:
            o1 = gen_bind.run_template(lang, t, twin, os.path.join(sc, f"c05tc_{lang}_{idx}_{k}"))
            if o1 != o0 or str(o0).startswith("!toolchain-error"):
                res["twin_rejected"] += 1
                res["faults"].append(f"{lang} template {t['name']}: the toolchain does not confirm that renaming {{{k}}} preserves behaviour ({o0!r} vs {o1!r})")
                continue
            res["validated"] = res.get("validated", 0) + 1
        tv, ts2v, ts2rows, _, _ = run_p1({t["file"]: twin}, lang, f"t_{lang}_{idx}_{k}")
        vB = tv.get(t["file"])
        case = {"kind": "tmpl", "lang": lang, "template": t, "placeholder": k, "files": {t["file"]: base}, "twin": {"text": twin}}
        if vB is None:
            res["fails"].append((f"{lang}:no-gir-for-unit", "the lang phase emitted no GIR for the renamed twin", case))
            continue
        old = t["vars"][k]
        sig, text, n = compare_twins(lang, vA, s2rows.get(t["file"], []), vB, ts2rows.get(t["file"], []), set(lines.get(k, [])),
                                     old, old + "_r", strip=t.get("sigil", ""))
        res["rename_pairs"] += 1
        res["rename_rows"] += n
        res["pairs"] = sorted(set(map(tuple, res["pairs"])) | {(f"template:{t['name']}", f"placeholder:{k}")})
        if sig:
            res["fails"].append((sig, f"{lang} template {t['name']}, placeholder {{{k}}}: {text}", case))
    return res


def meta_line(meta, key):
    return meta["occ"][key]["line"]


def new_result(lang):
    return {"lang": lang, "programs": 0, "discarded": 0, "judged": 0, "unresolved": 0, "pairs": [], "fails": [], "faults": [],
            "rename_pairs": 0, "rename_rows": 0, "twin_rejected": 0, "join_ok": 0, "oracle_faults": 0, "samples": [], "s2rows": 0}


def finish_program(res, lang, p, view, s2, case, judge):
    if view is None or not view.by_id:
        res["fails"].append((f"{lang}:no-gir-for-unit", "the lang phase emitted no GIR for a generated program", case))
        return
    res["programs"] += 1
    res["s2rows"] += s2.n
    for f in p["faults"]:
        res["faults"].append(f)
        res["oracle_faults"] += 1
    r = judge(p, view, s2)
    p["failed_stmts"] = r.get("failed_stmts", set())
    res["judged"] += r["judged"]
    res["unresolved"] += r["unresolved"]
    res["join_ok"] += r["join_ok"]
    res["faults"] += r["faults"]
    res["pairs"] = sorted(set(map(tuple, res["pairs"])) | r["pairs"])
    seen = set()
    for sig, text, tag in r["fails"]:
        if sig in seen:
            continue
        seen.add(sig)
        c = dict(case)
        c["occurrence"] = tag
        res["fails"].append((sig, text, c))
    if len(res["samples"]) < 1:
        res["samples"].append({"lang": lang, "program": p["text"] if "text" in p else p.get("files"),
                               "occurrences_judged": r["judged"]})


JOBS = {"py1": batch_py_single, "js1": batch_js_single, "pyproj": batch_py_project, "tmpl": batch_template}


def run_job(job):
    return JOBS[job["kind"]](job)


# =====================================================================================================================
def main():
    lianrun.prepare_zygote(warm=False)
    chk = common.Check(PROP, rule=(
        "G-bind programs (nested functions to depth 3, classes nested in classes to three levels with names colliding between outer "
        "class, inner class, enclosing function and module, read in inner-class methods, closures in them and inner class bodies; "
        "shadowing at every level, parameters shadowing globals, global/nonlocal, declarations inside if/else/for/while/try/except "
        "blocks; JavaScript let/const/var/function hoisting/closures/catch/loops, classes with static fields and pool-named methods; "
        "multi-file Python imports incl. package trees 3-4 levels deep with same-named modules and 1-4 leading dots, and same-name "
        "re-export chains (variable, function, class; 1 and 2 intermediate modules) read by one importer generated under a file name "
        "before and one after the re-exporting modules in path order); "
        "distinct_nontrivial = distinct (use-site scope kind -> declaration kind) pairs judged against the runtime-revealed binding"))
    thorough = chk.tier == "thorough"
    chk.max_samples = 8
    rng = random.Random(chk.seed)
    rp = os.environ.get("VERIF_REPLAY")
    jobs = []
    if rp:
        with open(rp) as f:
            case = json.load(f)["case"]
        with open(rp) as f:
            rsig = json.load(f).get("signature", "")
        if "job" in case and "files" not in case and "template" not in case:
            jobs.append(dict(case["job"]))            # a batch that died: the very same batch again
        elif case.get("kind") == "py1" and case.get("batch") and rsig.startswith("rename:"):
            jobs.append({"kind": "py1", "tag": "replaybatch", "seeds": case["batch"]["seeds"], "rseed": case["batch"]["rseed"],
                         "only_seed": case["seed"]})
        else:
            jobs.append({"kind": case["kind"], "tag": "replay", "replay": case, "lang": case.get("lang"), "index": 0})
    else:
        base = rng.randrange(1 << 28)
        npy = 100 if not thorough else 2600
        for k in range(0, npy, PY_BATCH):
            jobs.append({"kind": "py1", "tag": f"py{k // PY_BATCH}", "seeds": [base + i for i in range(k, min(npy, k + PY_BATCH))],
                         "rseed": base + k})
        from lib import gen_bind as _gb
        for lang_, ts_ in _gb.TEMPLATES.items():
            for i_ in range(len(ts_)):
                jobs.append({"kind": "tmpl", "tag": f"t_{lang_}_{i_}", "lang": lang_, "index": i_})
        nproj = 50 if not thorough else 800
        for k in range(0, nproj, 4):
            jobs.append({"kind": "pyproj", "tag": f"pp{k // 4}", "seeds": [base + 104729 + i for i in range(k, min(nproj, k + 4))], "rseed": base + k})
        njs = 50 if not thorough else 1400
        for k in range(0, njs, JS_BATCH):
            jobs.append({"kind": "js1", "tag": f"js{k // JS_BATCH}", "seeds": [base + 7919 + i for i in range(k, min(njs, k + JS_BATCH))],
                         "rseed": base + k})
    pairs = set()
    langs_seen = {}
    def results():
        """Every job once; a job that died is run a second time in a fresh fork: a crash that repeats is reported, a crash that
        does not repeat (seen once under a load average of 150) is recorded in the evidence and the retry's result is used."""
        died = []
        for r in forkpool.run_jobs(run_job, jobs, timeout=600 if not thorough else 1500, tag="c05"):
            if r.status in ("exception", "exit", "signal"):
                died.append(r)
            else:
                yield r
        if died:
            first = {id(r.item): r for r in died}
            for r in forkpool.run_jobs(run_job, [r.item for r in died], timeout=600 if not thorough else 1500, tag="c05retry"):
                if r.status == "ok":
                    f = first[id(r.item)]
                    chk.count("jobs that died once and ran clean when repeated (not reproducible; first error kept in the evidence)")
                    chk.extra.setdefault("unreproducible_crashes", []).append(
                        {"job": r.item["tag"], "status": f.status, "error": str(f.value)[-1500:] if f.value else ""})
                yield r

    for r in results():
        if r.status != "ok":
            if r.status in ("exception", "exit", "signal"):
                tb = r.value[2][-1800:] if r.status == "exception" else str(r.value)
                chk.fail(f"analysis-died:{r.item['kind']}:{r.value[0] if r.status == 'exception' else r.status}",
                         f"lang+P1 over generated programs ended with {r.status} (twice): {tb} {r.log_text(600)}",
                         {"kind": r.item["kind"], "job": {k: v for k, v in r.item.items() if k != 'replay'}})
            else:
                chk.note_inconclusive(f"job {r.item['tag']}: {r.status}")
            continue
        v = r.value
        lang = v["lang"]
        chk.evaluated(v["programs"])
        chk.count(f"{lang}: programs analysed", v["programs"])
        if v["judged"] or lang in ("python", "javascript", "python-project"):
            chk.count(f"{lang}: {JUDGED}", v["judged"])
            chk.count(f"{lang}: {UNRES}", v["unresolved"])
            chk.count(f"{lang}: occurrences joined to a GIR row by tag/constant, line and name", v["join_ok"])
        chk.count(f"{lang}: rename pairs compared", v["rename_pairs"])
        chk.count(f"{lang}: s2space symbol rows compared across rename pairs", v["rename_rows"])
        chk.count(f"{lang}: s2space symbol rows read", v["s2rows"])
        if "validated" in v:
            chk.count(f"{lang}: rename twins confirmed behaviour-preserving by the language's own toolchain", v["validated"])
        if "importer_pairs" in v:
            chk.count(f"{lang}: importer pairs compared (same importer under a file name before and after its re-exporting modules)", v["importer_pairs"])
            chk.count(f"{lang}: s2space symbol rows compared across importer pairs", v["importer_pair_rows"])
        if "imported" in v:
            chk.count(f"{lang}: occurrences bound to a declaration in another file (imported symbols and modules)", v["imported"])
        chk.count("generated programs discarded (not total under the runtime)", v["discarded"])
        chk.count("rename twins rejected by the runtime self-check", v["twin_rejected"])
        chk.count("oracle disagreements / join failures (harness faults)", len(v["faults"]))
        chk.count("executed occurrences whose value identified no declaration (e.g. var read before its assignment; not judged)", v.get("unclassified", 0))
        for f in v["faults"][:3]:
            chk.note_inconclusive("harness fault: " + f)
        for pr in v["pairs"]:
            pairs.add((lang,) + tuple(pr))
        for s in v["samples"]:
            if langs_seen.get(lang, 0) < 1:
                chk.sample(s)
                langs_seen[lang] = 1
        for sig, desc, case in v["fails"]:
            chk.fail(sig, desc, case)
    for p in pairs:
        chk.nontrivial_case(p)
    chk.extra["scope_kind_to_declaration_kind_pairs"] = sorted("%s: %s -> %s" % p for p in pairs)
    chk.count("distinct (language, use-site scope kind, declaration kind) pairs judged", len(pairs))
    if not rp:
        k = 1 if not thorough else 18
        J, U = JUDGED, UNRES
        chk.require(f"python: {J}", 3000 * k)
        chk.require(f"python: {U}", 300 * k)
        chk.require("python: rename pairs compared", 60 * k)
        chk.require(f"javascript: {J}", 2000 * k)
        chk.require(f"javascript: {U}", 200 * k)
        chk.require("javascript: rename pairs compared", 30 * k)
        chk.require(f"python-project: {J}", 600 * (k if k == 1 else 12))
        chk.require("python-project: occurrences bound to a declaration in another file (imported symbols and modules)", 250 * (k if k == 1 else 12))
        chk.require(f"python-project: {U}", 100 * (k if k == 1 else 12))
        chk.require("python-project: rename pairs compared", 10 * (k if k == 1 else 12))
        chk.require("python-project: importer pairs compared (same importer under a file name before and after its re-exporting modules)",
                    40 * (k if k == 1 else 12))
        for lang_ in ("java", "go", "c", "php", "typescript"):
            chk.require(f"{lang_}: rename pairs compared", 3)
        for lang_ in ("java", "c", "typescript"):
            chk.require(f"{lang_}: rename twins confirmed behaviour-preserving by the language's own toolchain", 3)
        chk.require("distinct (language, use-site scope kind, declaration kind) pairs judged", 150)
    else:
        chk.nontrivial_case("replay-a")
        chk.nontrivial_case("replay-b")
    chk.extra["programs_per_language"] = {k[:-len(": programs analysed")]: v for k, v in chk.counters.items() if k.endswith(": programs analysed")}
    chk.assumptions += [
        "an occurrence is judged only when executed and when the runtime value identifies exactly one declaration; for Python the "
        "symtable classification must agree with it",
        "comparison is at the level 'which scope's declaration' (lian hoists one declaration row per scope and name), not which assignment",
        "Python class-body reads are written as field assignments `uN = name` (lian's frontend keeps only assignments and definitions of a "
        "class body); dotted plain imports (`import a.b`) are not generated (lian rewrites them textually, a C12 matter)",
        "JavaScript programs run in sloppy mode in a fresh vm context; a keyword-less write is bound to whatever its probe read (emitted "
        "right before it) is bound to, or creates an implicit global when that read throws ReferenceError",
        "multi-file JavaScript is not exercised: the frontend resolves neither ES-module imports nor require() (every imported name is "
        "bound to its own import statement), so there is no cross-file binding to judge",
        "Java/Go/C/PHP/TypeScript are judged by the alpha-renaming relation only, on hand-written shadowing templates; Java, C and "
        "TypeScript twins are confirmed behaviour-preserving by javac+java / gcc / node, Go and PHP twins are not (no toolchain here)",
        "the alpha-renaming comparison identifies a declaration by (position of its enclosing block, operation, declared name) and skips "
        "statements whose binding already failed the first clause (reported there)",
    ]
    sys.exit(chk.finish())


if __name__ == "__main__":
    main()
