"""C01 — lowering Python to GIR preserves behaviour.

N generated programs are written as N files of one project, lowered by ONE real `lang` run; the emitted GIR is read
back from frontend/gir.bundle*, executed by the reference executor (lib/girvm.py) for several argument vectors, and
the outputs (values passed to out(...) + entry return value) are compared with CPython running the source."""
import ast
import json
import os
import random
import sys

from lib import common, forkpool, lianrun

PROP = "C01"
BATCH = 40


# ---------------------------------------------------------------- source-level compensations (classification only)
class _Unchain(ast.NodeTransformer):
    def visit_Compare(self, node):
        self.generic_visit(node)
        if len(node.ops) < 2:
            return node
        parts, left = [], node.left
        for op, right in zip(node.ops, node.comparators):
            parts.append(ast.Compare(left=left, ops=[op], comparators=[right]))
            left = right
        return ast.BoolOp(op=ast.And(), values=parts)


def rewrite_unchain(src):
    return ast.unparse(ast.fix_missing_locations(_Unchain().visit(ast.parse(src)))) + "\n"


SOURCE_REWRITES = {"chained-compare-drops-middle-operand": rewrite_unchain}
VM_SWITCHES = ["while-continue-recompute"]


def coverage_monitor():
    """PY_START coverage of the Python frontend's handlers (which lowering code the workload reached)."""
    seen = set()
    mon = sys.monitoring
    tool = mon.COVERAGE_ID
    try:
        mon.use_tool_id(tool, "verif-c01")
    except ValueError:
        return seen, lambda: None
    suffixes = ("lang/python_parser.py", "lang/common_parser.py", "default_event_handlers/add_var_decl.py",
                "default_event_handlers/basic.py", "lang/lang_analysis.py")

    def on_start(code, offset):
        fn = code.co_filename
        if fn.endswith(suffixes):
            seen.add(fn.rsplit("/", 1)[-1] + ":" + code.co_qualname)
        return mon.DISABLE
    mon.register_callback(tool, mon.events.PY_START, on_start)
    mon.set_events(tool, mon.events.PY_START)

    def stop():
        mon.set_events(tool, 0)
        mon.free_tool_id(tool)
    return seen, stop


def lower_project(files, tag):
    """files: {name: text}. One real `lang` run. Returns (rows grouped per file name, error or None)."""
    import pandas as pd
    sc = common.scratch()
    src = os.path.join(sc, f"c01src_{tag}")
    os.makedirs(src, exist_ok=True)
    for n, t in files.items():
        with open(os.path.join(src, n), "w") as f:
            f.write(t)
    st = lianrun.write_settings(os.path.join(sc, f"c01st_{tag}"))
    ws = os.path.join(sc, f"c01ws_{tag}")
    lianrun.run_lian(lianrun.lian_argv("lang", "python", [src], ws, st, ["-q"]), stage="lang")
    wsd = lianrun.ws_dir(ws)
    df = lianrun.read_bundles(wsd, "frontend", "gir")
    ms = pd.read_feather(os.path.join(wsd, "frontend", "module_symbols"))
    unit_name = {}
    for r in lianrun.rows_as_dicts(ms):
        if r.get("unit_id") is not None and not r.get("is_extern"):
            unit_name[int(r["unit_id"])] = os.path.basename(r["unit_path"])
    rows = lianrun.rows_as_dicts(df) if df is not None else []
    per = {}
    for r in rows:
        u = int(r.get("unit_id", -1))
        if u in unit_name:
            per.setdefault(unit_name[u], []).append(r)
    return per


def run_vm(rows, args, switches=()):
    from lib import girvm
    units = girvm.load_units(rows)
    vm = girvm.VM(units, "python", switches=switches)
    try:
        r = vm.run_entry(units[0], "main", list(args))
        return {"status": "ok", "outputs": [list(o) for o in vm.outputs], "ret": vm.show(r)}
    except girvm.VMOpaque as e:
        return {"status": "opaque", "error": str(e), "outputs": [list(o) for o in vm.outputs]}
    except girvm.VMBudget as e:
        return {"status": "budget", "error": str(e), "outputs": [list(o) for o in vm.outputs]}
    except girvm.VMError as e:
        return {"status": "vmerror", "error": str(e), "outputs": [list(o) for o in vm.outputs]}
    except girvm.GirThrow as e:
        return {"status": "throw", "error": "uncaught throw", "outputs": [list(o) for o in vm.outputs]}
    except RecursionError:
        return {"status": "vmerror", "error": "RecursionError in VM", "outputs": []}


def same(py, vm):
    return vm["status"] == "ok" and [list(o) for o in py["outputs"]] == vm["outputs"] and py["ret"] == vm["ret"]


def divergence_kind(py, vm):
    if vm["status"] != "ok":
        return vm["status"]
    po = [list(o) for o in py["outputs"]]
    if po != vm["outputs"]:
        if len(po) != len(vm["outputs"]):
            return "output-count"
        return "output-value"
    return "return-value"


def judge_batch(job):
    """Child: lower one batch, execute, compare. Returns plain data."""
    from lib import gen_py, pyoracle
    tag, programs = job            # programs: [(name, src, features)]
    seen, stop = coverage_monitor()
    try:
        per = lower_project({n: s for n, s, _ in programs}, tag)
    finally:
        stop()
    res = {"handlers": sorted(seen), "cases": [], "dropped": 0, "executions": 0, "stmts": 0}
    for name, src, feats in programs:
        rows = per.get(name)
        pys = []
        for a in gen_py.ARG_VECTORS[:3]:
            py = pyoracle.run_cpython(src, "main", a)
            if py["status"] == "ok":
                pys.append((a, py))
        if not pys:
            res["dropped"] += 1
            continue
        if rows is None:
            res["cases"].append({"name": name, "src": src, "features": feats, "ok": False, "kind": "no-gir-for-unit",
                                 "detail": "the lang phase emitted no GIR for this file", "args": None, "mechanism": None})
            continue
        res["stmts"] += len(rows)
        bad = None
        for a, py in pys:
            vm = run_vm(rows, a)
            res["executions"] += 1
            if not same(py, vm):
                bad = (a, py, vm)
                break
        if bad is None:
            res["cases"].append({"name": name, "ok": True, "features": feats, "nout": sum(len(p["outputs"]) for _, p in pys)})
            continue
        a, py, vm = bad
        # classification: which single compensation makes the WHOLE case pass
        mech = None
        for sw in VM_SWITCHES:
            if all(same(p, run_vm(rows, aa, switches=(sw,))) for aa, p in pys):
                mech = sw
                break
        res["cases"].append({"name": name, "src": src, "features": feats, "ok": False, "kind": divergence_kind(py, vm),
                             "args": list(a), "py": py, "vm": vm, "mechanism": mech, "needs_rewrite": mech is None})
    return res


def classify_by_rewrite(job):
    """Child: for failing cases that no VM switch explains, try each source rewrite (must be CPython-equivalent) —
    alone and combined with each VM switch; the case is attributed to the mechanism iff it then passes completely."""
    from lib import gen_py, pyoracle
    tag, cases = job
    out = {}
    for rname, rw in SOURCE_REWRITES.items():
        files = {}
        for c in cases:
            try:
                new = rw(c["src"])
            except Exception:
                continue
            if new.strip() == ast.unparse(ast.parse(c["src"])).strip():
                continue
            files[c["name"]] = new
        if not files:
            continue
        per = lower_project(files, f"{tag}_{rname[:8]}")
        for c in cases:
            if c["name"] not in files or c["name"] in out:
                continue
            new = files[c["name"]]
            rows = per.get(c["name"])
            if rows is None:
                continue
            for sws in [()] + [(s,) for s in VM_SWITCHES]:
                ok = True
                n = 0
                for a in gen_py.ARG_VECTORS[:3]:
                    p0 = pyoracle.run_cpython(c["src"], "main", a)
                    p1 = pyoracle.run_cpython(new, "main", a)
                    if p0["status"] != "ok":
                        continue
                    if p1["status"] != "ok" or p0["outputs"] != p1["outputs"] or p0["ret"] != p1["ret"]:
                        ok = False      # rewrite not equivalent under CPython: cannot be used
                        break
                    n += 1
                    if not same(p0, run_vm(rows, a, switches=sws)):
                        ok = False
                        break
                if ok and n:
                    out[c["name"]] = "+".join([rname] + list(sws))
                    break
    return out


REQUIRED_HANDLERS = ["python_parser.py:Parser." + h for h in (
    "assignment", "attribute", "binary_comparison_operator", "boolean_operator", "break_statement", "call_expression",
    "class_definition", "conditional_expression", "continue_statement", "dictionary", "for_statement",
    "function_definition", "global_statement", "if_statement", "list_expression", "nonlocal_statement", "not_operator",
    "parse_alternative", "parse_slice", "return_statement", "subscript", "tuple_expression", "unary_operator",
    "while_statement")]


def main():
    lianrun.prepare_zygote(warm=False)
    from lib import gen_py
    chk = common.Check(PROP, rule=(
        "G-py programs (grammar over the constructs of the quantifier), lowered by real `lang` runs, executed by girvm "
        "for 3 argument vectors each and compared with CPython; distinct_nontrivial = distinct programs that produced "
        ">= 1 output event under CPython and whose GIR was executed to completion at least once"))
    thorough = chk.tier == "thorough"
    rp = os.environ.get("VERIF_REPLAY")
    if rp:
        with open(rp) as f:
            case = json.load(f)["case"]
        programs = [("replay_case.py", case["src"], case.get("features", []))]
        batches = [("replay", programs)]
    else:
        n = 800 if not thorough else 8000
        rng = random.Random(chk.seed)
        base = rng.randrange(1 << 30)
        programs = []
        for i in range(n):
            src, feats = gen_py.generate(base + i, max_stmts=rng.choice([12, 20, 28, 40]))
            programs.append((f"p{i:05d}.py", src, feats))
        batches = [(f"b{k}", programs[k:k + BATCH]) for k in range(0, n, BATCH)]
    handlers = set()
    feature_cov = {}
    failing = []
    for r in forkpool.run_jobs(judge_batch, batches, timeout=900, tag="c01"):
        if r.status != "ok":
            if r.status in ("exception", "exit", "signal"):
                # the lang phase died on a generated valid program: that breaks "emits GIR" for the whole batch
                chk.fail(f"lang-phase-died:{r.value[0] if r.status == 'exception' else r.status}",
                         f"lang run over a batch of generated programs ended with {r.status}: {str(r.value)[:300]} {r.log_text(500)}",
                         {"batch": r.item[0], "programs": [(n, s) for n, s, _ in r.item[1]][:5]})
            else:
                chk.note_inconclusive(f"batch {r.item[0]}: {r.status}")
            continue
        v = r.value
        handlers.update(v["handlers"])
        chk.count("programs dropped (CPython raised / budget on all vectors)", v["dropped"])
        chk.count("VM executions compared with CPython", v["executions"])
        chk.count("GIR rows executed-from", v["stmts"])
        chk.evaluated(v["executions"])
        for c in v["cases"]:
            for f in c.get("features", []):
                feature_cov[f] = feature_cov.get(f, 0) + 1
            if c["ok"]:
                if c["nout"] > 0:
                    chk.nontrivial_case(c["name"])
                chk.count("programs whose GIR reproduced CPython's outputs", 1)
            else:
                failing.append(c)
    # second pass: source-level compensations for cases no VM switch explains
    need = [c for c in failing if c.get("needs_rewrite")]
    if need:
        jobs = [(f"rw{k}", need[k:k + BATCH]) for k in range(0, len(need), BATCH)]
        for r in forkpool.run_jobs(classify_by_rewrite, jobs, timeout=900, tag="c01rw"):
            if r.status == "ok":
                for c in need:
                    if c["name"] in r.value:
                        c["mechanism"] = r.value[c["name"]]
    for c in failing:
        chk.count("programs whose GIR diverged from CPython", 1)
        mech = c.get("mechanism")
        if mech:
            sig = mech
        else:
            sig = f"unexplained:{c['kind']}"
        detail = c.get("detail") or (f"args {c['args']}: CPython outputs {c['py']['outputs'][:6]} ret {c['py']['ret']}; "
                                     f"GIR execution {c['vm']['status']} {c['vm'].get('error', '')} outputs {c['vm']['outputs'][:6]} ret {c['vm'].get('ret')}")
        chk.fail(sig, detail, {"src": c["src"], "features": c["features"], "args": c["args"], "kind": c["kind"]})
    chk.extra["frontend_handlers_reached"] = sorted(handlers)
    chk.extra["feature_coverage"] = dict(sorted(feature_cov.items()))
    chk.count("distinct frontend functions reached (PY_START)", len(handlers))
    chk.count("distinct generator features exercised", len(feature_cov))
    if not rp:
        missing = [h for h in REQUIRED_HANDLERS if h not in handlers]
        if missing:
            chk.note_inconclusive(f"required frontend handlers never reached: {missing}")
        chk.require("VM executions compared with CPython", 300)
        chk.require("programs whose GIR reproduced CPython's outputs", 50)
    else:
        chk.nontrivial_case("replay-a"); chk.nontrivial_case("replay-b")
    if programs:
        chk.sample({"program": programs[0][1], "features": programs[0][2], "argument_vectors": [list(a) for a in gen_py.ARG_VECTORS[:3]]})
    chk.assumptions += [
        "girvm (lib/girvm.py) implements the documented GIR instruction meaning; its agreement with CPython on the passing programs is itself the evidence of its validity",
        "and/or are eager in GIR, so generated boolean operands are side-effect free and non-raising (workload restriction)",
        "programs on which CPython itself raises or exceeds the step budget are dropped and counted",
    ]
    sys.exit(chk.finish())


if __name__ == "__main__":
    main()
