"""C11 — every reported taint flow is justified by rules and by a data dependence.

Workload: G-flow programs in the negative-heavy profile (value at another argument position, value only in the
receiver / under another key, unrelated variable / field / object / container, analysed callee that drops its argument,
names no rule mentions, rules restricted to another line / unit / language), each analysed by full `run`s under three
(thorough: four) rule sets: an empty one (no sources, no sinks, or neither — the always-loaded *_from_code.yaml rules
remain, as in every configuration), the minimal one and the extended one (additional rules that match nothing, and
additional rules that match further sites).

Oracles over taint/taint_data_flow.json:
 (i)   rule restatement (lib/monitors/taint_shim.find_sites): the reported source statement must be a statement some
       configured source rule designates (operation kind, name / access path, language, unit name, line), likewise the
       sink statement; the rules of source_from_code.yaml / sink_from_code.yaml are restated too (unit_path must occur in
       the unit's path — the workload's paths contain none of them, which is asserted);
 (ii)  dependence closure (lib/gen_flow.Closure): the sink's rule-designated expression must depend on the source
       statement in the flow-/context-insensitive, name- / field-name- / container-based closure of the program; unknown
       callees depend on all arguments and their receiver, analysed callees only on what they really return;
 (iii) monotonicity: flows(minimal) must be a subset of flows(extended); an empty rule set yields no flow.
The closure is validated on every program: each flow CPython really exhibits must lie inside it (else harness fault)."""
import json
import os
import random
import sys

from lib import common, forkpool, lianrun
from checks import c10

PROP = "C11"
FROM_CODE = None
EMPTY_LEVELS = ("no-sources", "no-sinks", "no-rules")
ADDED_KINDS = [("source", "call_stmt"), ("source", "object_call"), ("source", "parameter_decl"), ("source", "field_read"),
               ("sink", "call_stmt"), ("sink", "object_call"), ("sink", "field_write"), ("sink", "record_write")]


def ruleset_for(case, level):
    """level: a gen_flow level, or 'minimal+<side>:<operation>' = minimal plus the extended-only rules of one kind."""
    from lib import gen_flow
    from lib.monitors import taint_shim as ts
    if not level.startswith("minimal+"):
        return gen_flow.rules_for(case, level)
    side, op = level[len("minimal+"):].split(":")
    mn = gen_flow.rules_for(case, "minimal")
    have = {json.dumps(r.to_json(), sort_keys=True) for r in mn.rules}
    ex = gen_flow.rules_for(case, "extended")
    # the extended order is kept: added rules may precede the rules of the minimal set
    return ts.RuleSet([r for r in ex.rules if json.dumps(r.to_json(), sort_keys=True) in have
                       or (r.side == side and r.operation.startswith(op))])


def why_not_site(case, rs, side, file, line, op):
    from lib.monitors import taint_shim as ts
    if not (rs.sources() if side == "source" else rs.sinks()):
        return "flow-under-empty-rules"
    for relax in ("line", "unit", "path", "language"):
        sites, _ = ts.find_sites(case["files"], rs, relax=(relax,))
        if any(s.side == side and s.file == file and s.line == line for s in sites):
            return f"rule-restriction-ignored:{relax}"
    return f"{side}-matches-no-rule:{op}"


def judge(item):
    """item: (tag, case, level).  One lian run; every reported flow is judged.  Returns plain data."""
    import ast
    from lib import gen_flow
    from lib.monitors import taint_shim as ts
    tag, case, level = item[:3]
    compensate = item[3] if len(item) > 3 else ()
    rs = ruleset_for(case, level)
    sites, _ = ts.find_sites(case["files"], rs)
    src_sites = {}
    snk_sites = {}
    for s in sites:
        (src_sites if s.side == "source" else snk_sites).setdefault((s.file, s.line), []).append(s)
    dyn = ts.run_dynamic(case["files"], case["main"], [tuple(e) for e in case["entries"]], sites)
    lres = c10.run_lian_case(case, rs, tag, compensate=compensate)
    proj_path = os.path.join(common.scratch(), f"flow_{tag}", "proj")
    res = {"tag": tag, "level": level, "status": lres["status"], "detail": lres.get("detail"), "raw_flows": lres["raw"],
           "reported": sorted(set(lres["flows"])), "fails": [], "judged": 0, "justified": 0, "dynamic": len(dyn.pairs),
           "dynamic_outside_closure": [], "closure_supported": True, "from_code_path_clash": False, "allowed_imprecise": 0,
           "n_rules": [len(rs.sources()), len(rs.sinks())], "why_counts": {}}
    if FROM_CODE is not None:
        res["from_code_path_clash"] = any(FROM_CODE.may_match_path(os.path.join(proj_path, fn)) for fn in case["files"])
    all_src_sites = [s for s in sites if s.side == "source"]
    clo = {"": gen_flow.Closure(case["files"], all_src_sites)}
    res["closure_supported"] = clo[""].supported

    def closure(relax):
        k = ",".join(relax)
        if k not in clo:
            clo[k] = gen_flow.Closure(case["files"], all_src_sites, relax=relax)
        return clo[k]

    def depends(c, ssite_list, src_loc, all_positions=False):
        for s in ssite_list:
            exprs = [e for _, e in s.exprs]
            if all_positions:
                n = s.node
                if isinstance(n, ast.Call):
                    exprs = list(n.args) + [k.value for k in n.keywords]
                    if isinstance(n.func, ast.Attribute):
                        exprs.append(n.func.value)
                elif isinstance(n, ast.Attribute):          # field write: the receiver
                    exprs = exprs + [n.value]
                elif isinstance(n, ast.Dict):
                    exprs = list(n.values)
            for e in exprs:
                if src_loc in c.expr_reach(s.file, e):
                    return True
        return False
    # the closure must contain every real flow
    for (sf, sl, kf, kl) in dyn.pairs:
        if not depends(clo[""], snk_sites.get((kf, kl), []), f"src:{sf}:{sl}"):
            res["dynamic_outside_closure"].append([sf, sl, kf, kl])
    later = later_call_sites(case["files"])
    res["reported_at_later_call"] = [list(pr) for pr in res["reported"] if (pr[2], pr[3]) in later]
    dynset = set(dyn.pairs)
    for pr in res["reported"]:
        sf, sl, kf, kl = pr
        res["judged"] += 1
        txt = lres.get("texts", {}).get(pr, ("", "", None, None))
        why = None
        if (sf, sl) not in src_sites:
            why = why_not_site(case, rs, "source", sf, sl, txt[2])
        elif (kf, kl) not in snk_sites:
            why = why_not_site(case, rs, "sink", kf, kl, txt[3])
        elif res["closure_supported"]:
            loc = f"src:{sf}:{sl}"
            ss = snk_sites[(kf, kl)]
            if depends(clo[""], ss, loc):
                res["justified"] += 1
                if tuple(pr) not in dynset:
                    res["allowed_imprecise"] += 1
            else:
                kind = ss[0].kind
                # smallest set of relaxations that would justify the flow; each one is a mechanism of its own
                found = None
                # explanations that keep the rule-designated expression come first (that is how lian computes a sink's tag);
                # "another operand / the receiver counts" is the last resort
                for relax in (("callee",), ("field",), ("callee", "field"), ("positions",), ("positions", "callee"),
                              ("positions", "field"), ("positions", "callee", "field")):
                    c = closure(tuple(r for r in relax if r != "positions"))
                    if depends(c, ss, loc, all_positions="positions" in relax):
                        found = relax
                        break
                whys = []
                for r in found or ():
                    if r == "callee":
                        whys.append("analysed-callee-drops-value")
                    elif r == "field":
                        whys.append("unrelated-object-or-field")
                    else:
                        w = {"call": "wrong-argument-position", "mcall": "wrong-argument-position",
                             "fwrite": "wrong-argument-position:field-write-receiver",
                             "rwrite": "wrong-argument-position:record-write-other-key"}[kind]
                        c = closure(tuple(x for x in found if x != "positions"))
                        if kind == "mcall" and not any(loc in c.expr_reach(kf, a) for a in ss[0].node.args):
                            w = "wrong-argument-position:method-call-receiver"
                        if FROM_CODE is not None and \
                                FROM_CODE.matches("sink", os.path.join(proj_path, kf), kl, txt[1] or "", ignore_unit=True):
                            # sink_from_code.yaml has a rule for this line whose symbol occurs in the statement text: lian applies
                            # it to every file when it computes the sink's tag, and then every operand counts
                            w = w + "|maybe:from-code-sink-rule"     # decided by a compensated re-run
                        whys.append(w)
                why = whys if whys else "no-dependence"
        for why in ([why] if isinstance(why, str) else (why or [])):
            res["why_counts"][why.split("|maybe:")[0]] = res["why_counts"].get(why.split("|maybe:")[0], 0) + 1
            snk_g = next((g for g in case["gadgets"] if g.get("snk_at") and tuple(g["snk_at"]) == (kf, kl)), None)
            src_g = next((g for g in case["gadgets"] if g.get("src_at") and tuple(g["src_at"]) == (sf, sl)), None)
            res["fails"].append(("unjustified:" + why,
                                 f"reported flow {sf}:{sl} -> {kf}:{kl} under rule set '{level}' ({txt[0]!s:.60} -> {txt[1]!s:.60}); "
                                 f"sink gadget: {gadget_brief(snk_g)}; source gadget: {gadget_brief(src_g)}",
                                 {"program": case, "level": level, "flow": list(pr)}))
    c10.cleanup(tag)
    return res


def later_call_sites(files):
    """(file, line) of every call `name(...)` that is the second or later call of that plain name inside one function / method /
    module body (lian matches such calls of an unresolved function by the statement's name, not through a state)."""
    import ast
    out = set()
    for fn, text in files.items():
        tree = ast.parse(text)
        scopes = [tree] + [n for n in ast.walk(tree) if isinstance(n, (ast.FunctionDef, ast.AsyncFunctionDef))]
        for sc in scopes:
            calls = []
            stack = list(ast.iter_child_nodes(sc))
            while stack:
                n = stack.pop()
                if isinstance(n, (ast.FunctionDef, ast.AsyncFunctionDef, ast.ClassDef)) and sc is not n:
                    if isinstance(n, ast.ClassDef):
                        continue
                    continue
                if isinstance(n, ast.Call) and isinstance(n.func, ast.Name):
                    calls.append((n.lineno, n.col_offset, n.func.id))
                stack.extend(ast.iter_child_nodes(n))
            seen = set()
            for ln, col, name in sorted(calls):
                if name in seen:
                    out.add((fn, ln))
                seen.add(name)
    return out


def gadget_brief(g):
    if g is None:
        return "none"
    return (f"#{g['gid']} {g['sk']}->{g['tk']}{g['pos']} chain {c10.chain_text(g['chain'])} twist {g['twist']} "
            f"rules {g['src_mode']}/{g['snk_mode']} place {g['place']}")


def main():
    global FROM_CODE
    from lib import gen_flow
    from lib.monitors import taint_shim as ts
    chk = common.Check(PROP, rule=(
        "G-flow programs, negative-heavy profile, each analysed under an empty, the minimal and the extended rule set; every "
        "reported flow judged by rule restatement + loose dependence closure; run pairs compared for monotonicity; "
        "distinct_nontrivial = distinct (program, rule set) runs in which lian reported >= 1 flow that was judged"))
    c10.load_proposed(chk, PROP)
    thorough = chk.tier == "thorough"
    rp = os.environ.get("VERIF_REPLAY")
    lianrun.prepare_zygote()
    FROM_CODE = ts.FromCodeRules(common.REPO)
    rng = random.Random(chk.seed)
    jobs = []
    cases = {}
    if rp:
        with open(rp) as f:
            rc = json.load(f)["case"]
        cases["replay"] = rc["program"]
        for lvl in rc.get("levels") or [rc["level"]]:
            jobs.append((f"replay_{lvl.replace(':', '_').replace('+', '_')}", rc["program"], lvl))
    else:
        n_prog = int(os.environ.get("VERIF_N") or (150 if not thorough else 3000))
        base = rng.randrange(1 << 30)
        k = rng.randrange(220)
        for i in range(n_prog):
            n_g = rng.choice([1, 2, 3, 4, 4, 5, 6])
            case = gen_flow.generate(base + i, i, n_g, "c11", k0=k)
            k += n_g
            cases[i] = case
            levels = [EMPTY_LEVELS[i % 3], "minimal", "extended"]
            if thorough:
                levels.append(EMPTY_LEVELS[(i + 1) % 3])
            for lvl in levels:
                jobs.append((f"g{i}_{lvl}", case, lvl))
    timeout = 300 if not thorough else 900
    reported = {}      # (program key, level) -> set of flows
    neg_kinds = {}
    samples = 0

    def consume(r):
        nonlocal samples
        tag, case, level = r.item
        if r.status != "ok":
            if r.status in ("exception", "exit", "signal"):
                chk.fail(f"harness-or-analysis-died:{r.status}:{(r.value[0] if r.status == 'exception' else r.value)}",
                         f"job {tag} ended with {r.status}: {str(r.value)[:300]} {r.log_text(500)}", {"program": case, "level": level})
            else:
                chk.note_inconclusive(f"run {tag}: {r.status}")
            return None
        v = r.value
        chk.evaluated()
        chk.count("full lian runs", 1)
        lvl_class = level if not level.startswith("minimal+") else "minimal+one added rule kind"
        chk.count(f"runs under rule set '{lvl_class}'", 1)
        chk.count("flows reported by lian (rows of taint_data_flow.json)", v["raw_flows"])
        chk.count("distinct reported (source stmt, sink stmt) flows judged", v["judged"])
        chk.count("reported flows justified (rule match + inside the closure)", v["justified"])
        chk.count("justified flows that CPython does not exhibit (allowed imprecision)", v["allowed_imprecise"])
        chk.count("dynamic flows checked to lie inside the closure", v["dynamic"])
        if v["dynamic_outside_closure"]:
            chk.count("dynamic flows outside the closure (harness fault)", len(v["dynamic_outside_closure"]))
            chk.note_inconclusive(f"closure does not contain a real flow in {tag}: {v['dynamic_outside_closure'][:2]} (harness fault)")
        if not v["closure_supported"]:
            chk.count("programs with constructs the closure does not model (dependence not judged)", 1)
        if v["from_code_path_clash"]:
            chk.note_inconclusive("a generated unit path contains a unit_path of the *_from_code.yaml rules")
        if not v["status"].startswith("ok"):
            chk.fail("analysis-died:" + v["status"], f"lian run ended with {v['status']} {v.get('detail') or ''}", {"program": case, "level": level})
        if v["judged"]:
            chk.nontrivial_case(tag)
        for sig, desc, cs in v["fails"]:
            compensated = len(r.item) > 3 and r.item[3]
            if (sig == "unjustified:no-dependence" or "|maybe:" in sig) and not compensated:
                pending_nodep.append((r.item, sig, desc, cs))
            else:
                chk.fail(sig.split("|maybe:")[0], desc, cs)
        for w, n in v["why_counts"].items():
            chk.count(f"unjustified flows: {w}", n)
        if samples < 3 and v["judged"] >= 2 and level == "extended":
            samples += 1
            chk.sample({"files": case["files"], "rule_level": level, "reported": v["reported"], "justified": v["justified"],
                        "unjustified": v["why_counts"]})
        return v

    prog_of_tag = {}
    later_of = {}
    pending_nodep = []
    for r in forkpool.run_jobs(judge, jobs, timeout=timeout, tag="c11"):
        v = consume(r)
        if v is None:
            continue
        tag, case, level = r.item
        pk = case["pid"] if not rp else "replay"
        reported[(pk, level)] = {tuple(x) for x in v["reported"]}
        later_of[(pk, level)] = v.get("reported_at_later_call", [])
        prog_of_tag[pk] = case
    # flows outside the closure: re-run with the compensation switches to name the mechanism
    if pending_nodep:
        todo = {}
        for item, sig, desc, cs in pending_nodep:
            todo.setdefault(item[0], item)
        switches = list(c10.COMPENSATIONS)
        cjobs = [(f"{tag}_c{i}", item[1], item[2], (sw,)) for tag, item in list(todo.items())[:200] for i, sw in enumerate(switches)]
        cres = {}
        for r in forkpool.run_jobs(judge, cjobs, timeout=timeout, tag="c11comp"):
            if r.status == "ok":
                cres[(r.item[0].rsplit("_c", 1)[0], r.item[3][0])] = {tuple(x) for x in r.value["reported"]}
                chk.count("re-runs with a compensation switch (classification)", 1)
        for item, sig, desc, cs in pending_nodep:
            cured = [sw for sw in switches if (item[0], sw) in cres and tuple(cs["flow"]) not in cres[(item[0], sw)]]
            if "|maybe:" in sig:
                sig, sw = sig.split("|maybe:")
                if sw in cured:
                    sig = "unjustified:rule-restriction-ignored:unit:from-code-sink-rule"
            elif cured == ["from-code-sink-rule"]:
                sig = "unjustified:rule-restriction-ignored:unit:from-code-sink-rule"
            elif len(cured) == 1:
                sig = sig + ":" + cured[0]
            chk.fail(sig, desc, cs)
    # gadget statistics (what the workload contained)
    for pk, case in prog_of_tag.items():
        chk.count("programs", 1)
        if len(case["files"]) > 1:
            chk.count("multi-file programs", 1)
        for g in case["gadgets"]:
            kinds = [f"broken:{v}" for c, v in g["chain"] if c == "broken"]
            if g["twist"]:
                kinds.append(f"twist:{g['twist']}")
            for side in ("src_mode", "snk_mode"):
                if g[side] not in ("base", "multi") and not g[side].startswith("ok:"):
                    kinds.append(f"rule:{g[side]}")
                elif g[side].startswith("ok:"):
                    chk.count(f"gadgets: rule restricted to its own site ({g[side]})", 1)
            if g.get("restricted"):
                rside, rkind, rmode = g["restricted"].split(":", 2)
                chk.count(f"restricted rules of kind {rside}:{rkind}", 1)
                if rmode in ("ok:line", "away:line"):
                    chk.count("rules restricted by line only", 1)
            if "decoy_of" in g:
                chk.count("decoy sites (same name, excluded by the restriction)", 1)
            if g.get("targets"):
                chk.count("sink rules with several targets" if not g.get("bad_target") else "sink rules whose target list has an unknown keyword", 1)
            if g.get("srcin"):
                chk.count("gadgets with the source inside a callee", 1)
            for kd in kinds or ["positive"]:
                neg_kinds[kd] = neg_kinds.get(kd, 0) + 1
                chk.count(f"gadgets: {kd}", 1)
    # (iii) monotonicity + empty rule sets
    followups = []
    for (pk, level), flows in sorted(reported.items(), key=lambda x: (str(x[0][0]), x[0][1])):
        case = prog_of_tag[pk]
        if level in EMPTY_LEVELS:
            chk.count("runs under an empty rule set compared with 'no flow'", 1)
        if level == "minimal" and (pk, "extended") in reported:
            chk.count("minimal/extended run pairs compared", 1)
            chk.count("flows of the minimal run looked up in the extended run", len(flows))
            chk.count("minimal-run flows at a second or later call of a sink name, looked up in the extended run (extra rules precede)",
                      len(later_of.get((pk, level), ())))
            lost = sorted(flows - reported[(pk, "extended")])
            if lost:
                followups.append((pk, lost))
    if followups and not rp:
        fjobs = []
        for pk, lost in followups[:40]:
            for side, op in ADDED_KINDS:
                lvl = f"minimal+{side}:{op}"
                fjobs.append((f"m{pk}_{side}_{op}", prog_of_tag[pk], lvl))
        fres = {}
        for r in forkpool.run_jobs(judge, fjobs, timeout=timeout, tag="c11mono"):
            if r.status == "ok":
                fres[(r.item[1]["pid"], r.item[2])] = {tuple(x) for x in r.value["reported"]}
                chk.count("runs under rule set 'minimal+one added rule kind'", 1)
        for pk, lost in followups:
            culprits = []
            for side, op in ADDED_KINDS:
                got = fres.get((pk, f"minimal+{side}:{op}"))
                if got is not None and any(tuple(x) not in got for x in lost):
                    culprits.append(f"{side}:{op}")
            sig = "unjustified:non-monotone:" + ("+".join(culprits) if culprits else "only-all-added-rules-together")
            chk.fail(sig, f"flows {lost[:3]} reported under the minimal rule set are no longer reported under the extended one "
                          f"(single added rule kinds that remove them: {culprits or 'none'})",
                     {"program": prog_of_tag[pk], "level": "minimal", "levels": ["minimal", "extended"] + [f"minimal+{c}" for c in culprits],
                      "lost": lost})
    elif rp:
        # replay of a monotonicity case: all requested levels ran; recompute the verdict
        mn, ex = reported.get(("replay", "minimal")), reported.get(("replay", "extended"))
        if mn is not None and ex is not None and mn - ex:
            culprits = [lvl[len("minimal+"):] for (pk, lvl), got in reported.items() if lvl.startswith("minimal+") and mn - got]
            chk.fail("unjustified:non-monotone:" + ("+".join(sorted(culprits, key=[f"{a}:{b}" for a, b in ADDED_KINDS].index)) if culprits
                                                      else "only-all-added-rules-together"),
                     f"flows {sorted(mn - ex)[:3]} of the minimal run are missing from the extended run", rc)
    chk.extra["rule_sets"] = {
        "no-sources / no-sinks / no-rules": "source.yaml and/or sink.yaml hold no rule (the *_from_code.yaml rules stay loaded)",
        "minimal": "one rule per base name the program uses + the restricted rules (away:* never apply, ok:* apply at exactly one site)",
        "extended": "minimal + rules for the 'ext' names (match further sites) + 8 rules that match nothing",
    }
    chk.extra["workload gadget kinds"] = neg_kinds
    if not rp:
        chk.require("distinct reported (source stmt, sink stmt) flows judged", 150 if not thorough else 3000)
        chk.require("minimal/extended run pairs compared", 100 if not thorough else 2000)
        chk.require("flows of the minimal run looked up in the extended run", 60 if not thorough else 1200)
        chk.require("runs under an empty rule set compared with 'no flow'", 100 if not thorough else 2000)
        chk.require("dynamic flows checked to lie inside the closure", 100 if not thorough else 2000)
        per = 4 if not thorough else 80
        for kd in (["twist:wrong-pos", "twist:tainted-receiver", "twist:other-key", "twist:near-miss-name", "rule:never", "rule:ext",
                    "rule:away:line", "rule:away:unit", "rule:away:language", "rule:away:path",
                    "rule:away:line+unit/L", "rule:away:line+unit/U", "rule:decoy"] + [f"broken:{b}" for b in gen_flow.BROKEN]):
            chk.require(f"gadgets: {kd}", per)
        for m in ("ok:line", "ok:unit", "ok:path", "ok:line+unit"):
            chk.require(f"gadgets: rule restricted to its own site ({m})", per)
        for side, kinds in (("source", gen_flow.SOURCE_KINDS), ("sink", gen_flow.SINK_KINDS)):
            for kd in kinds:
                chk.require(f"restricted rules of kind {side}:{kd}", per * 2)
        chk.require("gadgets: rule:away:operation", max(2, per // 2))
        chk.require("minimal-run flows at a second or later call of a sink name, looked up in the extended run (extra rules precede)",
                    2 * per)
        chk.require("rules restricted by line only", 2 * per)
        chk.require("decoy sites (same name, excluded by the restriction)", 5 * per)
        chk.require("sink rules with several targets", per)
    else:
        chk.nontrivial_case("replay-a")
        chk.nontrivial_case("replay-b")
    chk.assumptions += [
        "a flow is identified by (file, line) of its source and sink statements (ids joined through frontend/gir.bundle*)",
        "the designated expression of a field-write sink is the value written, of a record-write sink the value stored under the "
        "rule's key, of a call / method-call sink the positional argument(s) the rule's target names",
        "the closure is name-based without scoping, field-name-based without object identity, containers are blobs; an unknown "
        "method may store its arguments in its receiver; reading a field the program never writes depends on the receiver",
        "flow-sensitive imprecision (overwritten variable) lies inside the closure and is not judged",
    ]
    sys.exit(chk.finish())


if __name__ == "__main__":
    main()
