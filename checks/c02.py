"""C02 — the same program written in any supported language lowers to equivalent GIR.

A G-core program is rendered into seven languages; each rendering is lowered by a real `lang` run and the emitted GIR is
executed by the reference executor under ONE common GIR semantics (only operators/literals/entry conventions are language
dependent); the outputs must equal the core reference interpreter's. Renderers are validated at run time against
CPython, node, javac/java and gcc. A failing case is attributed to vocabulary deviations by compensation switches (each
emulating the repaired lowering) and re-judged with them; anything left is reported on its own."""
import json
import os
import random
import re
import subprocess
import sys

from lib import common, forkpool, lianrun

PROP = "C02"
LANGS = ["python", "javascript", "typescript", "java", "go", "c", "php"]
BATCH = 30
SWITCHES = ["args-column", "go-return-operation", "array-read-receiver-object-column", "go-struct-type-decl",
            "while-condition-prebody", "array-literal-elements-as-fields", "declaration-after-first-assignment",
            "while-continue-recompute", "expression-stmt-rows", "redeclaration-of-visible-variable",
            "php-property-initialiser-as-local-assignment"]


def norm(v):
    if isinstance(v, bool):
        return int(v)
    return v


def run_vm(rows, lang, switches=()):
    from lib import girvm
    units = girvm.load_units(rows)
    vm = girvm.VM(units, lang, budget=100000, switches=switches)
    try:
        vm.run_program(units[0])
        return {"status": "ok", "outputs": [norm(o) for o in vm.raw_outputs], "undeclared": sorted({n for _, n in vm.undeclared_writes})}
    except girvm.VMOpaque as e:
        return {"status": "opaque", "error": str(e), "outputs": [norm(o) for o in vm.raw_outputs]}
    except girvm.VMBudget as e:
        return {"status": "budget", "error": str(e), "outputs": [norm(o) for o in vm.raw_outputs]}
    except girvm.VMError as e:
        return {"status": "vmerror", "error": str(e), "outputs": [norm(o) for o in vm.raw_outputs]}
    except girvm.GirThrow:
        return {"status": "throw", "error": "uncaught throw", "outputs": []}
    except RecursionError:
        return {"status": "vmerror", "error": "RecursionError in VM", "outputs": []}


def validate_renderings(lang, items, workdir):
    """Run the rendered programs under the language's real runtime where one exists; returns {name: outputs|None}."""
    res = {}

    def parse(out):
        vals = []
        for x in out.splitlines():
            vals.append(int(x) if re.fullmatch(r"-?\d+", x) else x)
        return vals
    if lang == "python":
        from lib import pyoracle
        for name, text, _ in items:
            r = pyoracle.run_cpython(text, None, ())
            res[name] = [eval(o[0]) for o in r["outputs"]] if r["status"] == "ok" else None
    elif lang == "javascript":
        for name, text, _ in items:
            try:
                p = subprocess.run(["node", "-e", text], capture_output=True, text=True, timeout=30)
                res[name] = parse(p.stdout) if p.returncode == 0 else None
            except Exception:
                res[name] = None
    elif lang == "java":
        jd = os.path.join(workdir, "javaout")
        os.makedirs(jd, exist_ok=True)
        files = []
        for name, text, _ in items:
            f = os.path.join(jd, name)
            with open(f, "w") as fh:
                fh.write(text)
            files.append(f)
        try:
            p = subprocess.run(["javac", "-d", jd] + files, capture_output=True, text=True, timeout=300)
            ok = p.returncode == 0
        except Exception:
            ok = False
        for name, text, _ in items:
            if not ok:
                res[name] = None
                continue
            try:
                p = subprocess.run(["java", "-Xshare:auto", "-XX:TieredStopAtLevel=1", "-cp", jd, name[:-5]], capture_output=True, text=True, timeout=60)
                res[name] = parse(p.stdout) if p.returncode == 0 else None
            except Exception:
                res[name] = None
    elif lang == "c":
        cd = os.path.join(workdir, "cout")
        os.makedirs(cd, exist_ok=True)
        for name, text, _ in items:
            f = os.path.join(cd, name)
            with open(f, "w") as fh:
                fh.write(text)
            try:
                p = subprocess.run(["gcc", "-w", "-O0", "-o", f[:-2], f], capture_output=True, text=True, timeout=60)
                if p.returncode != 0:
                    res[name] = None
                    continue
                p = subprocess.run([f[:-2]], capture_output=True, text=True, timeout=20)
                res[name] = parse(p.stdout)
            except Exception:
                res[name] = None
    elif lang == "typescript":
        from lib import gen_core
        for name, text, prog in items:
            stripped = re.sub(r": number\[\]|: number|: string|: Rec", "", text)
            stripped = "".join(l for l in stripped.splitlines(True) if not re.fullmatch(r"\s*f[ab];\n", l))
            res[name] = "same-as-js" if stripped == gen_core.JsR(0).render(prog) else None
    return res


def lower(lang, files, tag):
    import pandas as pd
    sc = common.scratch()
    src = os.path.join(sc, f"c02src_{tag}")
    os.makedirs(src, exist_ok=True)
    for n, t in files.items():
        with open(os.path.join(src, n), "w") as f:
            f.write(t)
    st = lianrun.write_settings(os.path.join(sc, f"c02st_{tag}"))
    ws = os.path.join(sc, f"c02ws_{tag}")
    lianrun.run_lian(lianrun.lian_argv("lang", lang, [src], ws, st, ["-q"]), stage="lang")
    wsd = lianrun.ws_dir(ws)
    df = lianrun.read_bundles(wsd, "frontend", "gir")
    ms = pd.read_feather(os.path.join(wsd, "frontend", "module_symbols"))
    unit_name = {}
    for r in lianrun.rows_as_dicts(ms):
        if r.get("unit_id") is not None and not r.get("is_extern"):
            unit_name[int(r["unit_id"])] = os.path.basename(r["unit_path"])
    per = {}
    for r in (lianrun.rows_as_dicts(df) if df is not None else []):
        u = int(r.get("unit_id", -1))
        if u in unit_name:
            per.setdefault(unit_name[u], []).append(r)
    return per


def judge_lang_batch(job):
    from lib import gen_core
    lang, tag, seeds = job
    R = gen_core.RENDERERS[lang]
    items = []
    refs = {}
    for sd in seeds:
        prog = gen_core.generate(sd)
        ref = gen_core.interpret(prog)
        if ref is None:
            continue
        if lang == "c" and "str-append" in prog.features:
            continue        # C has no string append operator: the program is not expressible there
        if lang in ("c", "go") and "rec-methods" in prog.features:
            continue        # classes with initialised fields and methods are rendered for the class-based languages only
        ident = f"P{sd}"
        text = R(ident).render(prog)
        name = (f"Main{ident}.java" if lang == "java" else f"p{sd}.{R.ext}")
        items.append((name, text, prog))
        refs[name] = ([norm(v) for v in ref], prog.features, sd)
    res = {"lang": lang, "cases": [], "validated_by_runtime": 0, "renderer_faults": [], "programs": len(items), "vocab": {}}
    rt = validate_renderings(lang, items, common.scratch())
    for name, text, prog in items:
        got = rt.get(name, "no-runtime")
        if got == "no-runtime":
            continue
        if got == "same-as-js" or got == refs[name][0]:
            res["validated_by_runtime"] += 1
        else:
            res["renderer_faults"].append((name, str(got)[:200], str(refs[name][0])[:200]))
    crashed = None
    try:
        per = lower(lang, {n: t for n, t, _ in items}, tag)
    except SystemExit as e:
        crashed = f"SystemExit({e.code})"
    except Exception as e:
        import traceback
        tb = traceback.extract_tb(e.__traceback__)
        inner = [f for f in tb if "/lian/" in f.filename]
        crashed = f"{type(e).__name__}@{inner[-1].name if inner else '?'}"
    if crashed:
        # find out which programs kill the phase: lower them one by one
        per = {}
        for i, (n, t, _) in enumerate(items):
            try:
                per.update(lower(lang, {n: t}, f"{tag}_solo{i}"))
            except SystemExit as e:
                res["cases"].append({"name": n, "src": t, "ok": False, "signatures": [f"{lang}:lang-phase-exit:{e.code}"],
                                     "detail": "the lang phase exits on this program", "features": refs[n][1], "seed": refs[n][2]})
                per[n] = "crashed"
            except Exception as e:
                import traceback
                tb = traceback.extract_tb(e.__traceback__)
                inner = [f for f in tb if "/lian/" in f.filename]
                sig = f"{lang}:lang-phase-crash:{type(e).__name__}@{inner[-1].name if inner else '?'}"
                res["cases"].append({"name": n, "src": t, "ok": False, "signatures": [sig],
                                     "detail": f"the lang phase dies on this program: {type(e).__name__}: {str(e)[:200]}", "features": refs[n][1], "seed": refs[n][2]})
                per[n] = "crashed"
        items = [it for it in items if per.get(it[0]) != "crashed"]
    for name, text, prog in items:
        ref, feats, sd = refs[name]
        rows = per.get(name)
        if rows is None:
            res["cases"].append({"name": name, "src": text, "ok": False, "signatures": [f"{lang}:no-gir-for-unit"],
                                 "detail": "no GIR emitted for this file", "features": feats})
            continue
        for r in rows:
            op = r.get("operation")
            cols = tuple(sorted(k for k in r if k not in ("operation", "stmt_id", "parent_stmt_id", "unit_id", "start_row", "start_col", "end_row", "end_col")))
            res["vocab"].setdefault(op, set()).update(cols)
        vm = run_vm(rows, lang)
        if vm["status"] == "ok" and vm["outputs"] == ref:
            sigs = []
            if vm.get("undeclared"):
                again = run_vm(rows, lang, switches=("declaration-after-first-assignment",))
                if again["status"] == "ok" and again["outputs"] == ref and not again.get("undeclared"):
                    sigs.append(f"{lang}:declaration-after-first-assignment")
                else:
                    sigs.append(f"{lang}:assignment-to-a-name-no-visible-scope-declares")
            res["cases"].append({"name": name, "ok": not sigs, "features": feats, "nout": len(ref), "signatures": sigs,
                                 "src": text if sigs else None, "detail": f"undeclared writes to {vm.get('undeclared')}" if sigs else None})
            continue
        # attribution: the smallest set of compensations (each emulating one repaired lowering) with which the case
        # passes completely; searched by increasing size so that one misbehaving compensation cannot mask the others
        import itertools
        need = None
        for size in (1, 2, 3):
            for combo in itertools.combinations(SWITCHES, size):
                t = run_vm(rows, lang, switches=combo)
                if t["status"] == "ok" and t["outputs"] == ref:
                    need = list(combo)
                    break
            if need:
                break
        if need is None:
            allon = run_vm(rows, lang, switches=tuple(SWITCHES))
            if allon["status"] == "ok" and allon["outputs"] == ref:
                need = list(SWITCHES)
                for sw in list(SWITCHES):
                    trial = [x for x in need if x != sw]
                    t = run_vm(rows, lang, switches=tuple(trial))
                    if t["status"] == "ok" and t["outputs"] == ref:
                        need = trial
        if need is not None:
            sigs = [f"{lang}:{sw}" for sw in need]
            detail = f"passes only with compensation(s) {need}; plain execution: {vm['status']} {vm.get('error', '')} outputs {vm['outputs'][:8]} expected {ref[:8]}"
        else:
            kind = allon["status"] if allon["status"] != "ok" else "output-mismatch"
            first_err = (allon.get("error") or "")[:80]
            first_err = re.sub(r"'[^']*'", "'*'", re.sub(r"\d+", "N", first_err))
            sigs = [f"{lang}:unexplained:{kind}:{first_err}" if kind != "output-mismatch" else f"{lang}:unexplained:output-mismatch"]
            detail = f"with every compensation on: {allon['status']} {allon.get('error', '')} outputs {allon['outputs'][:8]} expected {ref[:8]}"
        res["cases"].append({"name": name, "src": text, "ok": False, "signatures": sigs, "detail": detail, "features": feats, "seed": sd})
    res["vocab"] = {k: sorted(v) for k, v in res["vocab"].items()}
    return res


def main():
    lianrun.prepare_zygote(warm=False)
    chk = common.Check(PROP, rule=(
        "G-core programs (typed core language) rendered into 7 languages, lowered by real `lang` runs and executed by the "
        "reference executor under one common GIR semantics; distinct_nontrivial = distinct (program, language) pairs whose GIR "
        "execution (plain or with named compensations) was compared with a non-empty reference output"))
    thorough = chk.tier == "thorough"
    rp = os.environ.get("VERIF_REPLAY")
    rng = random.Random(chk.seed)
    jobs = []
    if rp:
        with open(rp) as f:
            case = json.load(f)["case"]
        jobs = [(case["lang"], "replay", [case["seed"]])]
    else:
        n = 90 if not thorough else 1500
        base = rng.randrange(1 << 28)
        seeds = [base + i for i in range(n)]
        for lang in LANGS:
            for k in range(0, n, BATCH):
                jobs.append((lang, f"{lang}{k // BATCH}", seeds[k:k + BATCH]))
    vocab = {}
    for r in forkpool.run_jobs(judge_lang_batch, jobs, timeout=1800, tag="c02"):
        if r.status != "ok":
            chk.note_inconclusive(f"batch {r.item[1]} ({r.item[0]}): {r.status} {str(r.value)[:300]} {r.log_text(400)}")
            continue
        v = r.value
        lang = v["lang"]
        chk.count(f"{lang}: programs lowered", v["programs"])
        chk.count(f"{lang}: renderings validated by a real runtime", v["validated_by_runtime"])
        for nm, got, ref in v["renderer_faults"]:
            chk.note_inconclusive(f"renderer fault ({lang} {nm}): runtime gave {got}, reference {ref}")
        for op, cols in v["vocab"].items():
            vocab.setdefault(lang, {}).setdefault(op, set()).update(cols)
        for c in v["cases"]:
            chk.evaluated(1)
            if c["ok"]:
                chk.count(f"{lang}: GIR reproduced the reference outputs", 1)
                if c.get("nout"):
                    chk.nontrivial_case((lang, c["name"]))
            else:
                chk.count(f"{lang}: GIR deviated", 1)
                chk.nontrivial_case((lang, c["name"]))
                for sig in c["signatures"]:
                    chk.fail(sig, c["detail"], {"lang": lang, "src": c["src"], "features": c["features"], "seed": c.get("seed")})
    chk.extra["emitted_vocabulary"] = {l: {op: sorted(c) for op, c in ops.items()} for l, ops in vocab.items()}
    if not rp:
        for lang in ("python", "javascript", "java", "c"):
            chk.require(f"{lang}: renderings validated by a real runtime", 30)
        for lang in LANGS:
            chk.require(f"{lang}: programs lowered", 30)
    else:
        chk.nontrivial_case("replay-a"); chk.nontrivial_case("replay-b")
    from lib import gen_core
    p0 = gen_core.generate(7)
    chk.sample({"core_features": p0.features, "python": gen_core.PyR("S").render(p0), "go": gen_core.GoR("S").render(p0)})
    chk.assumptions += [
        "Go and PHP renderings are not validated by a runtime (none offline); they are purely syntax directed like the validated ones",
        "TypeScript rendering = JavaScript rendering plus annotations (checked by stripping them)",
        "the reference executor knows only the documented instruction vocabulary; each compensation switch emulates one repaired lowering and is used for attribution only",
    ]
    sys.exit(chk.finish())


if __name__ == "__main__":
    main()
