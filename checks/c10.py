"""C10 — taint analysis reports every explicit source-to-sink flow.

Workload: G-flow programs (lib/gen_flow.py): 0..k source and sink sites per program joined (or deliberately not
joined) by chains of carriers, for every source kind x sink kind the configuration format offers, single- and
multi-file.  One project, one settings directory and one full `run` (not -q) per program, in a forked child.

Oracle: CPython running the same program under the taint shim (lib/monitors/taint_shim.py): every
(source statement, sink statement) pair whose tag really reaches the sink's rule-designated expression must be among
the flows of taint/taint_data_flow.json (statement ids joined to file + line through frontend/gir.bundle*).

Mechanism attribution of a missed flow (no hashes, recomputable from the case): the gadget is re-rendered alone;
carriers are removed one at a time until a 1-minimal failing sub-chain is left (delta debugging over real lian runs),
then source kind / sink kind / file layout / place are each swapped for a reference value to see whether they matter.
Signature: `<source kind|any>-><sink kind|any>:via:<carrier.variant+...|direct>[:multi-file][:top-level]` (a carrier is
named without variant when all its variants fail there; `:helper-reached-through-module-import` when the flow is found
with `from m import f` and lost with `import m; m.f(..)`).  After a mechanism is named its carriers are dropped from the
chain and the remainder must pass on its own (or is attributed further), so a known mechanism explains only the flows it
really loses.  A mechanism whose shape in the program is not stable is named by a *compensation switch* instead: the
isolated gadget is re-run with one internal step of lian emulated as repaired (harness-side patch in the child, see
COMPENSATIONS); if exactly that makes the flow appear the signature is `any->any:mechanism:<switch>`."""
import json
import os
import random
import sys

from lib import common, forkpool, lianrun

PROP = "C10"
LEVELS_C10 = ("extended", "extended", "extended", "minimal")


# ---------------------------------------------------------------------------------------------------
# child side: one program, one lian run, one dynamic run

def load_proposed(chk, prop):
    """Validation aid: VERIF_PROPOSED_FINDINGS=1 also honours /verif/proposed/<id>-known-findings.json."""
    if os.environ.get("VERIF_PROPOSED_FINDINGS") != "1":
        return
    p = os.path.join(common.VERIF, "proposed", f"{prop}-known-findings.json")
    try:
        with open(p) as f:
            data = json.load(f)
    except OSError:
        return
    for e in data.get("findings", []):
        if e.get("property") == prop and not str(e.get("status", "open")).startswith("fixed"):
            chk.findings.open.setdefault(e["signature"], e)


def compensate_state_id_as_symbol_id():
    """Compensation switch (classification only): emulate PathFinder._propagate_from_state with the repair of the
    'a parent STATE's id is written into the symbol-tag table' defect, i.e. only SYMBOL predecessors receive a symbol tag."""
    import lian.taint.taint_analysis as ta
    from lian.config.constants import SFG_NODE_KIND
    orig = ta.PathFinder._propagate_from_state

    class _OnlySymbolPreds:
        def __init__(self, g):
            self.g = g

        def predecessors(self, u):
            return [v for v in self.g.predecessors(u) if v.node_type == SFG_NODE_KIND.SYMBOL]

        def __getattr__(self, name):
            return getattr(self.g, name)

    def patched(self, u, u_tag, worklist, in_worklist):
        real = self.ta.sfg
        self.ta.sfg = _OnlySymbolPreds(real)
        try:
            return orig(self, u, u_tag, worklist, in_worklist)
        finally:
            self.ta.sfg = real
    ta.PathFinder._propagate_from_state = patched


def compensate_from_code_sink_unit():
    """Compensation switch (classification only): get_sink_tag_by_rules sees only those sink_from_code.yaml rules whose
    unit_path occurs in the path of the statement's unit (what find_sinks / apply_rules_from_code already demand)."""
    import lian.taint.taint_analysis as ta
    orig = ta.TaintRuleApplier.get_sink_tag_by_rules

    def patched(self, node):
        rm = self.rule_manager
        saved = rm.all_sinks_from_code
        try:
            unit_id = self.loader.convert_stmt_id_to_unit_id(node.def_stmt_id)
            up = self.loader.convert_module_id_to_module_info(unit_id).original_path
            rm.all_sinks_from_code = [r for r in saved if r.unit_path and r.unit_path in up]
        except Exception:
            rm.all_sinks_from_code = saved
        try:
            return orig(self, node)
        finally:
            rm.all_sinks_from_code = saved
    ta.TaintRuleApplier.get_sink_tag_by_rules = patched


def compensate_arg_to_param_edge():
    """Compensation switch (classification only): GlobalStmtStates.add_arg_to_param_edge looks for the argument by scanning the
    whole entry-point SFG for a STATE node with the argument's index and takes the first parent symbol that is used in any call
    statement; when the argument's state is a copy made at the call (STATE_COPY, which taint propagation does not follow) the
    only parent symbol is the parameter itself and no edge is made.  In exactly that situation (no parent symbol of the indexed
    STATE is an argument of the current call) the switch adds the SYMBOL_FLOW edge from the argument symbol(s) of the current
    call statement that point to the state the mapping hands over; where the original search could have found the argument the
    switch does nothing, so a regression of the search itself is not masked."""
    import lian.core.global_stmt_states as gss
    from lian.common_structs import SFGNode, SFGEdge
    from lian.config.constants import SFG_NODE_KIND, SFG_EDGE_KIND
    orig = gss.GlobalStmtStates.add_arg_to_param_edge

    def patched(self, each_pair, status, parameter_name_symbol):
        orig(self, each_pair, status, parameter_name_symbol)
        try:
            ctx = self.frame.get_context()
            call_stmt_id = getattr(ctx, "call_stmt_id", ctx if isinstance(ctx, int) else -1)
            g = self.sfg.graph
            target = SFGNode(node_type=SFG_NODE_KIND.SYMBOL, def_stmt_id=parameter_name_symbol.stmt_id, index=status.defined_symbol,
                             node_id=parameter_name_symbol.symbol_id, name=parameter_name_symbol.name, context=ctx)
            arg_syms = []
            for stmt_node in [n for n in g.nodes if n.node_type == SFG_NODE_KIND.STMT and n.def_stmt_id == call_stmt_id]:
                for node in list(g.predecessors(stmt_node)):
                    w = g.get_edge_data(node, stmt_node)["weight"]
                    if node.node_type != SFG_NODE_KIND.SYMBOL or w.edge_type != SFG_EDGE_KIND.SYMBOL_IS_USED or w.pos < 1:
                        continue
                    # the argument symbol is the one that points to the state this mapping hands over
                    if any(x.node_type == SFG_NODE_KIND.STATE and x.node_id == each_pair.arg_state_id for x in g.successors(node)):
                        arg_syms.append(node)
            # parents the original search looks at: symbols above the STATE node(s) with the argument's index
            parents = set()
            for st in [n for n in g.nodes if n.node_type == SFG_NODE_KIND.STATE and n.index == each_pair.arg_index_in_space]:
                for par in g.predecessors(st):
                    if par.node_type == SFG_NODE_KIND.SYMBOL:
                        parents.add(par)
                    elif par.node_type == SFG_NODE_KIND.STATE:
                        parents.update(pp for pp in g.predecessors(par) if pp.node_type == SFG_NODE_KIND.SYMBOL)
            if not any(a in parents for a in arg_syms):
                for node in arg_syms:
                    self.sfg.add_edge(node, target, SFGEdge(edge_type=SFG_EDGE_KIND.SYMBOL_FLOW, stmt_id=parameter_name_symbol.stmt_id))
        except Exception:
            pass
    gss.GlobalStmtStates.add_arg_to_param_edge = patched


COMPENSATIONS = {"state-id-taints-symbol-with-equal-id": compensate_state_id_as_symbol_id,
                 "from-code-sink-rule": compensate_from_code_sink_unit,
                 "argument-to-parameter-edge-missing-for-copied-state": compensate_arg_to_param_edge}
C10_SWITCHES = ("argument-to-parameter-edge-missing-for-copied-state",)


def run_lian_case(case, ruleset, tag, compensate=()):
    """Write the project + settings, run the real pipeline, return reported flows as file/line pairs."""
    import pandas as pd   # noqa: F401  (child only)
    for c in compensate:
        COMPENSATIONS[c]()
    sc = common.scratch()
    root = os.path.join(sc, f"flow_{tag}")
    src_dir = os.path.join(root, "proj")
    os.makedirs(src_dir, exist_ok=True)
    for fn, text in case["files"].items():
        with open(os.path.join(src_dir, fn), "w") as f:
            f.write(text)
    names = ["%unit_init"] + [e[2] for e in case["entries"]]
    entry = "- method_list: [" + ", ".join("'" + n + "'" for n in names) + "]\n"
    st = lianrun.write_settings(os.path.join(root, "settings"), entry=entry, source=ruleset.yaml("source", src_dir), sink=ruleset.yaml("sink", src_dir))
    ws = os.path.join(root, "ws")
    out = {"status": "ok", "flows": [], "raw": 0, "line_mismatch": 0, "unmapped": 0, "texts": {}}
    try:
        lianrun.run_lian(lianrun.lian_argv("run", "python", [src_dir], ws, st, []))
    except SystemExit as e:
        out["status"] = f"exit:{e.code}"
    except BaseException as e:      # noqa
        import traceback
        tb = traceback.extract_tb(e.__traceback__)
        inner = next((f"{os.path.basename(fr.filename)}:{fr.name}" for fr in reversed(tb) if "/lian/" in fr.filename), "?")
        out["status"] = f"exception:{type(e).__name__}:{inner}"
        out["detail"] = str(e)[:300]
    wsd = lianrun.ws_dir(ws)
    p = os.path.join(wsd, "taint", "taint_data_flow.json")
    if os.path.exists(p):
        with open(p) as f:
            raw = json.load(f)
        out["raw"] = len(raw)
        gir = lianrun.read_bundles(wsd, "frontend", "gir")
        line_of, unit_of, op_of = {}, {}, {}
        if gir is not None:
            for sid, row, uid, op in zip(gir["stmt_id"].tolist(), gir["start_row"].tolist(), gir["unit_id"].tolist(), gir["operation"].tolist()):
                if not lianrun.isnull(row):
                    line_of[int(sid)] = int(row) + 1
                    unit_of[int(sid)] = int(uid)
                    op_of[int(sid)] = str(op)
        unit_path = {}
        ms = lianrun.read_feather(wsd, "frontend", "module_symbols")
        if ms is not None:
            for r in lianrun.rows_as_dicts(ms):
                if r.get("unit_id") is not None and r.get("unit_path"):
                    unit_path[int(r["unit_id"])] = os.path.basename(str(r["unit_path"]))
        for fl in raw:
            s, k = int(fl["source_stmt_id"]), int(fl["sink_stmt_id"])
            if s not in line_of or k not in line_of:
                out["unmapped"] += 1
                continue
            sf, kf = unit_path.get(unit_of[s]), unit_path.get(unit_of[k])
            if sf is None or kf is None:
                out["unmapped"] += 1
                continue
            if line_of[s] != fl.get("source_line") or line_of[k] != fl.get("sink_line"):
                out["line_mismatch"] += 1
            out["flows"].append((sf, line_of[s], kf, line_of[k]))
            out["texts"][(sf, line_of[s], kf, line_of[k])] = (str(fl.get("source")), str(fl.get("sink")), op_of.get(s), op_of.get(k))
    return out


def cleanup(tag):
    """Remove the job's project / settings / workspace (done in the child, so the parent's exit stays cheap)."""
    import shutil
    shutil.rmtree(os.path.join(common.scratch(), f"flow_{tag}"), ignore_errors=True)


def analyse(item):
    """item: (tag, case, level).  Returns plain data: expected (dynamic) pairs, reported pairs, per-gadget verdicts."""
    from lib import gen_flow
    from lib.monitors import taint_shim as ts
    tag, case, level = item[:3]
    rs = gen_flow.rules_for(case, level)
    sites, _ = ts.find_sites(case["files"], rs)
    dyn = ts.run_dynamic(case["files"], case["main"], [tuple(e) for e in case["entries"]], sites)
    lres = run_lian_case(case, rs, tag, compensate=item[3] if len(item) > 3 else ())
    reported = set(lres["flows"])
    expected = set(dyn.pairs)
    snk_gadget = {tuple(g["snk_at"]): g["gid"] for g in case["gadgets"] if g.get("snk_at")}
    res = {"tag": tag, "level": level, "status": lres["status"], "detail": lres.get("detail"), "raw_flows": lres["raw"],
           "line_mismatch": lres["line_mismatch"], "unmapped": lres["unmapped"],
           "expected": sorted(expected), "reported": sorted(reported), "missed": sorted(expected - reported),
           "dyn_errors": dyn.errors[:4], "n_sites": [sum(1 for s in sites if s.side == "source"), sum(1 for s in sites if s.side == "sink")],
           "source_hits": len(dyn.source_hits), "sink_hits": len(dyn.sink_hits), "gadget_of_pair": {}}
    for pr in expected:
        res["gadget_of_pair"][json.dumps(pr)] = snk_gadget.get((pr[2], pr[3]))
    cleanup(tag)
    return res


def probe_single(item):
    """item: (key, gadget spec, level).  The gadget alone: is its dynamically observed flow reported?"""
    from lib import gen_flow
    key, g, level, n = item
    if "_pair" in g:
        # two gadgets in one entry function / method (or both at module level): is the flow of the SECOND one reported?
        import random

        class OneGroup(random.Random):
            def choice(self, seq):
                return 3 if seq == [1, 1, 2, 3] else super().choice(seq)
        a, b = (dict(x) for x in g["_pair"])
        a["gid"], b["gid"] = 0, 1
        case = gen_flow.build_program(9000 + n, [a, b], OneGroup(0)).to_case()
        r = analyse((f"p{n}", case, level))
        at = tuple(case["gadgets"][1]["snk_at"] or ())
        exp = [p for p in r["expected"] if (p[2], p[3]) == at]
        mis = [p for p in r["missed"] if (p[2], p[3]) == at]
        return {"key": key, "expected": exp, "missed": mis, "status": r["status"], "case": case}
    case = gen_flow.render_single(9000 + n, g)
    r = analyse((f"p{n}", case, level, tuple(g.get("_comp") or ())))
    return {"key": key, "expected": r["expected"], "missed": r["missed"], "status": r["status"], "case": case}


# ---------------------------------------------------------------------------------------------------
# parent side: attribution of missed flows

DIM_FIELDS = ("sk", "tk", "pos", "chain", "twist", "src_mode", "snk_mode", "src_idx", "snk_idx", "imp", "layout", "place",
              "srcin", "targets", "put", "pre_call")


def norm_gadget(g):
    g2 = {k: g[k] for k in DIM_FIELDS if k in g}
    g2["gid"] = 0
    if g.get("_comp"):
        g2["_comp"] = list(g["_comp"])
    ch = []
    from lib import gen_flow
    for i, (c, v) in enumerate(g2["chain"]):
        if c != "broken":
            v = v % gen_flow.VARIANTS[c]
            if c == "closure" and i == len(g2["chain"]) - 1:
                v = 0
        ch.append([c, v])
    g2["chain"] = ch
    # irrelevant for a gadget rendered alone: which name of the pool is used; the import style without a second file
    g2["src_idx"] = g2["snk_idx"] = 0
    if not any(f != 0 for f in g2["layout"]):
        g2["imp"] = "from"
        g2["layout"] = [0]
    helper_levels = sum(1 for c, v in ch if c in ("param", "ret", "field") or (c == "global" and v == 2)
                        or (c == "broken" and v in ("unrelated-field", "unrelated-object", "callee-drops", "callee-other-param")))
    if helper_levels == 0 and not g2.get("srcin"):
        g2["imp"] = "from"
        g2["layout"] = [0]
    for k in ("srcin", "targets", "put", "pre_call"):
        if g2.get(k) is None or (k == "pre_call" and not g2.get(k)):
            g2.pop(k, None)
    return g2


def gkey(g):
    if "_pair" in g:
        return json.dumps([norm_gadget(x) for x in g["_pair"]], sort_keys=True)
    return json.dumps(norm_gadget(g), sort_keys=True)


def _pair(j, g):
    """Both gadgets normalised, with different names from the pools (the first one takes index 1)."""
    a, b = norm_gadget(j), norm_gadget(g)
    a["src_idx"] = a["snk_idx"] = 1
    return {"_pair": [a, b]}


def interference(g, others):
    """Generator: the gadget's flow is reported when it is alone and lost in its program.  Find another gadget of the program
    that makes it disappear when the two share an entry, shrink both chains (delta debugging over real runs) and name the pair."""
    found = None
    for j in others[:8]:
        r = yield _pair(j, g)
        if r is False:
            found = j
            break
    if found is None:
        return None
    j = dict(found, chain=[c for c in found["chain"] if c[0] != "broken"], twist=None)
    r = yield _pair(j, g)
    if r is not False:
        j = found
    cur = {"j": list(j["chain"]), "g": list(g["chain"])}
    for who in ("j", "g"):
        changed = True
        while changed and cur[who]:
            changed = False
            for i in range(len(cur[who])):
                cand = cur[who][:i] + cur[who][i + 1:]
                pj = norm_gadget(dict(j, chain=cand if who == "j" else cur["j"]))
                pg = norm_gadget(dict(g, chain=cand if who == "g" else cur["g"]))
                r = yield _pair(pj, pg)
                if r is False:
                    cur[who] = (pj if who == "j" else pg)["chain"]
                    changed = True
                    break
    pj, pg = norm_gadget(dict(j, chain=cur["j"])), norm_gadget(dict(g, chain=cur["g"]))
    tk_txt = g["tk"]
    r = yield _pair(dict(pj, tk="call", pos=0, twist=None, targets=None, put=None, snk_mode="base"),
                    dict(pg, tk="call", pos=0, twist=None, targets=None, put=None, snk_mode="base"))
    if r is False:
        tk_txt = "any"
    where = {"top": "at-module-level", "func": "in-the-same-function", "method": "in-the-same-method"}[g["place"]] \
        if found["place"] == g["place"] else "in-the-same-program"
    return f"{g['sk']}->{tk_txt}:via:{chain_text(pg['chain'])}:lost-after:{found['sk']}+{chain_text(pj['chain'])}:{where}"


def chain_text(chain):
    return "+".join((c if v is None else f"{c}.{v}") if c != "broken" else f"broken[{v}]" for c, v in chain) or "direct"


def reference_swaps(g):
    """(dimension name, gadget with that dimension replaced by a reference value), in the order they are tried."""
    out = []
    if g.get("srcin"):
        out.append(("srcin", dict(g, srcin=None)))
    if g.get("pre_call"):
        out.append(("precall", dict(g, pre_call=None)))
    if g["src_mode"] != "base" or g["snk_mode"] not in ("base", "multi"):
        out.append(("modes", dict(g, src_mode="base", snk_mode=g["snk_mode"] if g["snk_mode"] == "multi" else "base")))
    if any(f != 0 for f in g["layout"]) and g["imp"] == "mod":
        out.append(("imp", dict(g, imp="from")))
    if any(f != 0 for f in g["layout"]):
        out.append(("layout", dict(g, layout=[0])))
    if g["place"] == "top":
        out.append(("place", dict(g, place="func")))
    for sk_ref in (("call", "mcall", "fread") if g.get("srcin") else ("param", "call", "mcall")):
        if sk_ref != g["sk"]:
            out.append(("sk", dict(g, sk=sk_ref, place="func" if sk_ref == "param" or g["place"] == "method" else g["place"])))
    for tk_ref in (("call", 0), ("mcall", 0), ("fwrite", 0)):
        if tk_ref != (g["tk"], g["pos"]):
            out.append(("tk", dict(g, tk=tk_ref[0], pos=tk_ref[1], twist=None, targets=None, put=None, pre_call=None,
                                   snk_mode="base" if g["snk_mode"] == "multi" else g["snk_mode"])))
    return out


class Atom:
    """A named mechanism found in this run: carriers (with variants) that lose a flow, and the dimensions that matter."""

    def __init__(self, sig, sk, tk, pos, carriers, multi_file, top_level, modes, mod_import=False):
        self.sig, self.sk, self.tk, self.pos, self.carriers = sig, sk, tk, pos, [tuple(c) for c in carriers]
        self.multi_file, self.top_level, self.modes, self.mod_import = multi_file, top_level, modes, mod_import

    def applies(self, g):
        if self.sk is not None and g["sk"] != self.sk:
            return False
        if self.tk is not None and (g["tk"], g["pos"]) != (self.tk, self.pos):
            return False
        if (self.multi_file or self.mod_import) and not any(f != 0 for f in g["layout"]):
            return False
        if self.mod_import and g["imp"] != "mod":
            return False
        if self.top_level and g["place"] != "top":
            return False
        if self.modes is not None and (g["src_mode"], g["snk_mode"]) != self.modes:
            return False
        if getattr(self, "srcin", None) is not None and (not g.get("srcin") or self.srcin not in ("*", g["srcin"])):
            return False
        if self.tk is not None and getattr(self, "targets", None) != g.get("targets"):
            return False
        return True

    def strip(self, chain):
        """chain without one occurrence of each of the atom's carriers, or None if they do not all occur."""
        rest = [tuple(c) for c in chain]
        for a in self.carriers:
            hit = next((c for c in rest if c == a or ((self.mod_import or a[1] is None) and c[0] == a[0])), None)
            if hit is None:
                return None
            rest.remove(hit)
        return [list(c) for c in rest]


def generalise(g, atom_chain):
    """Generator: which of rule modes / layout / place / source kind / sink kind matter for this failing sub-chain?"""
    cfg = norm_gadget(dict(g, chain=atom_chain))
    relevant = {}
    for dim in ("srcin", "precall", "modes", "imp", "layout", "place", "sk", "tk"):
        cands = [sw for d, sw in reference_swaps(cfg) if d == dim]
        if not cands or (dim == "layout" and relevant.get("imp")):
            continue
        swap = cands[0]
        if dim in ("sk", "tk"):
            # the reference kind must itself be healthy (its direct flow to / from another reference kind is reported),
            # else nothing can be concluded from swapping it in
            swap = None
            for cand in cands:
                if dim == "sk":
                    partners = [dict(tk=t, pos=0, twist=None, snk_mode="base", targets=None, put=None) for t in ("call", "mcall")]
                else:
                    partners = [dict(sk="param", place="func", src_mode="base", srcin=None), dict(sk="mcall", src_mode="base", srcin=None)]
                ok = None
                for pt in partners:
                    ok = yield norm_gadget(dict(cand, chain=[], layout=[0], **pt))
                    if ok is True:
                        break
                if ok is True:
                    swap = cand
                    break
            if swap is None:
                relevant[dim] = True
                continue
        r = yield norm_gadget(swap)
        if r is False:
            cfg = norm_gadget(swap)       # still fails: this dimension does not matter
            relevant[dim] = False
        else:
            relevant[dim] = True
    # does the variant of each carrier matter?  (all variants of the carrier fail in this context -> named without variant)
    from lib import gen_flow
    named = [list(c) for c in atom_chain]
    if not relevant.get("imp"):
        for i, (c, v) in enumerate(atom_chain):
            all_fail, tested = True, 0
            for w in range(gen_flow.VARIANTS[c]):
                if w == v:
                    continue
                alt = [list(x) for x in cfg["chain"]]
                alt[i] = [c, w]
                probe = norm_gadget(dict(cfg, chain=alt))
                if probe["chain"] == cfg["chain"]:
                    continue
                tested += 1
                r = yield probe
                if r is not False:
                    all_fail = False
                    break
            if all_fail and tested:
                named[i][1] = None
    atom_chain = named
    sk = g["sk"] if relevant.get("sk", True) else None
    tk = g["tk"] if relevant.get("tk", True) else None
    tk_txt = "any" if tk is None else tk + (str(g["pos"]) if tk in ("call", "mcall") and g["pos"] else "")
    if tk is not None and g.get("targets"):
        tk_txt += "[targets=" + ",".join(t.replace("\\%", "") for t in g["targets"]) + ";value-at=" + str(g.get("put", g["pos"])) + "]"
    sig = f"{sk or 'any'}->{tk_txt}:via:{chain_text(atom_chain)}"
    if relevant.get("imp"):
        # a helper reached through `import m` + `m.helper(...)`: named by carrier kind, whatever the variant
        # (a carrier kind is named once: with helper levels spread over files, two module-qualified calls can be needed to lose it)
        sig = f"{sk or 'any'}->{tk_txt}:via:{'+'.join(dict.fromkeys(c for c, _ in atom_chain)) or 'direct'}:helper-reached-through-module-import"
    if relevant.get("srcin"):
        # through a module-qualified (unresolved) callee every shape of the callee is lost alike
        sig += ":source-in-callee" if relevant.get("imp") else f":source-in-callee({g['srcin']})"
    if relevant.get("precall"):
        sig += ":second-call-of-the-sink-name"
    if relevant.get("layout"):
        sig += ":multi-file"
    if relevant.get("place"):
        sig += ":top-level"
    modes = None
    if relevant.get("modes"):
        modes = (g["src_mode"], g["snk_mode"])
        sig += f":rules={g['src_mode']}/{g['snk_mode']}"
    atom = Atom(sig, sk, tk, g["pos"], atom_chain, bool(relevant.get("layout")), bool(relevant.get("place")), modes,
                mod_import=bool(relevant.get("imp")))
    atom.srcin = ("*" if relevant.get("imp") else g.get("srcin")) if relevant.get("srcin") else None
    atom.targets = g.get("targets") if tk is not None else None
    return atom


def attribute(g, atoms, others=None):
    """Generator: yields gadget specs to probe in isolation, receives True (flow reported) / False (missed) / None
    (no dynamic flow or run failed).  `atoms` is the run-wide list of mechanisms named so far (shared, appended to).
    Returns the list of mechanism signatures that explain the miss."""
    g = norm_gadget(g)
    sigs = []
    chain = list(g["chain"])
    # the source kind / sink kind pair itself
    known_direct = [a for a in atoms if not a.carriers and a.applies(g)]
    if known_direct:
        return [known_direct[0].sig]
    if chain:
        r = yield norm_gadget(dict(g, chain=[], layout=[0]))
        if r is False:
            atom = yield from generalise(dict(g, layout=[0]), [])
            if not any(a.sig == atom.sig for a in atoms):
                atoms.append(atom)
            return [atom.sig]
    # carriers already known to lose flows: drop them first
    dropped = True
    while dropped:
        dropped = False
        for a in list(atoms):
            if a.carriers and a.applies(g):
                rest = a.strip(chain)
                if rest is not None:
                    chain = rest
                    if a.sig not in sigs:
                        sigs.append(a.sig)
                    dropped = True
    if sigs:
        r = yield norm_gadget(dict(g, chain=chain))
        if r is not False:
            return sigs
    else:
        r = yield g
        if r is None:
            return []          # the isolated run died (reported as analysis-died) or showed no dynamic flow (counted)
        if r:
            sig = yield from interference(g, others or [])
            return [sig or f"{g['sk']}->{g['tk']}:lost-only-among-other-flows"]
    # a mechanism that a compensation switch cures is named after the switch (its shape in the program is not stable)
    if len(chain) >= 2:
        for sw in C10_SWITCHES:
            r = yield norm_gadget(dict(g, chain=chain, _comp=[sw]))
            if r is True:
                sigs.append(f"any->any:mechanism:{sw}")
                return sigs
    guard = 0
    while guard < 6:
        guard += 1
        cur = norm_gadget(dict(g, chain=chain))["chain"]     # fails in isolation; find a 1-minimal failing sub-chain
        changed = True
        while changed and cur:
            changed = False
            for i in range(len(cur)):
                cand = norm_gadget(dict(g, chain=cur[:i] + cur[i + 1:]))
                r = yield cand
                if r is False:
                    cur = cand["chain"]
                    changed = True
                    break
        atom = yield from generalise(g, cur)
        if not any(a.sig == atom.sig for a in atoms):
            atoms.append(atom)
        if atom.sig not in sigs:
            sigs.append(atom.sig)
        if not cur:
            break
        rest = atom.strip(norm_gadget(dict(g, chain=chain))["chain"])
        if rest is None or len(rest) == len(chain):
            break
        r = yield norm_gadget(dict(g, chain=rest))
        if r is not False:
            break
        chain = rest
    return sigs


def run_attribution(missed_gadgets, level_of, timeout, cap_runs, others_of=None):
    """missed_gadgets: {id: gadget}.  Gadgets are attributed in waves of increasing chain length (short chains name the
    mechanisms cheaply, long chains then only need 'is it reported once the known-bad carriers are dropped?'); inside a
    wave all attribute() generators advance in lock-step with batched real runs."""
    cache, died = {}, {}
    done = {}
    atoms = []
    runs = 0
    n = 0
    order = sorted(missed_gadgets, key=lambda m: (len(missed_gadgets[m]["chain"]), m))
    waves = {}
    for mid in order:
        waves.setdefault(len(missed_gadgets[mid]["chain"]), []).append(mid)
    for ln in sorted(waves):
        gens, pending = {}, {}
        # inside a wave: one gadget per (sk, tk, carriers) class first, the others afterwards (they reuse its atoms)
        first, later, seen = [], [], set()
        for mid in waves[ln]:
            g = missed_gadgets[mid]
            k = (g["sk"], g["tk"], tuple(sorted(c for c, _ in g["chain"])))
            (later if k in seen else first).append(mid)
            seen.add(k)
        for part in (first, later):
            gens, pending = {}, {}
            for mid in part:
                gen = attribute(missed_gadgets[mid], atoms, (others_of or {}).get(mid))
                gens[mid] = gen
                try:
                    pending[mid] = next(gen)
                except StopIteration as e:
                    done[mid] = e.value
            while pending:
                need = {}
                for mid, spec in pending.items():
                    k = (gkey(spec), level_of[mid])
                    if k not in cache:
                        need.setdefault(k, spec)
                if need:
                    if runs + len(need) > cap_runs:
                        for mid in pending:
                            done[mid] = None
                        pending = {}
                        break
                    items = []
                    for (k, lvl), spec in need.items():
                        n += 1
                        items.append(((k, lvl), spec, lvl, n))
                    runs += len(items)
                    for r in forkpool.run_jobs(probe_single, items, timeout=timeout, tag="c10attr"):
                        k = r.item[0]
                        if r.status != "ok":
                            cache[k] = None
                            continue
                        v = r.value
                        if not v["status"].startswith("ok"):
                            cache[k] = None
                            died[v["status"]] = v["case"]
                        elif not v["expected"]:
                            cache[k] = None
                        else:
                            cache[k] = not v["missed"]
                nxt = {}
                for mid, spec in pending.items():
                    k = (gkey(spec), level_of[mid])
                    try:
                        nxt[mid] = gens[mid].send(cache.get(k))
                    except StopIteration as e:
                        done[mid] = e.value
                pending = nxt
    return done, runs, [a.sig for a in atoms], died


# ---------------------------------------------------------------------------------------------------

def coverage_keys(g):
    carriers = sorted({c for c, _ in g["chain"] if c != "broken"}) or ["direct"]
    return [(g["sk"], g["tk"], c) for c in carriers]


def main():
    from lib import gen_flow
    chk = common.Check(PROP, rule=(
        "G-flow programs: gadgets = source site (call, method call, entry parameter, field read on a local object, field read "
        "on self) -> chain of 0..4 carriers from {assign, op, param, ret, field, list, dict, closure, global, tuple, cond} -> sink "
        "site (call at the rule's argument position, method call, field write, dict-literal record write), positives and "
        "negatives mixed, module level / entry functions / entry methods, 1-3 files; ground truth = tag propagation in CPython; "
        "distinct_nontrivial = distinct (source kind, sink kind, carrier chain) classes with a dynamically observed flow"))
    load_proposed(chk, PROP)
    thorough = chk.tier == "thorough"
    rp = os.environ.get("VERIF_REPLAY")
    lianrun.prepare_zygote()
    rng = random.Random(chk.seed)
    jobs = []
    if rp:
        with open(rp) as f:
            rc = json.load(f)["case"]
        jobs.append(("replay", rc["program"], rc["level"]))
    else:
        n_prog = int(os.environ.get("VERIF_N") or (200 if not thorough else 5000))
        base = rng.randrange(1 << 30)
        k = rng.randrange(220)
        for i in range(n_prog):
            n_g = rng.choice([0, 2, 3, 4, 4, 5, 6])
            case = gen_flow.generate(base + i, i, n_g, "c10", k0=k)
            k += n_g
            jobs.append((f"g{i}", case, LEVELS_C10[i % len(LEVELS_C10)]))
    timeout = 300 if not thorough else 900
    table = {}            # (sk, tk, carrier) -> [expected, found]
    missed = {}           # id -> gadget
    level_of = {}
    missed_info = {}
    others_of = {}
    samples = 0
    for r in forkpool.run_jobs(analyse, jobs, timeout=timeout, tag="c10"):
        tag, case, level = r.item
        if r.status != "ok":
            if r.status in ("exception", "exit", "signal"):
                chk.fail(f"harness-or-analysis-died:{r.status}:{(r.value[0] if r.status == 'exception' else r.value)}",
                         f"job {tag} ended with {r.status}: {str(r.value)[:300]} {r.log_text(500)}", {"program": case, "level": level})
            else:
                chk.note_inconclusive(f"program {tag}: {r.status}")
            continue
        v = r.value
        chk.evaluated()
        chk.count("programs analysed by a full lian run", 1)
        chk.count(f"programs under rule set '{level}'", 1)
        if len(case["files"]) > 1:
            chk.count("multi-file programs", 1)
        chk.count("source sites (rules restated on the text)", v["n_sites"][0])
        chk.count("sink sites (rules restated on the text)", v["n_sites"][1])
        chk.count("flows reported by lian (rows of taint_data_flow.json)", v["raw_flows"])
        chk.count("reported flows whose statement ids could not be joined to a line", v["unmapped"])
        chk.count("reported flows whose JSON line differs from the GIR line", v["line_mismatch"])
        chk.count("dynamic flows observed in CPython (expected)", len(v["expected"]))
        chk.count("dynamic flows found among the reported flows", len(v["expected"]) - len(v["missed"]))
        chk.count("dynamic run: entries that raised", len(v["dyn_errors"]))
        dead = not v["status"].startswith("ok")
        if dead:
            sig = "analysis-died:" + v["status"]
            chk.fail(sig, f"lian run on a generated program ended with {v['status']} {v.get('detail') or ''}", {"program": case, "level": level})
            chk.count("dynamic flows in programs whose analysis died (not attributed)", len(v["missed"]))
        gad = {g["gid"]: g for g in case["gadgets"]}
        exp_gids = set()
        for pr in v["expected"]:
            gid = v["gadget_of_pair"].get(json.dumps(list(pr)))
            if gid is None:
                gid = v["gadget_of_pair"].get(json.dumps(pr))
            g = gad.get(gid)
            if g is None:
                chk.count("dynamic flows not attributable to one gadget", 1)
                continue
            exp_gids.add(gid)
            hit = tuple(pr) not in {tuple(m) for m in v["missed"]}
            for key in coverage_keys(g):
                e = table.setdefault(key, [0, 0])
                e[0] += 1
                e[1] += 1 if hit else 0
            chk.count(f"source kind {g['sk']}: dynamic flows", 1)
            chk.count(f"sink kind {g['tk']}: dynamic flows", 1)
            for c in {c for c, _ in g["chain"] if c != "broken"} or {"direct"}:
                chk.count(f"carrier {c}: dynamic flows", 1)
            if any(c == "op" and v % 7 == 6 for c, v in g["chain"]):
                chk.count("self-redefinition, copy, operator (op.6): dynamic flows", 1)
            if any(c == "param" and v % 8 >= 3 for c, v in g["chain"]):
                chk.count("parameter passing with several keyword arguments: dynamic flows", 1)
            chk.nontrivial_case((g["sk"], g["tk"], chain_text(norm_gadget(g)["chain"])))
            if g.get("srcin"):
                chk.count("source inside a callee: dynamic flows", 1)
                if g["srcin"][:2] in ("r2", "r3"):
                    chk.count("source inside a callee with 2-3 return statements: dynamic flows", 1)
                if g["srcin"][:2] in ("fv", "pm"):
                    chk.count("source behind a call statement with two possible callees: dynamic flows", 1)
            if g.get("targets"):
                chk.count("sink rule with several targets: dynamic flows", 1)
            for side in ("src_mode", "snk_mode"):
                if g[side].startswith("ok:"):
                    chk.count(f"rule restricted to its site ({g[side]}): dynamic flows", 1)
                    chk.count("restricted rule that applies: dynamic flows", 1)
            if not hit and not dead:
                mid = f"{tag}:{gid}"
                missed[mid] = g
                level_of[mid] = level
                missed_info[mid] = {"program": case, "level": level, "pair": list(pr), "gadget": g}
                # the other gadgets of the program, those sharing its kind of entry first (for interference analysis)
                oth = [norm_gadget(dict(o, place=o["place"])) for o in case["gadgets"] if o["gid"] != gid and "decoy_of" not in o]
                others_of[mid] = sorted(oth, key=lambda o: o["place"] != g["place"])
        # generator sanity: positives the generator intended must have been observed dynamically
        for g in case["gadgets"]:
            dpos, drecv = gen_flow.designated(g)
            put = g.get("put", g["pos"])
            put_ok = ((put == "recv" and drecv) or put in dpos) if g["tk"] in ("call", "mcall") else True
            intended = (g["twist"] is None and not any(c == "broken" for c, _ in g["chain"]) and put_ok
                        and gen_flow.mode_active(g["src_mode"], level) and gen_flow.mode_active(g["snk_mode"], level))
            if "decoy_of" in g:
                # a decoy is judged by the dynamic oracle alone (a line-only rule legitimately matches a decoy that happens to
                # sit on the same line number of another file)
                chk.count("decoy sites (same name, excluded by the restriction)", 1)
                if g["gid"] in exp_gids:
                    chk.count("decoy sites that the restriction does not exclude (same line number in another file)", 1)
                continue
            if g.get("bad_target"):
                chk.count("sink rules whose target list has an unknown keyword", 1)
            if intended:
                chk.count("gadgets intended positive", 1)
                if g["gid"] not in exp_gids:
                    chk.count("gadgets intended positive but not observed dynamically", 1)
            else:
                chk.count("gadgets intended negative", 1)
                if g["gid"] in exp_gids:
                    chk.count("gadgets intended negative but observed dynamically", 1)
        if samples < 3 and v["expected"] and len(case["files"]) > 1:
            samples += 1
            chk.sample({"files": case["files"], "rule_level": level, "dynamic_flows": v["expected"], "reported": v["reported"],
                        "missed": v["missed"]})
    # attribution
    if missed:
        cap = 1500 if not thorough else 12000
        done, runs, atom_sigs, died = run_attribution(missed, level_of, timeout, cap, others_of)
        for status, case in sorted(died.items()):
            chk.fail("analysis-died:" + status, f"lian run on an isolated gadget ended with {status}", {"program": case, "level": "extended"})
        chk.extra["mechanisms named in this run"] = atom_sigs
        chk.count("missed flows", len(missed))
        if any(v is None for v in done.values()):
            chk.note_inconclusive(f"attribution stopped at the cap of {cap} isolated re-runs; some missed flows have no mechanism signature")
        chk.count("isolated re-runs for mechanism attribution", runs)
        for mid, sigs in done.items():
            info = missed_info[mid]
            g = info["gadget"]
            if sigs is None:
                chk.count("missed flows left unattributed (run cap)", 1)
                continue
            if not sigs:
                chk.count("missed flows whose isolated re-run gave no verdict", 1)
            for sig in sigs:
                chk.fail(sig, f"flow {info['pair'][0]}:{info['pair'][1]} -> {info['pair'][2]}:{info['pair'][3]} observed in CPython "
                              f"({g['sk']} source, {g['tk']} sink, carriers {chain_text(norm_gadget(g)['chain'])}, place {g['place']}, "
                              f"{len(info['program']['files'])} file(s)) is not among the reported flows",
                         {"program": info["program"], "level": info["level"], "pair": info["pair"], "gadget": g})
    if chk.counters.get("missed flows whose isolated re-run gave no verdict", 0) and not any(
            sig.startswith("analysis-died") for sig, _, _ in chk.violations):
        chk.note_inconclusive("some missed flows could not be attributed: their isolated re-run showed no dynamic flow (harness fault)")
    chk.extra["coverage_table (source kind, sink kind, carrier) -> [dynamic flows, found by lian]"] = {
        f"{a}->{b} via {c}": v for (a, b, c), v in sorted(table.items())}
    chk.extra["rule_sets"] = {"extended": "rules for every base/ext name used + restricted rules + rules matching nothing",
                              "minimal": "rules for base names + restricted rules; 'ext' names are then plain external calls"}
    if not rp:
        floor = 100 if not thorough else 2500
        chk.require("dynamic flows observed in CPython (expected)", floor)
        per = 10 if not thorough else 200
        for sk in gen_flow.SOURCE_KINDS:
            chk.require(f"source kind {sk}: dynamic flows", per)
        for tk in gen_flow.SINK_KINDS:
            chk.require(f"sink kind {tk}: dynamic flows", per)
        for c in gen_flow.CARRIERS + ("direct",):
            chk.require(f"carrier {c}: dynamic flows", per)
        chk.require("multi-file programs", 20 if not thorough else 500)
        chk.require("source inside a callee with 2-3 return statements: dynamic flows", 6 if not thorough else 150)
        chk.require("source behind a call statement with two possible callees: dynamic flows", 6 if not thorough else 150)
        chk.require("sink rule with several targets: dynamic flows", 8 if not thorough else 150)
        chk.require("parameter passing with several keyword arguments: dynamic flows", 8 if not thorough else 150)
        chk.require("self-redefinition, copy, operator (op.6): dynamic flows", 20 if not thorough else 400)
        chk.require("restricted rule that applies: dynamic flows", 20 if not thorough else 400)
        chk.require("decoy sites (same name, excluded by the restriction)", 20 if not thorough else 400)
        if chk.counters.get("gadgets intended positive but not observed dynamically", 0) or \
                chk.counters.get("gadgets intended negative but observed dynamically", 0):
            chk.note_inconclusive("generator and dynamic oracle disagree on some gadget (harness fault)")
    else:
        chk.nontrivial_case("replay-a")
        chk.nontrivial_case("replay-b")
    chk.assumptions += [
        "a flow is identified by (file, line) of its source statement and (file, line) of its sink statement; statement ids are "
        "joined to lines through frontend/gir.bundle* (start_row + 1); generated programs avoid `import a.b, c` forms",
        "calls to names the program does not define are unknown code: the dynamic run gives their results no taint, so no flow is "
        "demanded through them",
        "comparisons and truth tests yield untainted booleans (implicit flows are outside the property)",
        "the field-write sink's designated expression is the value written, the record-write sink's the value stored under the key",
    ]
    sys.exit(chk.finish())


if __name__ == "__main__":
    main()
