"""C07 — every call that can happen at run time is in the computed call graph.

Oracle: CPython. Each generated project (lib/gen_calls.py: 1-4 files, one call per line, every call site labelled with
its call kind) is executed under sys.setprofile from its entry (module top level = lian's %unit_init, or a configured
function); every call event whose caller and callee are functions of the generated files gives a demand
(entry E, caller M, call line S, callee F).
Observation (one `semantic` run of the real pipeline per project, in a forked child):
  (a) semantic_p3/call_paths_p3 must hold a path that starts at E and contains (M, S, F);
  (b) the live loader's get_callees / get_callers (phase p3, by id, for entry E) must agree with (a);
  (c) the recording wrappers on P3 (lib/monitors/callgraph.py) must have seen a frame (E, M, S, F) that was handed to the
      statement analysis, had statements computed, and ran to completion.
The join between CPython and GIR ids is by (file, def line) and (file, call line) and is verified (names, ownership)."""
import json
import os
import random
import sys

from lib import common, forkpool, lianrun, gen_calls
from lib.monitors import callgraph

PROP = "C07"


def write_project(root, project):
    for rel, text in project["files"].items():
        p = os.path.join(root, rel)
        os.makedirs(os.path.dirname(p), exist_ok=True)
        with open(p, "w") as f:
            f.write(text)


def entry_yaml(project):
    return f"- method_list: ['{project['entry']['name']}']\n"


def analyse_python(job):
    """child: one lian run + oracle (CPython, or node for the JavaScript rendering) + judgement for one project"""
    project = job["project"]
    tag = project["tag"]
    lang = project.get("lang", "python")
    rec = callgraph.install_p3_recorder()
    sc = common.scratch()
    root = os.path.join(sc, f"c07_{tag}", f"src_{tag}")
    write_project(root, project)
    st = lianrun.write_settings(os.path.join(sc, f"c07_{tag}", "settings"), entry=entry_yaml(project))
    ws = os.path.join(sc, f"c07_{tag}", "ws")
    extra = ["-q"] + (["--enable-p2"] if job.get("enable_p2") else [])
    app = lianrun.run_lian(lianrun.lian_argv("semantic", lang, [root], ws, st, extra))
    wsd = lianrun.ws_dir(ws)
    res = {"tag": tag, "fails": [], "harness": [], "events": 0, "dyn_calls": 0, "per_kind": {}, "frames": len(rec["frames"]),
           "wrapper_calls": rec["wrapper_calls"], "paths": 0, "entries": len(rec["entries"]), "files": len(project["files"]),
           "mode": project["entry"]["mode"], "lang": lang, "api_checks": 0, "skipped_not_entry": 0, "max_depth": 0, "recorder_errors": rec["errors"][:3],
           "shadowed": 0, "p2": bool(job.get("enable_p2"))}
    paths = callgraph.read_call_paths(wsd)
    if paths is None:
        paths = []
        res["no_call_path_file"] = True
    res["paths"] = len(paths)
    gi = callgraph.GirIndex(wsd)
    # ---- oracle ------------------------------------------------------------------------------------
    events, err = callgraph.python_call_events(root, project) if lang == "python" else callgraph.node_call_events(root, project)
    if err:
        res["harness"].append(f"generated program did not run to completion under {'CPython' if lang == 'python' else 'node'}: {err}")
    res["dyn_calls"] = sum(v["n"] for v in events.values())
    # ---- join ----------------------------------------------------------------------------------------
    unit_of = {}
    for rel in project["files"]:
        u = gi.unit_for(os.path.join(root, rel))
        if u is None:
            res["harness"].append(f"file {rel} has no unit in module_symbols")
        unit_of[rel] = u
    def_of = {(d["file"], d["first_line"]): d for d in project["defs"]}
    site_of = {(s["file"], s["line"]): s for s in project["sites"]}
    mid_cache = {}

    def mid(key):
        if key in mid_cache:
            return mid_cache[key]
        rel, what = key
        u = unit_of.get(rel)
        r = None
        if u is not None:
            if what == "<module>":
                r = gi.unit_init.get(u)
            else:
                d = def_of.get(key)
                if d is not None:
                    r = gi.method_id(u, d["line"], d["first_line"], d["name"])
        mid_cache[key] = r
        return r

    path_sets = {}          # entry -> set of triples on paths starting there
    for p in paths:
        if not p:
            continue
        path_sets.setdefault(p[0][0], set()).update(p)
    all_triples = set()
    for s in path_sets.values():
        all_triples |= s
    started = set(rec["entries"])
    done_frames = {k for k, v in rec["frames"].items() if v["analyze"] > 0 and v["stmts"] > 0 and v["done"] > 0}
    analysed_under = {(k[0], k[3]) for k in done_frames}
    res["max_depth"] = max([v["depth"] for v in rec["frames"].values()] or [0])
    api_cache = {}
    try_sites = {(s_["file"], s_["line"]) for s_ in project["sites"] if s_.get("ctrl") in ("try", "finally", "after-try")}
    bound_sites = {(s_["file"], s_["line"]) for s_ in project["sites"] if s_.get("kind") == "bound-method-value"}
    # ---- pass 1: every event gets a raw verdict ------------------------------------------------------------------
    judged = {}        # event key -> dict(kind, why, detail, ids, ...)
    for key in sorted(events, key=lambda q: (q[1][0], q[2], str(q[3]))):
        rootk, callerk, line, calleek = key
        info = events[key]
        site = site_of.get((callerk[0], line))
        d = def_of.get(calleek)
        if site is None or d is None:
            res["harness"].append(f"call event at {callerk[0]}:{line} -> {calleek} is not a registered site/def")
            continue
        if site.get("callee") and site["callee"] != d["qual"]:
            res["harness"].append(f"site {callerk[0]}:{line} expected {site['callee']}, CPython called {d['qual']}")
            continue
        if project["entry"]["mode"] == "unit_init" and rootk[1] != "<module>":
            res["harness"].append(f"root {rootk} is not a module although the entry is the unit initialiser")
            continue
        if project["entry"]["mode"] == "method" and not (rootk[1] != "<module>" and def_of[rootk]["name"] == project["entry"]["name"]):
            res["skipped_not_entry"] += 1     # module-level code that runs while importing: not under the configured entry
            continue
        under_try = bool(info["stacks"]) and all(any((fl[0], fl[1]) in try_sites for fl in st) for st in info["stacks"])
        caller_cls = def_of[callerk]["cls"] if callerk[1] != "<module>" else None
        other_cycle = False
        for st_ in info["stacks"]:
            fns = [fl[2] for fl in st_ if fl[2] not in (calleek, callerk)]
            if len(fns) != len(set(fns)):
                other_cycle = True
        under_bound = bool(info["stacks"]) and all(any((fl[0], fl[1]) in bound_sites for fl in st) for st in info["stacks"])
        kind = gen_calls.event_kind(project, site, d["qual"], sorted(info["recv"]), under_try, caller_cls, other_cycle, under_bound)
        if lang != "python":
            kind = f"{lang}/{kind}"
        if job.get("enable_p2"):
            # with --enable-p2 object instantiation behaves differently as a whole: constructor calls and calls on objects of
            # classes without constructor are each one mechanism there
            if kind.startswith("constructor"):
                kind = "constructor"
            elif kind.endswith("{receiver-class-without-constructor}"):
                kind = "method-on-object-of-class-without-constructor"
            kind = "p2/" + kind
        e, m, f = mid(rootk), mid(callerk), mid(calleek)
        u = unit_of.get(callerk[0])
        rows = gi.call_rows(u, line) if u is not None else []
        if len(rows) > 1 and site["kind"] == "super-init-call":
            rows = [r_ for r_ in rows if r_["operation"] == "object_call_stmt" and r_.get("field") == "__init__"]
        if len(rows) > 1 and lang == "javascript":
            # `var o = new K(..)` may be lowered to a new_object row plus helper rows: the statement that carries the call is the
            # one that defines the variable written on that line
            tgt = project["files"][callerk[0]].splitlines()[line - 1].strip().split("=")[0].replace("var", "").strip()
            named = [r_ for r_ in rows if r_.get("target") == tgt]
            if len(named) == 1:
                rows = named
        if e is None or m is None or f is None or len(rows) != 1:
            res["harness"].append(f"join failed for {callerk[0]}:{line} ({kind}): entry={e} caller={m} callee={f} call rows on line={len(rows)}")
            continue
        s = int(rows[0]["stmt_id"])
        own = gi.owner_method(s)
        if own != m:
            res["harness"].append(f"call row {s} on {callerk[0]}:{line} is owned by method {own}, CPython's caller is {m}")
            continue
        vis = rows[0].get("name") if rows[0]["operation"] == "call_stmt" else rows[0].get("field")
        if site["kind"] in ("direct", "from-import", "recursion", "mutual-recursion", "nested-function") and vis != d["name"]:
            res["harness"].append(f"call row {s} names {vis}, callee is {d['name']}")
            continue
        why, detail = None, ""
        if e not in started:
            why, detail = "entry-never-started", f"P3 never started from entry {e}"
        elif (m, s, f) not in path_sets.get(e, ()):
            why = "missing-edge"
            detail = "no stored call path from the entry contains the edge" + (" (it occurs under another entry)" if (m, s, f) in all_triples else "")
        else:
            if (e, m, f) not in api_cache:
                try:
                    cal = app.loader.get_callees(m, phase="p3", match="id", entry_point_id=e)
                    clr = app.loader.get_callers(f, phase="p3", match_by="id", entry_point_id=e)
                    api_cache[(e, m, f)] = (f in cal, m in clr)
                except Exception as ex:           # noqa
                    api_cache[(e, m, f)] = ("raised", repr(ex)[:200])
            res["api_checks"] += 1
            a = api_cache[(e, m, f)]
            if a != (True, True):
                why, detail = "loader-api-disagrees-with-stored-paths", f"get_callees/get_callers gave {a}"
            elif (e, m, s, f) not in done_frames:
                why = "callee-not-analysed-under-call-site"
                detail = f"the edge is stored but the recorded frame is {rec['frames'].get((e, m, s, f))}"
        judged[key] = {"kind": kind, "why": why, "detail": detail, "ids": (e, m, s, f), "site": site, "qual": d["qual"], "n": info["n"],
                       "caller_analysed": (m == e or (e, m) in analysed_under)}
    # ---- pass 2: a failing event is *derived* when the analysis could not have got there because an earlier demand already
    # failed: (a) every dynamic stack that led to it contains a failed call edge, or its caller was never analysed at all;
    # (b) the value it needs (receiver object, function value) was produced by a call whose edge failed. Derived failures are
    # counted, not reported: their root is reported on its own.
    by_site_fail = {}
    for key, v in judged.items():
        by_site_fail.setdefault((key[1][0], key[2]), []).append(key)
    status = {}

    def failed_or_derived(key, depth=0):
        """True if the event's demand is not met (whether as a root failure or as a derived one)"""
        v = judged.get(key)
        return v is not None and v["why"] is not None

    def is_derived(key):
        if key in status:
            return status[key]
        status[key] = False            # cycle guard (recursion): treat as not derived while computing
        v = judged[key]
        rootk, callerk, line, calleek = key
        derived = False
        if not v["caller_analysed"]:
            derived = True
        if not derived:
            stacks = events[key]["stacks"]
            if stacks:
                all_blocked = True
                for st in stacks:
                    blocked = False
                    # st[0] is the caller frame (its line is this call); the edge that created frame i-1 is (func_i, line_i, func_{i-1})
                    for i2 in range(1, len(st)):
                        anc = (rootk, st[i2][2], st[i2][1], st[i2 - 1][2])
                        if failed_or_derived(anc):
                            blocked = True
                            break
                    if not blocked:
                        all_blocked = False
                        break
                derived = all_blocked
        if not derived:
            for dep in v["site"].get("deps", []):
                for dk in by_site_fail.get((dep[0], dep[1]), []):
                    if failed_or_derived(dk):
                        derived = True
                        break
                if derived:
                    break
        status[key] = derived
        return derived

    seen_sig = set()
    for key in sorted(judged, key=lambda q: (q[1][0], q[2], str(q[3]))):
        v = judged[key]
        rootk, callerk, line, calleek = key
        kind, why = v["kind"], v["why"]
        if why is not None and is_derived(key):
            res["shadowed"] += 1
            if job.get("verbose"):
                res.setdefault("trace", []).append(f"{callerk[0]}:{line:<4d} {kind:60s} -> {v['qual']:40s} derived ({why})")
            continue
        res["events"] += 1
        pk = res["per_kind"].setdefault(kind, [0, 0])
        pk[0] += 1
        if job.get("verbose"):
            res.setdefault("trace", []).append(f"{callerk[0]}:{line:<4d} {kind:60s} -> {v['qual']:40s} {why or 'ok'}")
        if why is None:
            continue
        pk[1] += 1
        sig = f"{kind}:{why}"
        if sig in seen_sig:
            continue
        seen_sig.add(sig)
        e, m, s, f = v["ids"]
        desc = (f"{callerk[0]}:{line} `{project['files'][callerk[0]].splitlines()[line - 1].strip()}` in "
                f"{'module top level' if callerk[1] == '<module>' else def_of[callerk]['qual']} called {v['qual']} {v['n']}x under {'CPython' if lang == 'python' else 'node'} "
                f"(entry {project['entry']['name']}; ids entry={e} caller={m} stmt={s} callee={f}): {v['detail']}")
        res["fails"].append((sig, desc, {"lang": lang, "project": project, "enable_p2": bool(job.get("enable_p2")),
                                         "event": {"file": callerk[0], "line": line, "callee": v["qual"], "kind": kind}}))
    return res


analyse = analyse_python


def load_extra_findings(chk):
    """VERIF_EXTRA_FINDINGS=<json> merges further known findings (same format as known_findings.json) for this run only; used
    to validate a check against findings that are proposed but not yet committed to known_findings.json."""
    p = os.environ.get("VERIF_EXTRA_FINDINGS")
    if not p:
        return
    with open(p) as f:
        for e in json.load(f).get("findings", []):
            if e.get("property") == chk.prop and not str(e.get("status", "open")).startswith("fixed"):
                chk.findings.open[e["signature"]] = e


def main():
    lianrun.prepare_zygote(warm=False)
    chk = common.Check(PROP, rule=(
        "generated Python projects (1-4 files, optional package directory, entry = unit initialiser or a configured function), one "
        "call per line, each run by CPython under sys.setprofile, plus the same generator rendered as single-file JavaScript with "
        "node as the oracle; distinct_nontrivial = distinct (project, call line, callee) "
        "call events between generated functions whose (entry, caller, call statement, callee) was looked up in the stored call "
        "paths, the loader API and the recorded P3 frames"))
    thorough = chk.tier == "thorough"
    rp = os.environ.get("VERIF_REPLAY")
    load_extra_findings(chk)
    jobs = []
    rng = random.Random(chk.seed)
    if rp:
        with open(rp) as f:
            case = json.load(f)["case"]
        jobs.append({"project": case["project"], "enable_p2": case.get("enable_p2", False)})
    else:
        n = 160 if not thorough else 3000
        base = rng.randrange(1 << 30)
        for i in range(n):
            p2 = (i % 10 == 9)        # every tenth project is a single-file one analysed with --enable-p2
            proj = gen_calls.generate(base + i, f"s{chk.seed}p{i}", **({"n_files": 1} if p2 else {}))
            jobs.append({"project": proj, "enable_p2": p2})
        # the same generator rendered as single-file JavaScript, node as the oracle
        for i in range(36 if not thorough else 500):
            jobs.append({"project": gen_calls.generate_js(base + 100000 + i, f"s{chk.seed}j{i}"), "enable_p2": False})
    kinds_ok = {}
    n_sample = 0
    for r in forkpool.run_jobs(analyse_python, jobs, timeout=300 if not thorough else 900, tag="c07"):
        proj = r.item["project"]
        if r.status != "ok":
            if r.status in ("exception", "exit", "signal"):
                what = r.value[0] if r.status == "exception" else r.status
                chk.fail(f"analysis-died:{what}",
                         f"semantic run over project {proj['tag']} ended with {r.status}: {str(r.value)[:500]} {r.log_text(800)}",
                         {"lang": "python", "project": proj, "enable_p2": r.item.get("enable_p2", False)})
            else:
                chk.note_inconclusive(f"project {proj['tag']}: {r.status}")
            continue
        v = r.value
        chk.evaluated(1)
        chk.count("call events judged (distinct entry/caller/line/callee)", v["events"])
        chk.count("dynamic calls executed by the oracle (CPython, node)", v["dyn_calls"])
        chk.count("P3 frames recorded by the wrapper", v["frames"])
        chk.count("P3 wrapper invocations", v["wrapper_calls"])
        chk.count("stored call paths read", v["paths"])
        chk.count("entries P3 started from", v["entries"])
        chk.count("loader get_callees/get_callers cross-checks", v["api_checks"])
        chk.count("events outside the configured entry (not judged)", v["skipped_not_entry"])
        chk.count("failing events derived from an already reported failure (caller never analysed / value from a failed call; not reported again)", v["shadowed"])
        chk.count(f"projects with {min(v['files'], 3)}{'+' if v['files'] >= 3 else ''} file(s)", 1)
        chk.count(f"projects with entry mode {v['mode']}", 1)
        chk.count(f"{v['lang']} projects", 1)
        chk.count(f"{v['lang']}: call events judged", v["events"])
        if v["files"] > 1:
            chk.count("multi-file projects", 1)
        if v["p2"]:
            chk.count("projects run with --enable-p2", 1)
        if v["max_depth"] >= 3:
            chk.count("projects with analysed call depth >= 3", 1)
        for k, (n_ev, n_bad) in v["per_kind"].items():
            ent = kinds_ok.setdefault(k, [0, 0])
            ent[0] += n_ev
            ent[1] += n_bad
        for h in v["harness"]:
            chk.note_inconclusive(f"harness: project {v['tag']}: {h}")
        if v["recorder_errors"]:
            chk.note_inconclusive(f"recorder raised: {v['recorder_errors']}")
        for i in range(v["events"]):
            chk.nontrivial_case((v["tag"], i))
        for sig, desc, case in v["fails"]:
            chk.fail(sig, desc, case)
        if n_sample < 3 and v["events"] >= 8 and v["files"] >= 2:
            n_sample += 1
            chk.sample({"files": proj["files"], "entry": proj["entry"], "events_judged": v["events"], "per_kind": v["per_kind"]})
    for k_, (a_, b_) in kinds_ok.items():
        if "callback-with-two-candidate-values/" in k_ and not k_.startswith("p2/"):
            chk.count("events of a callback with two candidate values (both candidates run)", a_)
            chk.count("events in which the " + ("first" if "/first-candidate" in k_ else "second") + " of two candidate callbacks runs", a_)
        if "call-through-parameter-of-one-of-two-targets/" in k_ and not k_.startswith("p2/"):
            chk.count("events of a call through a parameter inside one of two targets of one call statement", a_)
        if ("re-exported-function" in k_ or "re-exported-class" in k_) and not k_.startswith("p2/"):
            chk.count("events of a call through a name that an intermediate module only re-exports", a_)
        if "callback-keyword-argument/" in k_ and "non-alphabetical" in k_:
            chk.count("events of a callback passed among keywords written in non-alphabetical order", a_)
    chk.extra["per_call_kind"] = {k: {"events": a, "failed": b} for k, (a, b) in sorted(kinds_ok.items())}
    chk.count("distinct call kinds exercised", len(kinds_ok))
    chk.count("distinct call kinds with every event satisfied", sum(1 for a, b in kinds_ok.values() if b == 0))
    for k, (a, b) in sorted(kinds_ok.items()):
        print(f"  kind {k:60s} events={a:6d} failed={b:6d}")
    if not rp:
        chk.require("call events judged (distinct entry/caller/line/callee)", 1500 if not thorough else 30000)
        chk.require("P3 frames recorded by the wrapper", 1500 if not thorough else 30000)
        chk.require("distinct call kinds exercised", 25)
        chk.require("distinct call kinds with every event satisfied", 5)
        chk.require("multi-file projects", 40 if not thorough else 800)
        chk.require("projects with entry mode method", 20 if not thorough else 400)
        chk.require("projects with entry mode unit_init", 40 if not thorough else 800)
        chk.require("loader get_callees/get_callers cross-checks", 300)
        chk.require("events of a call through a parameter inside one of two targets of one call statement", 80 if not thorough else 1500)
        chk.require("events of a call through a name that an intermediate module only re-exports", 12 if not thorough else 250)
        chk.require("events of a callback with two candidate values (both candidates run)", 120 if not thorough else 2000)
        chk.require("events in which the first of two candidate callbacks runs", 50 if not thorough else 900)
        chk.require("events in which the second of two candidate callbacks runs", 50 if not thorough else 900)
        chk.require("events of a callback passed among keywords written in non-alphabetical order", 20 if not thorough else 400)
        chk.require("python: call events judged", 1200 if not thorough else 25000)
        chk.require("javascript: call events judged", 300 if not thorough else 5000)
    else:
        chk.nontrivial_case("replay-a"); chk.nontrivial_case("replay-b")
    chk.assumptions += [
        "CPython's sys.setprofile call events (node with entry/call-line instrumentation of a never-analysed copy for JavaScript) are "
        "the ground truth for 'an execution calls F from call site S of M'",
        "class instantiation K(..) counts as a call of the __init__ that runs (own or inherited); classes without __init__ give no demand",
        "'F is analysed under that call site' = a P3 frame (caller M, call statement S, method F) under the same entry was handed to "
        "analyze_stmts, had statement states computed, and reached generate_and_save_analysis_summary",
        "module-level code of a file is an execution from that file's %unit_init; under a configured function entry only calls below "
        "that function are demanded",
    ]
    sys.exit(chk.finish())


if __name__ == "__main__":
    main()
