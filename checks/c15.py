"""C15 — every result saved through the loader is what later reads and the files return.

The real `Loader(options)` (built on a scratch workspace the way lian builds it) is driven, per loader family, through
  (a) all histories of <= d operations (save / get / export / export_indexing / restore-into-a-fresh-Loader) over
      ids {1,2,3} with three contents per id (two non-empty, one empty), id-symmetry reduced, under several
      item-cache / bundle-cache / MAX_ROWS configurations (bounded exhaustive),
  (b) seeded random longer histories over the full 36-point configuration grid,
  (c) save / export / restore histories for the in-memory map loaders (one-to-many maps, call graph, call paths,
      entry points, summaries, import/type graph ...) through the public Loader API,
  (d) histories with one injected write fault (n-th DataFrame.to_feather raises ENOSPC, or the target path is
      occupied by a directory so that the native writer fails): the failure must reach the caller as an exception or
      as a printed diagnostic carrying its message,
  (e) real `run`/`semantic` analyses of small Python/JavaScript/Java programs (with and without --enable-p2, default
      and tight cache/bundle configuration): every item of every GeneralLoader member is compared between what its
      last save() received, the live loader and a fresh `Loader(options).restore()`; LRUCache / GeneralLoader
      post-conditions (icontract) stay on and count their evaluations; every exception swallowed by DataModel.save
      is recorded. Each analysis runs as a pair under the default and under a tight loader configuration: the tight
      run must complete when the default one does, and every loader must have been given the same final content
      (cache sizes and bundle limits are supposed to be invisible).
The oracle is a dict id -> last saved content compared through canonical forms computed by lib/monitors/loader.py from
the objects themselves; every history closes with: read all, export, export_indexing, independent pandas read of the
index and bundle files, read all again, fresh-loader read of all."""
import json
import os
import random
import sys

from lib import common, forkpool, lianrun
from lib.monitors import loader as lmon

PROP = "C15"

CFG_TIGHT = (1, 1, 3)
CFG_LOOSE = (3, 2, 8)
CFG_MID = (2, 1, 5)
CFG_MID2 = (1, 2, 4)
GRID = [(a, b, c) for a in (1, 2, 3) for b in (1, 2) for c in (3, 4, 5, 6, 7, 8)]
VARIANTS = ("A", "B", "E")


# ---------------------------------------------------------------------------------------------------
# history generation

def enum_histories(depth, variants=VARIANTS, nids=3, extra_ops=("export", "index", "restore"), reads=True):
    """All operation sequences of length 1..depth, ids introduced in order (id symmetry), no read of a never-saved id."""
    out = []

    def rec(h, used):
        if h:
            out.append(list(h))
        if len(h) == depth:
            return
        for i in range(1, min(used + 1, nids) + 1):
            for v in variants:
                rec(h + [["save", i, v]], max(used, i))
        if reads:
            for i in range(1, used + 1):
                rec(h + [["get", i]], used)
        for k in extra_ops:
            rec(h + [[k]], used)
    rec([], 0)
    return out


def random_history(rng, n):
    h = []
    for _ in range(n):
        r = rng.random()
        if r < 0.42:
            h.append(["save", rng.choice(lmon.IDS), rng.choices(VARIANTS, [5, 4, 1])[0]])
        elif r < 0.72:
            h.append(["get", rng.choice(lmon.IDS)])
        elif r < 0.84:
            h.append(["export"])
        elif r < 0.93:
            h.append(["index"])
        else:
            h.append(["restore"])
    return h


def random_history_map(rng, n, mf):
    h = []
    ids = (1,) if mf.single else lmon.IDS
    vs = ("A", "B", "E") if mf.empties else ("A", "B")
    for _ in range(n):
        r = rng.random()
        if r < 0.6:
            h.append(["save", rng.choice(ids), rng.choice(vs)])
        elif r < 0.8:
            h.append(["export"])
        else:
            h.append(["restore"])
    return h


def class_of(name):
    return name.split("[")[0]


def representatives():
    """One instance per loader class for the exhaustive part; the remaining instances get smoke + random histories."""
    seen, reps, rest = set(), [], []
    prefer = {"BitVectorManagerLoader": "BitVectorManagerLoader[state_p3]", "StmtStatusLoader": "StmtStatusLoader[p3]",
              "SymbolStateSpaceLoader": "SymbolStateSpaceLoader[p3]", "MethodSymbolToDefinedLoader": "MethodSymbolToDefinedLoader[p3]",
              "MethodStateToDefinedLoader": "MethodStateToDefinedLoader[p2]", "SymbolGraphLoader": "SymbolGraphLoader[p2]",
              "StateFlowGraphLoader": "StateFlowGraphLoader[p3]", "CalleeParameterMapping": "CalleeParameterMapping[p3]"}
    for n in lmon.families():
        c = class_of(n)
        if prefer.get(c, n) == n and c not in seen:
            seen.add(c)
            reps.append(n)
        else:
            rest.append(n)
    return reps, rest


DEEP = ["CFGLoader", "StmtStatusLoader[p3]", "UnitGIRLoader", "CalleeParameterMapping[p3]"]

FAULT_HISTORIES = [
    [["save", 1, "A"], ["save", 2, "B"], ["save", 3, "A"]],
    [["save", 1, "A"], ["export"], ["save", 1, "B"], ["get", 1], ["save", 2, "B"]],
]

REAL_PROGRAMS = {
    "python": {
        "a.py": "import b\nfrom b import helper\n\nclass A:\n    def __init__(self, v):\n        self.v = v\n        self.items = [v, 2]\n    def get(self):\n        return self.v\n\ndef f(a, b=2, *rest, **kw):\n    t = 0\n    for i in [1, 2, 3]:\n        if i > a:\n            t = t + i\n        else:\n            t = t - b\n    return t\n\ndef g():\n    o = A(f(1))\n    d = {'k': o.get()}\n    return helper(d['k'], 3, 4, z=5)\n\nr = g()\n",
        "b.py": "def helper(x, *more, **named):\n    y = x\n    return y\n\ndef unused():\n    pass\n"},
    "javascript": {
        "m.js": "function f(a, b) { let t = 0; for (let i = 0; i < 3; i++) { if (i > a) { t = t + i; } else { t = t - b; } } return t; }\nclass A { constructor(v) { this.v = v; } get() { return this.v; } }\nfunction g() { let o = new A(f(1, 2)); return o.get(); }\nlet r = g();\n"},
    "java": {
        "M.java": "public class M { int v; M(int v) { this.v = v; } int get() { return this.v; } static int f(int a, int b) { int t = 0; for (int i = 0; i < 3; i++) { if (i > a) { t = t + i; } else { t = t - b; } } return t; } public static void main(String[] x) { M o = new M(f(1, 2)); o.get(); } }\n"},
}
REAL_PROGRAMS_2 = {
    "python": {
        "p.py": "class Node:\n    def __init__(self, val, nxt=None):\n        self.val = val\n        self.nxt = nxt\n\ndef build(n):\n    head = None\n    i = 0\n    while i < n:\n        head = Node(i, head)\n        i = i + 1\n    return head\n\ndef total(node):\n    s = 0\n    while node:\n        s = s + node.val\n        node = node.nxt\n    return s\n\ndef main():\n    h = build(3)\n    fn = total\n    return fn(h)\n\nx = main()\n"},
    "javascript": {
        "q.js": "function mk(v) { return { val: v, get: function () { return this.val; } }; }\nfunction apply(f, x) { return f(x); }\nfunction inc(y) { return y + 1; }\nfunction main() { let o = mk(2); let r = apply(inc, o.get()); let arr = [1, r]; return arr[1]; }\nlet out = main();\n"},
    "java": {
        "P.java": "public class P { static int twice(int a) { return a + a; } static int pick(int[] xs, int i) { if (i < xs.length) { return xs[i]; } return 0; } public static void main(String[] x) { int[] v = new int[] {1, 2}; int r = twice(pick(v, 1)); } }\n"},
}
TIGHT_REAL = {"LRU_CACHE_CAPACITY": 2, "MIN_CACHE_CAPACITY": 1, "GIR_CACHE_CAPACITY": 1, "BUNDLE_CACHE_CAPACITY": 1, "MAX_ROWS": 40}


# ---------------------------------------------------------------------------------------------------
# children

def _root():
    root = os.path.join(common.scratch(), "c15_%d" % os.getpid())
    os.makedirs(root, exist_ok=True)
    return root


def _keep(fails, sig, detail, case, short):
    kept = sum(1 for x in fails if x[0] == sig)
    if kept < 2 or (kept < 4 and short):
        fails.append((sig, detail, case))


def history_job(job):
    """Child: a chunk of histories for one GeneralLoader family under one configuration."""
    fam, cfg, hists = job["family"], tuple(job["cfg"]), job["histories"]
    root = _root()
    cs = lmon.install_contracts()
    stats = {"histories": 0, "reads": 0, "sources": {}, "multi_bundle": 0, "auto_exports": 0, "by_sig": {}}
    fails = []
    for h in hists:
        ncf = len(cs.failures)
        r = lmon.run_history(fam, cfg, h, root)
        for name, detail in cs.failures[ncf:ncf + 3]:
            r["failures"].append({"signature": "contract:" + name, "detail": detail, "id": 0, "step": -1})
        stats["histories"] += 1
        stats["reads"] += r["reads"]
        stats["auto_exports"] += r["auto_exports"]
        for k, v in r["sources"].items():
            stats["sources"][k] = stats["sources"].get(k, 0) + v
        if r["bundles"] >= 2:
            stats["multi_bundle"] += 1
        seen = set()
        for f in r["failures"]:
            sig = f["signature"]
            if sig in seen:
                continue
            seen.add(sig)
            stats["by_sig"][sig] = stats["by_sig"].get(sig, 0) + 1
            _keep(fails, sig, f["detail"], {"kind": "history", "family": fam, "cfg": list(cfg), "history": h,
                                           "failing_item": f.get("id"), "step": f.get("step")}, len(h) <= 3)
    stats["contracts"] = dict(cs.evaluated)
    stats["foreign_rows"] = lmon.FOREIGN_ROWS[0]
    return stats, fails


def map_job(job):
    fam, hists = job["family"], job["histories"]
    root = _root()
    stats = {"histories": 0, "reads": 0, "by_sig": {}}
    fails = []
    for h in hists:
        r = lmon.run_map_history(fam, h, root)
        stats["histories"] += 1
        stats["reads"] += r["reads"]
        seen = set()
        for f in r["failures"]:
            sig = f["signature"]
            if sig in seen:
                continue
            seen.add(sig)
            stats["by_sig"][sig] = stats["by_sig"].get(sig, 0) + 1
            _keep(fails, sig, f["detail"], {"kind": "map", "family": fam, "history": h, "failing_item": f.get("id")}, len(h) <= 3)
    return stats, fails


def fault_job(job):
    """Child: for one family/configuration/history inject a fault into every write, one at a time, both modes."""
    fam, cfg, h = job["family"], tuple(job["cfg"]), job["history"]
    only = job.get("only")
    root = _root()
    mon = lmon.install_write_monitor()
    stats = {"runs": 0, "reached": 0, "reported_by_exception": 0, "reported_by_diagnostic": 0, "not_reported": 0, "lost_later": 0, "by_sig": {}}
    fails = []

    def one(mode, n):
        r = lmon.run_fault_history(fam, cfg, h, root, mode, n)
        stats["runs"] += 1
        if r["outcome"] != "no-fault-reached":
            stats["reached"] += 1
            f = r["fault"]
            if not f["reported"]:
                stats["not_reported"] += 1
            elif f["raised"]:
                stats["reported_by_exception"] += 1
            else:
                stats["reported_by_diagnostic"] += 1
            if r["lost_later"]:
                stats["lost_later"] += 1
        for f in r["failures"]:
            if "write-failure-not-reported" not in f["signature"]:
                continue            # ordinary read failures are the business of the fault-free histories
            stats["by_sig"][f["signature"]] = stats["by_sig"].get(f["signature"], 0) + 1
            _keep(fails, f["signature"], f["detail"], {"kind": "fault", "family": fam, "cfg": list(cfg), "history": h, "mode": mode,
                                                       "n": n if mode == "raise" else os.path.relpath(n, os.path.join(root, "ws"))}, True)
        return r

    if only:
        mode, n = only
        one(mode, n if mode == "raise" else os.path.join(root, "ws", n))
        return stats, fails
    p0 = len(mon.paths)
    one("raise", 10 ** 9)           # fault-free pass: learns how many writes the history makes and where
    paths = list(mon.paths[p0:])
    for n in range(1, min(len(paths), 8) + 1):
        one("raise", n)
    done = set()
    for p in paths:
        if p in done or len(done) >= 6:
            continue
        done.add(p)
        one("block", p)
    return stats, fails


def real_job(job):
    """Child: one real analysis with all monitors on, then live / restored / saved comparison."""
    import time
    lang, sub, p2, tight, progs = job["lang"], job["sub"], job["p2"], job["tight"], job["programs"]
    wm = lmon.install_write_monitor()
    cs = lmon.install_contracts()
    rec = lmon.install_save_recorder()
    if tight:
        from lian.config import config
        for k, v in TIGHT_REAL.items():
            setattr(config, k, v)
        if job.get("compensate_sfg", True):
            # known finding StateFlowGraphLoader:...:feather-write-failed: the SFG bundles exist only in the bundle cache.
            # Keep them there, so that the tight run reaches its end and everything else can be judged; the finding itself is
            # still reported from the files, and one run per tier stays uncompensated to document the crash.
            import lian.util.loader as lmod
            o_init = lmod.Loader.__init__

            def init(self, options, *a, **k):
                o_init(self, options, *a, **k)
                for attr in ("_state_flow_graph_p2_loader", "_state_flow_graph_p3_loader"):
                    getattr(self, attr).bundle_cache.capacity = 10 ** 6
            lmod.Loader.__init__ = init
    sc = _root()
    src = os.path.join(sc, "src")
    os.makedirs(src, exist_ok=True)
    for n, t in progs.items():
        with open(os.path.join(src, n), "w") as f:
            f.write(t)
    st = lianrun.write_settings(os.path.join(sc, "settings"), entry="- method_list: ['%unit_init', 'main', 'g']\n")
    ws = os.path.join(sc, "out")
    import lian.main as lmain
    sys.argv = lianrun.lian_argv(sub, lang, [src], ws, st, ["-q"] + (["--enable-p2"] if p2 else []))
    app = lmain.Lian()
    err = None
    t0 = time.time()
    try:
        app.run()
    except SystemExit as e:
        err = {"type": "SystemExit", "where": "?", "msg": str(e.code)}
    except Exception as e:
        err = {"type": type(e).__name__, "where": lmon.innermost_lian_frame(e.__traceback__), "msg": str(e)[:200]}
    res = {"err": err, "wall": time.time() - t0, "saves": rec.count, "uncanon": rec.uncanon, "contracts": cs.evaluated,
           "contract_failures": cs.failures[:10], "writes": wm.calls,
           "swallowed": [{"file": os.path.basename(f["path"]), "type": f["type"], "message": f["message"][:160], "reported": f["reported"]} for f in wm.swallowed],
           "cmp": None}
    res["saved_digest"] = lmon.saved_digest(app.loader, rec) if app.loader is not None else {}
    if err is None and app.loader is not None:
        res["cmp"] = lmon.compare_live_and_restored(app, rec, wm)
    elif err is not None and wm.failed and err["where"].startswith("data_model.py:load"):
        f = wm.failed[-1]
        res["write_failure_crash"] = {"file": os.path.basename(f["path"]), "type": f["type"], "message": f["message"][:160],
                                      "loader": os.path.basename(f["path"]).split(".")[0]}
    return res


# ---------------------------------------------------------------------------------------------------
# parent

def chunked(seq, n):
    k = max(1, (len(seq) + n - 1) // n)
    return [seq[i:i + k] for i in range(0, len(seq), k)]


def note_sigs(chk, by_sig):
    tab = chk.extra.setdefault("failing_cases_by_signature", {})
    for sig, n in by_sig.items():
        tab[sig] = tab.get(sig, 0) + n


def absorb_history(chk, r, label):
    if r.status != "ok":
        chk.note_inconclusive(f"{label} worker {r.status}: {r.value if r.status != 'timeout' else ''} {r.log_text(600)}")
        return
    st, fails = r.value
    chk.evaluated(st["histories"])
    chk.count(f"{label}: histories run on the real loader", st["histories"])
    chk.count("reads compared with the model", st["reads"])
    for k, v in st["sources"].items():
        chk.count(f"reads served from {k}", v)
    chk.count("histories ending with >= 2 bundle files", st["multi_bundle"])
    chk.count("saves that overflowed MAX_ROWS and exported by themselves", st["auto_exports"])
    for k, n in st.get("contracts", {}).items():
        chk.count("post-condition evaluated: " + k, n)
    chk.count("unit-level rows compared whose own unit_id differs from the key they were saved under", st.get("foreign_rows", 0))
    note_sigs(chk, st["by_sig"])
    for sig, detail, case in fails:
        chk.fail(sig, detail, case)


def absorb_map(chk, r):
    if r.status != "ok":
        chk.note_inconclusive(f"map worker {r.status}: {r.value if r.status != 'timeout' else ''} {r.log_text(600)}")
        return
    st, fails = r.value
    chk.evaluated(st["histories"])
    chk.count("map loaders: histories run", st["histories"])
    chk.count("map loaders: reads compared with the model", st["reads"])
    note_sigs(chk, st["by_sig"])
    for sig, detail, case in fails:
        chk.fail(sig, detail, case)


def absorb_fault(chk, r):
    if r.status != "ok":
        chk.note_inconclusive(f"fault worker {r.status}: {r.value if r.status != 'timeout' else ''} {r.log_text(600)}")
        return
    st, fails = r.value
    chk.evaluated(st["runs"])
    chk.count("fault injection: histories run", st["runs"])
    chk.count("fault injection: write failures that happened", st["reached"])
    chk.count("fault injection: reported by an exception reaching the caller", st["reported_by_exception"])
    chk.count("fault injection: reported by a printed diagnostic carrying the message", st["reported_by_diagnostic"])
    chk.count("fault injection: not reported", st["not_reported"])
    chk.count("fault injection: a later read returned other content (observation)", st["lost_later"])
    note_sigs(chk, st["by_sig"])
    for sig, detail, case in fails:
        chk.fail(sig, detail, case)


def absorb_real(chk, r):
    job = r.item
    label = "%s %s%s%s" % (job["lang"], job["sub"], " --enable-p2" if job["p2"] else "", " tight" if job["tight"] else "")
    if job["tight"] and not job.get("compensate_sfg", True):
        label += " (SFG bundles not kept in memory)"
    case = {"kind": "real", "lang": job["lang"], "sub": job["sub"], "p2": job["p2"], "tight": job["tight"], "programs": job["programs"],
            "compensate_sfg": job.get("compensate_sfg", True)}
    if r.status != "ok":
        chk.note_inconclusive(f"real run {label}: {r.status} {r.value if r.status != 'timeout' else ''} {r.log_text(600)}")
        return
    v = r.value
    chk.evaluated(1)
    runs = chk.extra.setdefault("real_runs", [])
    entry = {"run": label, "pipeline_error": v["err"], "saves_recorded": v["saves"], "feather_writes": v["writes"],
             "writes_swallowed_by_DataModel.save": v["swallowed"]}
    chk.count("real runs: GeneralLoader.save calls recorded", v["saves"])
    chk.count("real runs: exceptions swallowed by DataModel.save", len(v["swallowed"]))
    for k, n in v["contracts"].items():
        chk.count("post-condition evaluated: " + k, n)
    for name, detail in v["contract_failures"]:
        chk.fail("contract:" + name, f"{label}: {detail}", case)
    for s in v["swallowed"]:
        if not s["reported"]:
            chk.fail("%s:export:write-failure-not-reported[%s]" % (s["file"].split(".")[0], s["type"]),
                     f"{label}: the write of {s['file']} failed ({s['message']}) and DataModel.save swallowed it without a diagnostic", case)
    if v.get("write_failure_crash"):
        w = v["write_failure_crash"]
        fam = "StateFlowGraphLoader" if w["loader"].startswith("state_flow_graph") else w["loader"]
        chk.count("real runs: analysis stopped when a bundle whose write had failed was read back", 1)
        chk.fail("%s:save-export:feather-write-failed[%s]" % (fam, w["type"]),
                 f"{label}: the write of {w['file']} failed ({w['message']}); once the bundle left the bundle cache the analysis itself "
                 f"died reading it back: {v['err']}", case)
    elif v["err"] is not None:
        chk.count("real runs: pipeline stopped early for another reason (not judged)", 1)
    c = v["cmp"]
    if c is not None:
        chk.count("real runs compared", 1)
        chk.count("real runs: items compared (saved vs live loader)", c["items_live"])
        chk.count("real runs: items compared (saved vs fresh restored loader)", c["items_fresh"])
        chk.count("real runs: items looked up in index + bundle files", c["items_files"])
        chk.count("real runs: non-bundle loaders compared (live vs restored)", c["maps_compared"])
        chk.count("real runs: bundle files written", c["bundles"])
        entry["items"] = c["items_live"]
        entry["map_loader_differences_live_vs_restored"] = c.get("map_differences", [])
        chk.count("real runs: non-bundle loaders whose restored data differ (observation, judged by the map histories)", len(c.get("map_differences", [])))
        entry["loaders"] = {k: x for k, x in c["loaders"].items() if x["items"]}
        by = {}
        for sig, detail, extra in c["failures"]:
            by[sig] = by.get(sig, 0) + 1
            if by[sig] <= 2:
                chk.fail(sig, f"{label}: {detail}", case)
        note_sigs(chk, by)
        chk.nontrivial_case(("real", label))
    runs.append(entry)
    if job["tight"] and not job.get("compensate_sfg", True):
        return
    pairs = chk.extra.setdefault("_pairs", {})
    pk = json.dumps([job["lang"], job["sub"], job["p2"], sorted(job["programs"])])
    pairs.setdefault(pk, {})["tight" if job["tight"] else "default"] = {
        "err": v["err"], "digest": v.get("saved_digest", {}), "write_failure_crash": v.get("write_failure_crash"), "case": case, "label": label}


def judge_pairs(chk):
    """The same analysis under the default and under the tight loader configuration: cache sizes and bundle limits must be
    invisible, so the tight run completes if the default one does and every loader was given the same final content."""
    pairs = chk.extra.pop("_pairs", {})
    for pk, d in sorted(pairs.items()):
        if "default" not in d or "tight" not in d:
            continue
        a, b = d["default"], d["tight"]
        if a["err"] is not None:
            continue
        chk.count("real runs: default/tight pairs judged", 1)
        case = dict(b["case"])
        case["kind"] = "real-pair"
        if b["err"] is not None:
            if b["write_failure_crash"]:
                continue            # already reported under the write-failure signature
            chk.fail("*:real-run:analysis-dies-under-tight-loader-config[%s@%s]" % (b["err"]["type"], b["err"]["where"]),
                     f"{a['label']} completes; the same analysis with {TIGHT_REAL} dies with {b['err']['type']}: {b['err']['msg']}", case)
            continue
        n = 0
        by = {}
        for attr in sorted(set(a["digest"]) | set(b["digest"])):
            x, y = a["digest"].get(attr, {"items": {}}), b["digest"].get(attr, {"items": {}})
            cname = x.get("class") or y.get("class")
            for k in sorted(set(x["items"]) | set(y["items"])):
                n += 1
                leaves = lmon.digest_difference(x["items"].get(k), y["items"].get(k))
                if leaves:
                    by.setdefault((cname, ",".join(leaves)), []).append((attr, k))
        chk.count("real runs: last-saved items compared between default and tight configuration", n)
        for (cname, leaves), where in sorted(by.items()):
            chk.fail("%s:real-run:results-depend-on-loader-config[%s]" % (cname, leaves),
                     f"{a['label']}: {len(where)} item(s) were last saved with different content when the same analysis ran under the "
                     f"tight loader configuration (fields {leaves}), e.g. {where[:3]}", case)


def replay(chk, path):
    with open(path) as f:
        case = json.load(f)["case"]
    kind = case["kind"]
    if kind == "history":
        r = forkpool.run_one(history_job, {"family": case["family"], "cfg": case["cfg"], "histories": [case["history"]]}, timeout=300)
        absorb_history(chk, r, "replay")
    elif kind == "map":
        r = forkpool.run_one(map_job, {"family": case["family"], "histories": [case["history"]]}, timeout=300)
        absorb_map(chk, r)
    elif kind == "fault":
        r = forkpool.run_one(fault_job, {"family": case["family"], "cfg": case["cfg"], "history": case["history"],
                                         "only": [case["mode"], case["n"]]}, timeout=300)
        absorb_fault(chk, r)
    elif kind in ("real", "real-pair"):
        for tight in ([case["tight"]] if kind == "real" else [False, True]):
            item = {"kind": "real", "lang": case["lang"], "sub": case["sub"], "p2": case["p2"], "tight": tight, "programs": case["programs"],
                    "compensate_sfg": case.get("compensate_sfg", True)}
            r = forkpool.run_one(real_job, item, timeout=600)
            r.item = item
            absorb_real(chk, r)
        judge_pairs(chk)
    else:
        chk.note_inconclusive(f"unknown case kind {kind}")
    chk.nontrivial_case("replay-a")
    chk.nontrivial_case("replay-b")
    chk.sample(case)


def main():
    if "VERIF_SCRATCH" not in os.environ and os.path.isdir("/dev/shm") and os.access("/dev/shm", os.W_OK):
        os.environ["VERIF_SCRATCH"] = "/dev/shm"      # thousands of tiny workspaces: a memory file system halves the wall time
    replaying = os.environ.get("VERIF_REPLAY")
    is_real_replay = False
    if replaying:
        try:
            with open(replaying) as f:
                is_real_replay = json.load(f)["case"].get("kind") in ("real", "real-pair")
        except Exception:
            pass
    lianrun.prepare_zygote(warm=(not replaying) or is_real_replay)
    chk = common.Check(PROP, rule=(
        "per loader family: all id-symmetry-reduced histories of <= d operations over save(id, content in {A,B,empty}) / "
        "get(id) / export / export_indexing / restore-into-a-fresh-Loader on ids {1,2,3} under the listed cache/bundle "
        "configurations, plus seeded random histories of 6-24 operations over the 36-point configuration grid "
        "(item cache 1..3 x bundle cache 1..2 x MAX_ROWS 3..8); every history is closed by read-all, export, export_indexing, an "
        "independent pandas read of index and bundle files, read-all and a fresh Loader(options).restore() read-all. "
        "distinct_nontrivial = (family, configuration, history) triples run (each has >= 1 compared read) + real runs compared"))
    if replaying:
        replay(chk, replaying)
        sys.exit(chk.finish())
    thorough = chk.tier == "thorough"
    rng = random.Random(chk.seed)
    reps, rest = representatives()
    jobs = []
    # ---- (e) real analyses (they take longest per job, so they are queued first) ----
    combos = [("python", "run", False, False, 1), ("python", "run", False, True, 1), ("python", "semantic", True, False, 2),
              ("python", "semantic", True, True, 2), ("javascript", "run", False, False, 1), ("javascript", "run", False, True, 1),
              ("java", "run", True, False, 1), ("python", "run", True, False, 1)]
    if thorough:
        combos = [(lang, sub, p2, tight, k) for lang in ("python", "javascript", "java") for sub in ("run", "semantic")
                  for p2 in (False, True) for tight in (False, True) for k in (1, 2)]
    for lang, sub, p2, tight, k in combos:
        jobs.append({"kind": "real", "lang": lang, "sub": sub, "p2": p2, "tight": tight,
                     "programs": (REAL_PROGRAMS if k == 1 else REAL_PROGRAMS_2)[lang]})
    jobs.append({"kind": "real", "lang": "javascript", "sub": "run", "p2": False, "tight": True, "compensate_sfg": False,
                 "programs": REAL_PROGRAMS["javascript"]})
    # ---- (a) bounded exhaustive ----
    d_all, d_deep = (3, 4) if not thorough else (4, 5)
    h_all = enum_histories(d_all)
    h_small = enum_histories(d_all, ("A", "B"), 2)
    h_noempty = enum_histories(d_all, ("A", "B"), 3) + [h for h in enum_histories(d_all - 1) if any(op[-1] == "E" for op in h)]
    h_deep = [h for h in enum_histories(d_deep, ("A", "B"), 2) if len(h) == d_deep]   # one step deeper, two contents, two ids
    plan = []
    for fam in reps if not thorough else list(lmon.families()):
        # the empty content exercises GeneralLoader code shared by all families: full depth on the DEEP families (and on every
        # class representative in thorough), one step shallower on the others
        full = (fam in DEEP) if not thorough else (fam in reps)
        if full:
            plan.append((fam, CFG_TIGHT, h_all, 2 if not thorough else 12))
            if thorough and fam in DEEP:
                plan.append((fam, CFG_LOOSE, h_all, 12))
            else:
                plan.append((fam, CFG_LOOSE, h_small, 2 if not thorough else 4))
        elif not thorough:
            plan.append((fam, CFG_TIGHT, h_noempty, 2))
        else:
            plan.append((fam, CFG_TIGHT, enum_histories(3), 2))
            plan.append((fam, CFG_LOOSE, h_small, 4))
        if thorough and fam in DEEP:
            plan.append((fam, CFG_MID, h_small, 4))
    for fam in (DEEP[:1] if not thorough else DEEP):
        for cfg in ([CFG_TIGHT] if not thorough or fam != DEEP[0] else [CFG_TIGHT, CFG_MID2]):
            plan.append((fam, cfg, h_deep, 8 if not thorough else 32))
    for fam, cfg, hs, parts in plan:
        for c in chunked(hs, parts):
            jobs.append({"kind": "gl", "label": "exhaustive", "family": fam, "cfg": cfg, "histories": c})
    chk.extra["exhaustive_plan"] = [{"family": f, "cfg": list(c), "histories": len(h)} for f, c, h, _ in plan]
    # ---- (b) random histories for every instance, smoke histories for the instances not enumerated ----
    n_rand = 24 if not thorough else 600
    for fam in lmon.families():
        hs = [random_history(rng, rng.randint(6, 24)) for _ in range(n_rand)]
        cfgs = [rng.choice(GRID) for _ in range(4 if not thorough else 24)]
        for cfg, c in zip(cfgs, chunked(hs, len(cfgs))):
            jobs.append({"kind": "gl", "label": "random", "family": fam, "cfg": cfg, "histories": c})
    if not thorough:
        smoke = enum_histories(2) + [h for h in h_all if len(h) == 3][::23]
        for fam in rest:
            jobs.append({"kind": "gl", "label": "smoke", "family": fam, "cfg": CFG_TIGHT, "histories": smoke})
    # ---- (c) map loaders ----
    for fam, mf in lmon.map_families().items():
        nid = 1 if mf.single else 3
        d = 3 if not thorough else 4
        hs = enum_histories(d, ("A", "B"), nid if thorough else min(nid, 2), extra_ops=("export", "restore"), reads=False)
        if mf.empties:
            hs += [h for h in enum_histories(d - 1, ("A", "B", "E"), nid, extra_ops=("export", "restore"), reads=False) if any(op[-1] == "E" for op in h)]
        hs += [random_history_map(rng, rng.randint(5, 12), mf) for _ in range(10 if not thorough else 200)]
        for c in chunked(hs, 1 if not thorough else 4):
            jobs.append({"kind": "map", "family": fam, "histories": c})
    # ---- (d) fault injection ----
    for fam in reps if not thorough else list(lmon.families()):
        for cfg in (CFG_TIGHT, CFG_LOOSE):
            for h in FAULT_HISTORIES:
                jobs.append({"kind": "fault", "family": fam, "cfg": cfg, "history": h})

    def weight(j):
        if j["kind"] == "real":
            return 10 ** 6
        if j["kind"] == "fault":
            return 400
        return len(j["histories"]) * (1 if j["kind"] == "gl" else 0.7)
    jobs.sort(key=lambda j: -weight(j))

    def dispatch(j):
        return {"gl": history_job, "map": map_job, "fault": fault_job, "real": real_job}[j["kind"]](j)
    n_case = 0
    for r in forkpool.run_jobs(dispatch, jobs, timeout=900 if not thorough else 3000, tag="c15"):
        k = r.item["kind"]
        if k == "gl":
            absorb_history(chk, r, r.item["label"])
            if r.status == "ok":
                for n in range(r.value[0]["histories"]):
                    n_case += 1
                    chk.nontrivial_case(n_case)
        elif k == "map":
            absorb_map(chk, r)
        elif k == "fault":
            absorb_fault(chk, r)
        else:
            absorb_real(chk, r)
    judge_pairs(chk)
    chk.exhaustive = True
    chk.extra["families"] = {"bundle loaders": list(lmon.families()), "map loaders": list(lmon.map_families())}
    chk.sample({"kind": "history", "family": "CFGLoader", "cfg": list(CFG_TIGHT),
                "history": [["save", 1, "A"], ["get", 1], ["save", 1, "B"], ["export"], ["index"], ["restore"]],
                "meaning": "cfg = (item-cache capacity, bundle-cache capacity, config.MAX_ROWS); contents A (4 rows) / B (2 rows) / E (no rows) "
                           "are built by lib/monitors/loader.py from the repo's own classes"})
    chk.sample({"kind": "fault", "family": "StmtStatusLoader[p3]", "cfg": list(CFG_LOOSE), "history": FAULT_HISTORIES[0], "mode": "raise", "n": 1,
                "meaning": "the n-th DataFrame.to_feather of the history (+ closing export, export_indexing) raises OSError(ENOSPC)"})
    chk.sample({"kind": "real", "lang": "python", "sub": "semantic", "p2": True, "tight": True, "tight_config": TIGHT_REAL})
    floor = (lambda q, t: q if not thorough else t)
    chk.require("reads compared with the model", floor(25000, 1000000))
    chk.require("histories ending with >= 2 bundle files", floor(1000, 20000))
    for src in ("item-cache", "active-bundle", "bundle-cache", "bundle-file"):
        chk.require(f"reads served from {src}", floor(3000, 50000))
    chk.require("unit-level rows compared whose own unit_id differs from the key they were saved under", floor(3000, 100000))
    chk.require("map loaders: reads compared with the model", floor(2000, 20000))
    chk.require("fault injection: write failures that happened", floor(100, 300))
    chk.require("real runs compared", floor(3, 20))
    chk.require("real runs: default/tight pairs judged", floor(2, 12))
    chk.require("real runs: items compared (saved vs fresh restored loader)", floor(200, 2000))
    chk.require("post-condition evaluated: LRUCache: linked list == dict", floor(50000, 1000000))
    chk.require("post-condition evaluated: LRUCache.get: a hit returns the last put, a miss None", floor(10000, 200000))
    chk.require("post-condition evaluated: GeneralLoader.get_raw_item_by_id: an indexed item is found", floor(25000, 500000))
    chk.assumptions += [
        "content is compared through canonical forms computed from the objects (dataclass fields, graph edges, table rows): numbers by "
        "Python equality (3.0 == 3), missing values (None/NaN) dropped from table rows, sets sorted; a read returning None means 'no item'; "
        "an empty item is not 'no item', and a plain [] where a graph/dict/space object is due is not the item",
        "State.value is text by the definition of the storage format (to_dict stores str(value)); a missing CFG / symbol-graph edge label "
        "is stored as 0; collections the loaders declare as sets are compared as sets",
        "unit-level items (GIR, scope hierarchy, export symbols) are lists of rows that belong to the key they are saved under whatever "
        "their own unit_id field says (generated: equal to the key, another saved unit's id, absent / -1, an id nobody is saved under); "
        "every row must come back under its key and under no other (row identity = all columns but unit_id); for the unit_id column "
        "itself both the key (what the unchanged code writes) and the row's own value are accepted; no caller reads it back",
        "map loaders whose save() defines an empty collection as 'nothing to record' (one-to-many maps, methods in class) are not given "
        "empty contents; reverse look-ups (many -> one) are not part of the item and are not judged",
        "a failed write counts as reported when an exception reaches the caller or the failure's own message appears on stdout/stderr",
        "restore expectations: the files promise what was exported before the last export_indexing; items saved but not exported at "
        "that moment are not judged in the restored loader",
    ]
    sys.exit(chk.finish())


if __name__ == "__main__":
    main()
