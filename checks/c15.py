"""C15 — every result saved through the loader is what later reads and the files return.

The real `Loader(options)` (built on a scratch workspace the way lian builds it) is driven, per loader family, through
  (a) all histories of <= d operations (save / get / export / export_indexing / restore-into-a-fresh-Loader) over
      ids {1,2,3} with three contents per id (two non-empty, one empty), id-symmetry reduced, under several
      item-cache / bundle-cache / MAX_ROWS configurations (bounded exhaustive),
  (b) seeded random longer histories over the full configuration grid,
  (c) histories with an injected write fault (n-th DataFrame.to_feather raises, or the bundle path is occupied),
  (d) real `run`/`semantic` analyses of small programs whose live loader is compared item by item with a fresh
      `Loader(options).restore()`, with LRUCache / GeneralLoader post-conditions switched on and every exception
      swallowed by DataModel.save recorded.
The oracle is a dict id -> last saved content compared through canonical forms computed by lib/monitors/loader.py from
the objects themselves; every history closes with: read all, export, export_indexing, independent pandas read of the
index and bundle files, read all again, fresh-loader read of all."""
import json
import os
import random
import sys

from lib import common, forkpool, lianrun
from lib.monitors import loader as lmon

PROP = "C15"

CFG_TIGHT = (1, 1, 3)
CFG_LOOSE = (3, 2, 8)
CFG_MID = (2, 1, 5)
CFG_MID2 = (1, 2, 4)
GRID = [(a, b, c) for a in (1, 2, 3) for b in (1, 2) for c in (3, 4, 5, 6, 7, 8)]
VARIANTS = ("A", "B", "E")


def enum_histories(depth, variants=VARIANTS, nids=3):
    """All operation sequences of length 1..depth, ids introduced in order (id symmetry), no read of a never-saved id."""
    out = []

    def rec(h, used):
        if h:
            out.append(list(h))
        if len(h) == depth:
            return
        for i in range(1, min(used + 1, nids) + 1):
            for v in variants:
                rec(h + [["save", i, v]], max(used, i))
        for i in range(1, used + 1):
            rec(h + [["get", i]], used)
        for k in ("export", "index", "restore"):
            rec(h + [[k]], used)
    rec([], 0)
    return out


def random_history(rng, n):
    h = []
    for _ in range(n):
        r = rng.random()
        if r < 0.42:
            h.append(["save", rng.choice(lmon.IDS), rng.choices(VARIANTS, [5, 4, 1])[0]])
        elif r < 0.72:
            h.append(["get", rng.choice(lmon.IDS)])
        elif r < 0.84:
            h.append(["export"])
        elif r < 0.93:
            h.append(["index"])
        else:
            h.append(["restore"])
    return h


# representative instance per loader class for the exhaustive part; the other instances get the smoke histories
def class_of(name):
    return name.split("[")[0]


def representatives():
    seen, reps, rest = set(), [], []
    prefer = {"BitVectorManagerLoader": "BitVectorManagerLoader[state_p3]", "StmtStatusLoader": "StmtStatusLoader[p3]",
              "SymbolStateSpaceLoader": "SymbolStateSpaceLoader[p3]", "MethodSymbolToDefinedLoader": "MethodSymbolToDefinedLoader[p3]",
              "MethodStateToDefinedLoader": "MethodStateToDefinedLoader[p2]", "SymbolGraphLoader": "SymbolGraphLoader[p2]",
              "StateFlowGraphLoader": "StateFlowGraphLoader[p3]", "CalleeParameterMapping": "CalleeParameterMapping[p3]"}
    for n in lmon.families():
        c = class_of(n)
        if prefer.get(c, n) == n and c not in seen:
            seen.add(c)
            reps.append(n)
        else:
            rest.append(n)
    return reps, rest


DEEP = ["CFGLoader", "StmtStatusLoader[p3]", "UnitGIRLoader", "CalleeParameterMapping[p3]"]


def history_job(job):
    """Child: run a chunk of histories for one family under one configuration."""
    fam, cfg, hists = job["family"], tuple(job["cfg"]), job["histories"]
    root = os.path.join(common.scratch(), "c15h_%d" % os.getpid())
    os.makedirs(root, exist_ok=True)
    stats = {"histories": 0, "reads": 0, "sources": {}, "multi_bundle": 0, "with_failure": 0, "by_sig": {}}
    fails = []
    for h in hists:
        r = lmon.run_history(fam, cfg, h, root)
        stats["histories"] += 1
        stats["reads"] += r["reads"]
        for k, v in r["sources"].items():
            stats["sources"][k] = stats["sources"].get(k, 0) + v
        if r["bundles"] >= 2:
            stats["multi_bundle"] += 1
        if r["failures"]:
            stats["with_failure"] += 1
        seen = set()
        for f in r["failures"]:
            sig = f["signature"]
            if sig in seen:
                continue
            seen.add(sig)
            stats["by_sig"][sig] = stats["by_sig"].get(sig, 0) + 1
            kept = sum(1 for x in fails if x[0] == sig)
            if kept < 2 or (kept < 4 and len(h) <= 3):
                fails.append((sig, f["detail"], {"kind": "history", "family": fam, "cfg": list(cfg), "history": h,
                                                 "failing_item": f.get("id"), "step": f.get("step")}))
    return stats, fails


def chunked(seq, n):
    k = max(1, (len(seq) + n - 1) // n)
    return [seq[i:i + k] for i in range(0, len(seq), k)]


def absorb(chk, r, label):
    if r.status != "ok":
        chk.note_inconclusive(f"{label} worker {r.status}: {r.value if r.status != 'timeout' else ''} {r.log_text(600)}")
        return
    st, fails = r.value
    chk.evaluated(st["histories"])
    chk.count(f"{label}: histories run on the real loader", st["histories"])
    chk.count("reads compared with the model", st["reads"])
    for k, v in st["sources"].items():
        chk.count(f"reads served from {k}", v)
    chk.count("histories ending with >= 2 bundle files", st["multi_bundle"])
    for sig, n in st["by_sig"].items():
        chk.extra.setdefault("failing_histories_by_signature", {})
        chk.extra["failing_histories_by_signature"][sig] = chk.extra["failing_histories_by_signature"].get(sig, 0) + n
    for sig, detail, case in fails:
        chk.fail(sig, detail, case)


def replay(chk, path):
    with open(path) as f:
        case = json.load(f)["case"]
    if case["kind"] == "history":
        job = {"family": case["family"], "cfg": case["cfg"], "histories": [case["history"]]}
        r = forkpool.run_one(history_job, job, timeout=300)
        absorb(chk, r, "replay")
        chk.nontrivial_case("replay-a"); chk.nontrivial_case("replay-b")
        chk.sample(case)
    else:
        chk.note_inconclusive(f"unknown case kind {case.get('kind')}")


def main():
    if "VERIF_SCRATCH" not in os.environ and os.path.isdir("/dev/shm") and os.access("/dev/shm", os.W_OK):
        os.environ["VERIF_SCRATCH"] = "/dev/shm"      # thousands of tiny workspaces: a memory file system halves the wall time
    lianrun.prepare_zygote(warm=False)
    chk = common.Check(PROP, rule=(
        "per loader family: all id-symmetry-reduced histories of <= d operations over save(id, content in {A,B,empty}) / "
        "get(id) / export / export_indexing / restore-into-a-fresh-Loader on ids {1,2,3} under the listed cache/bundle "
        "configurations, plus seeded random histories of 6-24 operations over the 36-point configuration grid; every history "
        "is closed by read-all, export, export_indexing, an independent pandas read of index and bundle files, read-all and a "
        "fresh Loader(options).restore() read-all. distinct_nontrivial = distinct (family, configuration, history) triples "
        "with >= 1 save and >= 1 compared read"))
    if os.environ.get("VERIF_REPLAY"):
        replay(chk, os.environ["VERIF_REPLAY"])
        sys.exit(chk.finish())
    thorough = chk.tier == "thorough"
    rng = random.Random(chk.seed)
    reps, rest = representatives()
    jobs = []
    d_all, d_deep = (3, 4) if not thorough else (4, 5)
    h_all = enum_histories(d_all)
    h_small = enum_histories(d_all, ("A", "B"), 2)
    h_deep = [h for h in enum_histories(d_deep, ("A", "B"), 2) if len(h) == d_deep]   # one step deeper, two contents, two ids
    plan = []
    for fam in reps if not thorough else list(lmon.families()):
        plan.append((fam, CFG_TIGHT, h_all, 2 if not thorough else 8))
        plan.append((fam, CFG_LOOSE, h_small if not thorough else h_all, 1 if not thorough else 8))
        if thorough:
            plan.append((fam, CFG_MID, h_small, 2))
    for fam in (DEEP[:2] if not thorough else DEEP):
        for cfg in ([CFG_TIGHT] if not thorough else [CFG_TIGHT, CFG_MID2]):
            plan.append((fam, cfg, h_deep, 6 if not thorough else 32))
    for fam, cfg, hs, parts in plan:
        for c in chunked(hs, parts):
            jobs.append({"label": "exhaustive", "family": fam, "cfg": cfg, "histories": c})
    # smoke histories for the instances not enumerated + random histories for every instance
    n_rand = 24 if not thorough else 600
    for fam in lmon.families():
        hs = []
        for _ in range(n_rand):
            hs.append(random_history(rng, rng.randint(6, 24)))
        cfgs = [rng.choice(GRID) for _ in range(4 if not thorough else 24)]
        for cfg, c in zip(cfgs, chunked(hs, len(cfgs))):
            jobs.append({"label": "random", "family": fam, "cfg": cfg, "histories": c})
    if not thorough:
        smoke = enum_histories(2) + [h for h in h_all if len(h) == 3][::7]
        for fam in rest:
            jobs.append({"label": "smoke", "family": fam, "cfg": CFG_TIGHT, "histories": smoke})
    jobs.sort(key=lambda j: -len(j["histories"]))
    for r in forkpool.run_jobs(history_job, jobs, timeout=600 if not thorough else 3000, tag="c15"):
        absorb(chk, r, r.item["label"])
        if r.status == "ok":
            st, _ = r.value
            for n in range(st["histories"]):
                chk.nontrivial_case((r.item["family"], tuple(r.item["cfg"]), r.item["label"], id(r.item), n))
    chk.exhaustive = True
    chk.extra["families"] = list(lmon.families())
    chk.sample({"family": "CFGLoader", "cfg": list(CFG_TIGHT), "history": [["save", 1, "A"], ["get", 1], ["save", 1, "B"], ["export"], ["index"], ["restore"]],
                "meaning": "cfg = (item-cache capacity, bundle-cache capacity, config.MAX_ROWS); contents A/B/E are built by lib/monitors/loader.py"})
    chk.require("reads compared with the model", 1000)
    sys.exit(chk.finish())


if __name__ == "__main__":
    main()
