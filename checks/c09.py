"""C09 — points-to results are exact on loop-free code (flow-, field- and call-site-sensitive where advertised).

Oracle: exact collecting semantics by exhaustive concrete execution.  Generated loop-free programs (lib/gen_values, mode
c09) branch only on `d[i]` of the entry parameter, so all 2^k decision vectors (k <= 6) are feasible; each is executed by
CPython and at every probe point `probe_<uid>("pN", v)` (a call of an unresolved function) the set of concrete values of
`v` over all vectors that reach the probe is collected — constants by value, objects by allocation line.  lian's abstract
value set of the argument symbol at that call statement (persisted P3 tables, lib/monitors/absvalue) must EQUAL it: an
extra value (overwritten value retained, value of another field / object / call site), a missing value, or an unknown
state is a difference."""
import json
import os
import random
import sys

from lib import common, forkpool, lianrun
from lib import gen_values as gv
from lib.monitors import absvalue as av

PROP = "C09"
BATCH = 8


def concrete_sets(p):
    """label -> set of concrete values over all decision vectors; None when some run does not finish normally."""
    sets = {}
    reached = {}
    for vec in gv.all_vectors(p.n_dec):
        r = gv.run_traced(p, vec, depth=1)
        if r["status"] != "ok":
            return None, f"{r['status']}: {r.get('error')} with d={list(vec)}"
        for label, val in r["probes"]:
            key = ("c", val[1], val[2]) if val[0] == "c" else ("o", val[1])
            sets.setdefault(label, set()).add(key)
            reached.setdefault(label, []).append(list(vec))
    return sets, reached


def abstract_set(avs, T):
    out = set()
    notes = []
    for a in avs:
        k = a["kind"]
        if k == "const":
            ck = av.const_key(a)
            if ck is None:
                out.add(("other", a.get("data_type"), a.get("value")))
            elif ck[0] == "bool":
                out.add(("c", "bool", ck[1]))
            else:
                out.add(("c", ck[0], ck[1]))
        elif k == "object":
            row = T.stmt.get(a["alloc_stmt"], {}).get("start_row")
            out.add(("o", None if row is None else int(row) + 1))
        elif k == "unknown":
            out.add(("unknown", av.STATE_TYPE_NAMES.get(a["state_type"], "?")))
        else:
            out.add(("other", k, a.get("data_type"), a.get("value")))
    return out


def show_set(s):
    def one(x):
        if x[0] == "c":
            return repr(x[2])
        if x[0] == "o":
            return f"<object allocated at line {x[1]}>"
        if x[0] == "unknown":
            return f"<{x[1]}>"
        return f"<{':'.join(str(y) for y in x[1:])}>"
    return "{" + ", ".join(sorted(one(x) for x in s)) + "}"


def analyse_batch(job):
    sc = common.scratch()
    tag = job["tag"]
    progs = [gv.Program.from_case(c) for c in job["programs"]]
    src_dir = os.path.join(sc, f"c09src_{tag}")
    os.makedirs(src_dir, exist_ok=True)
    for p in progs:
        with open(os.path.join(src_dir, f"{p.uid}.py"), "w") as f:
            f.write(p.text)
    mon = av.Monitors().install()
    st = lianrun.write_settings(os.path.join(sc, f"c09st_{tag}"), entry=[{"method_list": [p.entry for p in progs]}])
    ws = os.path.join(sc, f"c09ws_{tag}")
    lianrun.run_lian(lianrun.lian_argv("semantic", "python", [src_dir], ws, st, ["-q"]))
    T = av.Tables(lianrun.ws_dir(ws), live_saves=mon.status_saves)
    ms = mon.summary()
    res = {"tag": tag, "programs": {}, "constants_ok": av.check_constants(), "space_rows": T.space_rows,
           "status_rows": T.status_rows, "folds": len(ms["two_states"]), "stmt_state_calls": ms["stmt_state_calls"],
           "frames": len(ms["frames"]), "live_bad": T.live_crosscheck_bad[:3], "live_ok": T.live_crosscheck_ok}
    for p in progs:
        res["programs"][p.uid] = judge_program(p, T)
    return res


def judge_program(p, T):
    out = {"uid": p.uid, "dropped": None, "probes": 0, "exact": 0, "exact_nontrivial": 0, "fails": [], "consequences": 0,
           "features": {}, "vectors": 2 ** p.n_dec, "sample": None}
    sets, reached = concrete_sets(p)
    if sets is None:
        out["dropped"] = reached
        return out
    if any(x[0] == "c" and isinstance(x[2], int) and abs(x[2]) >= 1 << 62 for vs in sets.values() for x in vs):
        # lian refuses to fold constants beyond config.MAX_FOLDED_CONSTANT_BITS; exactness is tested on small constants
        out["dropped"] = "constant beyond 62 bits"
        return out
    unit = T.unit_by_file.get(f"{p.uid}.py")
    eid = T.method_id(unit, p.entry) if unit is not None else None
    sp = T.space_for_entry(eid, unit) if eid is not None else None
    if sp is None:
        out["fails"].append(("entry-not-analysed", f"no P3 tables for entry {p.entry}", {}))
        return out
    blamed = set()
    for label, info in sorted(p.probes.items(), key=lambda kv: kv[1]["line"]):
        want = sets.get(label)
        if not want:
            continue                      # never reached (cannot happen: every vector is enumerated)
        line, var = info["line"], info["var"]
        got = None
        for s in T.stmts_at_row(unit, line - 1):
            if T.stmt[s].get("operation") != "call_stmt":
                continue
            ctxs = [c for c in sp.contexts_of_stmt(s) if not isinstance(c, tuple)]
            for ctx in ctxs:
                avs = sp.used(ctx, s, var)
                if avs is not None:
                    got = abstract_set(avs, T) if got is None else got | abstract_set(avs, T)
        out["probes"] += 1
        feat = info["feature"]
        if got is None:
            out["fails"].append((f"{feat}:probe-not-analysed", f"line {line} `{p.lines[line - 1].strip()}`: the call statement or its argument {var} is absent from the P3 tables", {"label": label}))
            continue
        if got == want:
            out["exact"] += 1
            nontrivial = len(want) > 1 or feat not in ("const-assign", "object:allocation")
            if nontrivial:
                out["exact_nontrivial"] += 1
                out["features"][feat] = out["features"].get(feat, 0) + 1
            if out["sample"] is None and len(want) > 1:
                out["sample"] = {"probe": p.lines[line - 1].strip(), "feature": feat, "values": show_set(want),
                                 "decision_vectors": 2 ** p.n_dec}
            continue
        # a difference: is it a consequence of an earlier reported one (the probed value derives from that variable)?
        if blamed & set(info.get("taint", [])):
            out["consequences"] += 1
            blamed |= set(info.get("own", []))
            continue
        blamed |= set(info.get("own", []))
        unknown = {x for x in got if x[0] == "unknown"}
        other = {x for x in got if x[0] == "other"}
        extra = got - want - unknown
        missing = want - got
        if unknown:
            kind = "unknown"
        elif missing and not extra:
            kind = "missing"
        elif extra and not missing:
            kind = "extra"
        else:
            kind = "extra-and-missing"
        # root of the difference: a value that derives (statically) from a field written inside a callee, or from the result
        # of a helper that itself calls a helper, is attributed to that construct rather than to the last one it went through
        origins = {p.defs.get(i) for i in info.get("taint", [])}
        if "callee-field-write" in origins:
            feat = "via-callee-field-write"
        elif "nested-call-return" in origins:
            feat = "via-nested-call"
        f2 = feat
        falsy = any(x[0] == "c" and not x[2] for x in want)
        if kind in ("unknown", "missing") and falsy and ("binary-fold" in feat) and all((x[0] == "c" and not x[2]) for x in missing or want):
            f2 = feat.replace("binary-fold", "binary-fold-falsy-result")
        out["fails"].append((f"{f2}:{kind}",
                             f"line {line} `{p.lines[line - 1].strip()}`: over all {2 ** p.n_dec} decision vectors {var} takes {show_set(want)}, "
                             f"lian's abstract value set is {show_set(got)}", {"label": label, "want": sorted(map(str, want)), "got": sorted(map(str, got))}))
    return out


def main():
    lianrun.prepare_zygote(warm=False)
    chk = common.Check(PROP, rule=(
        "loop-free generated Python programs over int constants, one allocation per variable, aliasing by assignment, distinct "
        "field names, branches on an opaque decision vector (<= 6), helper functions called from several sites, constant binary "
        "operations; every decision vector is executed; distinct_nontrivial = distinct generator features of probed "
        "expressions (overwrite, branch-join, field-vs-field, call-site, ...) for which lian's value set equalled the exact "
        "set at a probe whose exact set has >= 2 values or whose value went through at least one non-trivial construct"))
    thorough = chk.tier == "thorough"
    rp = os.environ.get("VERIF_REPLAY")
    jobs = []
    progs = {}
    if rp:
        with open(rp) as f:
            case = json.load(f)["case"]
        jobs.append({"tag": "replay", "programs": [case]})
        progs[case["uid"]] = gv.Program.from_case(case)
    else:
        rng = random.Random(chk.seed)
        base = rng.randrange(1 << 30)
        n = 4000 if thorough else 150
        plist = [gv.generate(base + i, f"s{chk.seed}n{i}", "c09", hostile=0.0) for i in range(n)]
        for p in plist:
            progs[p.uid] = p
        for k in range(0, n, BATCH):
            jobs.append({"tag": f"b{k // BATCH}", "programs": [p.to_case() for p in plist[k:k + BATCH]]})
    pending = jobs
    wave = 0
    while pending and wave < 2:
        retry = []
        for r in forkpool.run_jobs(analyse_batch, pending, timeout=300, tag=f"c09w{wave}"):
            job = r.item
            if r.status != "ok":
                if len(job["programs"]) > 1 and wave == 0:
                    for c in job["programs"]:
                        retry.append({"tag": f"{job['tag']}_{c['uid']}", "programs": [c]})
                    continue
                if r.status == "timeout":
                    chk.note_inconclusive(f"batch {job['tag']}: watchdog")
                    continue
                val = r.value
                what = val[0] if r.status == "exception" else f"{r.status}:{val}"
                where = ""
                if r.status == "exception":
                    tb = [l for l in val[2].splitlines() if "/lian/" in l]
                    where = tb[-1].strip().split(",")[0].split("/")[-1].rstrip('"') + ":" + tb[-1].strip().split(" in ")[-1] if tb else ""
                chk.fail(f"analysis-died:{what}:{where}", f"semantic run ended with {r.status}: {str(val)[:300]} | {r.log_text(400)}",
                         job["programs"][0])
                continue
            v = r.value
            if not v["constants_ok"]:
                chk.note_inconclusive("lian's STATE_TYPE_KIND / LIAN_INTERNAL constants differ from the reader's")
            chk.count("lian semantic runs (batches)")
            chk.count("compute_two_states calls recorded", v["folds"])
            chk.count("compute_stmt_states calls recorded", v["stmt_state_calls"])
            chk.count("s2space_p3 rows read", v["space_rows"])
            chk.count("stmt_status_p3 rows read", v["status_rows"])
            chk.count("contexts whose persisted stmt_status_p3 rows equal the last live save", v["live_ok"])
            for ctx, why in v["live_bad"]:
                chk.note_inconclusive(f"stmt_status_p3 of context {ctx}: {why} (batch {v['tag']})")
            for uid, pr in v["programs"].items():
                if pr["dropped"]:
                    chk.count("programs dropped (oracle run did not finish normally)")
                    continue
                chk.evaluated()
                chk.count("decision vectors executed in CPython", pr["vectors"])
                chk.count("probe points compared", pr["probes"])
                chk.count("probe points where lian's set equals the exact set", pr["exact"])
                chk.count("... of which non-trivial", pr["exact_nontrivial"])
                chk.count("differing probes not reported because the probed value derives from an already reported variable", pr["consequences"])
                for f, n in pr["features"].items():
                    chk.nontrivial_case(f)
                    chk.count(f"exact at feature {f}", n)
                    if f.startswith("nested-field-read-after-late-write:"):
                        chk.count("exact probes of the family 'nested object modified in the callee after it was stored'", n)
                    if f.startswith("field-read-after-multi-exit-callee-write:"):
                        chk.count("exact probes of the family 'helper with several exits writes a parameter object's field'", n)
                if pr["sample"]:
                    chk.sample(pr["sample"])
                case = progs[uid].to_case() if uid in progs else {"uid": uid}
                for sig, desc, det in pr["fails"]:
                    chk.fail(sig, desc, dict(case, detail=det))
        pending = retry
        wave += 1
    if not rp:
        # floors: about half of what seeds 0-2 measured on the healthy tree (quick: 1724-1912 probes, 1052-1185 non-trivial,
        # 649-780 vectors, 487-504 folds; thorough: 46728 / 28566 / 18501 / 12803)
        chk.require("probe points compared", 800 if not thorough else 22000)
        chk.require("... of which non-trivial", 500 if not thorough else 13000)
        chk.require("decision vectors executed in CPython", 300 if not thorough else 8000)
        chk.require("compute_two_states calls recorded", 200 if not thorough else 5000)
        # the two scripted families (measured quick 224-239 / 223-248, thorough 6761 / 6813)
        chk.require("exact probes of the family 'nested object modified in the callee after it was stored'", 80 if not thorough else 2500)
        chk.require("exact probes of the family 'helper with several exits writes a parameter object's field'", 80 if not thorough else 2500)
        first = next(iter(progs.values()), None)
        if first is not None:
            chk.sample({"program": first.text})
    else:
        chk.nontrivial_case("replay-a")
        chk.nontrivial_case("replay-b")
    chk.assumptions += [
        "lian's value set of a probe argument is the states of the argument's Symbol row at the probe's call statement in the entry frame (lian stores the statement's resolved in-states there); constants compare by (type, value), objects by the source line of the first state of their state_id",
        "probes are calls of an undefined function; they are placed in the entry function only, so call-site sensitivity is observed through the values returned to the caller",
        "a differing probe whose value statically derives from the variable of an earlier reported probe is counted, not reported (it is a consequence); any other difference is reported on its own",
    ]
    sys.exit(chk.finish())


if __name__ == "__main__":
    main()
