"""C16 — table queries always reflect the table's current contents.

The real DataModel is driven through enumerated and random operation sequences; after every step a battery of all
query methods is compared with a naive scan of the live frame (lib/monitors/datamodel.py). Query subsets are
interleaved so that lazily built caches (row matrix, per-column index) are warm, cold or partly warm when the next
mutation happens. The same post-conditions run inside real pipeline runs."""
import itertools
import json
import os
import random
import sys

from lib import common, forkpool, lianrun
from lib.monitors import datamodel as dmon

PROP = "C16"
ROLES = ["stmt_id", "operation", "name"]


def initial_tables():
    import pandas as pd
    import lian.util.data_model as dmod
    t = {}
    t["gir-like"] = lambda: dmod.DataModel(
        [[1, "assign", "x"], [2, "block_start", None], [3, "call", "x"], [2, "block_end", None]], columns=list(ROLES))
    t["dicts-with-missing"] = lambda: dmod.DataModel(
        [{"stmt_id": 5, "operation": "a"}, {"stmt_id": 5, "name": "n"}, {"operation": "a", "name": "n"}, {"stmt_id": 0, "operation": "b", "name": "m"}],
        columns=list(ROLES))
    t["labelled-frame"] = lambda: dmod.DataModel(
        pd.DataFrame({"stmt_id": [7, 8, 7], "operation": ["p", "q", "p"], "name": ["u", None, "u"]}, index=[10, 20, 30]))
    # columns of one pure dtype (no missing value, no string): int with zeros, bool — the per-column index sees numpy scalars there
    t["pure-int-bool"] = lambda: dmod.DataModel(
        [[0, "a", False], [3, "b", True], [0, "a", False], [4, "block_start", True], [4, "block_end", False]], columns=list(ROLES))
    return t


MUTATORS = [
    ("elem", "first", 0, 2), ("elem", "last", 0, 3), ("elem", "last", 2, "y"), ("elem", "first", 2, None), ("elem", "mid", 1, "call"),
    ("row", "first", (9, "c", "z")), ("row", "last", (2, "q", None)),
    ("col", 2, "scalar"), ("col", 0, "list"),
    ("append", "dm"), ("append", "df"),
    ("remove", 0, 2), ("remove", 2, "x"), ("remove", 1, "a"),
    ("rename", 2), ("reset",), ("slice", 1, 0), ("slice", 0, 1),
    ("swapnames", 1, 2),
    ("append", "newcol"), ("into-empty",), ("elem", "first", 0, 0), ("elem", "last", 2, False),
]
MUTATORS_SMALL = [MUTATORS[i] for i in (0, 3, 5, 8, 9, 11, 14, 16, 19, 20)]
MUTATORS_TINY = [MUTATORS[i] for i in (0, 5, 9, 11, 14, 16, 18, 19, 20)]
QSUB = ["none", "indexed", "rows"]


def apply(dm, op, colnames):
    """Apply one mutator to the real DataModel. Returns the (possibly new) subject."""
    import pandas as pd
    import lian.util.data_model as dmod
    kind = op[0]
    n = len(dm)
    labels = list(dm._data.index)
    if kind == "elem":
        if n == 0:
            return dm
        lab = {"first": labels[0], "last": labels[-1], "mid": labels[n // 2]}[op[1]]
        if labels.count(lab) != 1:
            return dm
        dm.modify_element(lab, colnames[op[2]], op[3])
    elif kind == "row":
        if n == 0:
            return dm
        pos = 0 if op[1] == "first" else n - 1
        dm.modify_row(pos, list(op[2]))
    elif kind == "col":
        if op[2] == "scalar":
            dm.modify_column(colnames[op[1]], "k")
        else:
            dm.modify_column(colnames[op[1]], list(range(10, 10 + n)))
    elif kind == "append":
        rec = {colnames[0]: 2, colnames[1]: "z", colnames[2]: "x"}
        if op[1] == "newcol":
            # the appended rows bring a column the table does not have yet (the old rows get missing values there)
            extra = "extra" if "extra" not in dm._data.columns else "extra2"
            rec[extra] = "e"
            dm.append_data_model(dmod.DataModel([rec], columns=list(rec)))
        elif op[1] == "dm":
            dm.append_data_model(dmod.DataModel([rec], columns=list(colnames)))
        else:
            dm.append_data_model(pd.DataFrame([rec], columns=list(colnames)))
    elif kind == "remove":
        dm.remove_rows(colnames[op[1]], op[2])
    elif kind == "rename":
        old = colnames[op[1]]
        new = old[:-2] if old.endswith("_r") else old + "_r"
        dm.rename_column({old: new})
        colnames[op[1]] = new
    elif kind == "swapnames":
        a, b = colnames[op[1]], colnames[op[2]]
        dm.rename_column({a: b, b: a})          # one call hands each name to the other column
        colnames[op[1]], colnames[op[2]] = b, a
    elif kind == "into-empty":
        # accumulate into a table that was constructed empty
        acc = dmod.DataModel()
        acc.append_data_model(dm)
        dm = acc
    elif kind == "reset":
        dm.reset_index()
    elif kind == "slice":
        a = op[1]
        b = n - op[2]
        if b - a >= 1:
            dm = dm.slice(a, b)
    return dm


def run_sequence(table_name, seq):
    """seq = [(mutator, query-subset-after)], a full battery closes the sequence. Returns (failures, queries made)."""
    dm = initial_tables()[table_name]()
    colnames = list(ROLES)
    fails, nq = [], 0
    f, k = dmon.battery(dm, probes=(2, "x", 12345), subset="full")   # warm every cache on the initial table
    nq += k
    for q, d in f:
        fails.append((q, "construct", d))
    last_mut = "construct"
    for i, (mut, qsub) in enumerate(seq):
        try:
            dm = apply(dm, mut, colnames)
        except Exception as e:      # a mutator raising is outside this property (pandas refuses the edit): stop here
            return fails, nq, f"mutator {mut} raised {type(e).__name__}"
        last_mut = mut[0]
        sub = qsub if i < len(seq) - 1 else "full"
        if sub != "none":
            try:
                f, k = dmon.battery(dm, probes=(2, "x", 12345), subset=sub)
            except Exception as e:
                import traceback
                f, k = [("battery-raised", f"{type(e).__name__}: {e} {traceback.format_exc()[-400:]}")], 0
            nq += k
            for q, d in f:
                fails.append((q, last_mut, d))
            if f:
                break
    return fails, nq, None


def enum_job(job):
    table_name, seqs = job
    stats = {"sequences": 0, "queries": 0, "aborted": 0}
    fails = []
    for seq in seqs:
        f, nq, aborted = run_sequence(table_name, seq)
        stats["sequences"] += 1
        stats["queries"] += nq
        if aborted:
            stats["aborted"] += 1
        for q, mut, d in f:
            if len(fails) < 60:
                fails.append((q, mut, d, {"table": table_name, "sequence": seq}))
    return stats, fails


def random_job(job):
    seed, nseq = job
    rng = random.Random(seed)
    names = list(initial_tables())
    stats = {"sequences": 0, "queries": 0, "aborted": 0}
    fails = []
    for _ in range(nseq):
        seq = [(rng.choice(MUTATORS), rng.choice(QSUB + ["full"])) for _ in range(rng.randint(4, 9))]
        tn = rng.choice(names)
        f, nq, aborted = run_sequence(tn, seq)
        stats["sequences"] += 1
        stats["queries"] += nq
        if aborted:
            stats["aborted"] += 1
        for q, mut, d in f:
            if len(fails) < 30:
                fails.append((q, mut, d, {"table": tn, "sequence": seq}))
    return stats, fails


def gen_gir_rows(rng, as_datamodel):
    """A small well-formed statement list with nested blocks (ids unique, a block's markers carry the block id)."""
    import types
    next_id = [10 + rng.randrange(5)]
    recs = []

    def fresh():
        next_id[0] += rng.choice([1, 1, 2])
        return next_id[0]

    def block(depth):
        for _ in range(rng.randint(1, 3)):
            k = rng.random()
            if k < 0.45 and depth < 3:
                owner = fresh()
                recs.append({"stmt_id": owner, "operation": rng.choice(["if_stmt", "while_stmt", "method_decl"]), "name": rng.choice(["f", "g", None])})
                for _ in range(rng.choice([1, 1, 2])):
                    b = fresh()
                    recs.append({"stmt_id": b, "operation": "block_start", "name": None})
                    if rng.random() < 0.85:
                        block(depth + 1)
                    recs.append({"stmt_id": b, "operation": "block_end", "name": None})
            else:
                recs.append({"stmt_id": fresh(), "operation": rng.choice(["assign_stmt", "call_stmt", "return_stmt"]), "name": rng.choice(["x", "y", "f", None])})
    block(0)
    if as_datamodel:
        import lian.util.data_model as dmod
        return list(dmod.DataModel(recs, columns=["stmt_id", "operation", "name"]))
    return [types.SimpleNamespace(**r) for r in recs]


def viewer_job(job):
    """Block views of random GIR-like tables: the root view, every nested view and the view after append_other."""
    seed, ntables = job
    from lian.util.gir_block import GIRBlockViewer
    from lib.monitors import girblock
    rng = random.Random(seed)
    fails, nq, ntab, nblocks = [], 0, 0, 0
    for t in range(ntables):
        rows = gen_gir_rows(rng, as_datamodel=(t % 3 == 0))
        ranges, first = girblock.block_ranges(rows), girblock.first_index(rows)
        if not ranges:
            continue
        ntab += 1
        nblocks += len(ranges)
        f = []
        view = GIRBlockViewer(unit_gir=rows)
        nq += girblock.battery(view, rows, -1, len(rows), ranges, first, f, "root")
        if not f and t % 4 == 1:
            # append_other: the visible statements of two views, concatenated, become the contents of the first
            rows2 = gen_gir_rows(random.Random(seed * 7 + t), as_datamodel=False)
            ids1 = {r.stmt_id for r in rows}
            if not any(r.stmt_id in ids1 for r in rows2):
                view2 = GIRBlockViewer(unit_gir=rows2)
                view.append_other(view2)
                both = rows + rows2
                nq += girblock.battery(view, both, -1, len(both), girblock.block_ranges(both), girblock.first_index(both), f, "after-append_other")
        for q, d in f[:3]:
            fails.append((q, "viewer", d, {"viewer_seed": seed, "table": t,
                                           "rows": [(r.stmt_id, r.operation, getattr(r, "name", None)) for r in rows]}))
        if len(fails) > 20:
            break
    return {"sequences": 0, "queries": nq, "aborted": 0, "viewer_tables": ntab, "viewer_blocks": nblocks}, fails


PIPE_SRC = {
    "python": ("m.py", "class A:\n    def __init__(self, v):\n        self.v = v\n    def get(self):\n        return self.v\n\ndef f(a, b=2):\n    t = 0\n    for i in [1, 2, 3]:\n        if i > a:\n            t = t + i\n        else:\n            t = t - b\n    return t\n\ndef g():\n    o = A(f(1))\n    return o.get()\n\nr = g()\n"),
    "javascript": ("m.js", "function f(a, b) { let t = 0; for (let i = 0; i < 3; i++) { if (i > a) { t = t + i; } else { t = t - b; } } return t; }\nclass A { constructor(v) { this.v = v; } get() { return this.v; } }\nlet r = new A(f(1, 2)).get();\n"),
    "java": ("M.java", "public class M { int v; M(int v) { this.v = v; } int get() { return this.v; } static int f(int a, int b) { int t = 0; for (int i = 0; i < 3; i++) { if (i > a) { t = t + i; } else { t = t - b; } } return t; } public static void main(String[] x) { M o = new M(f(1, 2)); o.get(); } }\n"),
}


def pipeline_job(lang):
    stats = dmon.install()
    sc = common.scratch()
    src = os.path.join(sc, f"c16src_{lang}")
    os.makedirs(src, exist_ok=True)
    name, text = PIPE_SRC[lang]
    with open(os.path.join(src, name), "w") as f:
        f.write(text)
    st = lianrun.write_settings(os.path.join(sc, f"c16st_{lang}"), entry="- method_list: ['%unit_init', 'main']\n")
    ws = os.path.join(sc, f"c16ws_{lang}")
    err = None
    try:
        lianrun.run_lian(lianrun.lian_argv("run", lang, [src], ws, st, ["-q"]))
    except SystemExit as e:
        err = f"SystemExit({e.code})"
    except Exception as e:
        err = f"{type(e).__name__}: {e}"
    return {"lang": lang, "calls": stats.calls, "checked": stats.checked, "failures": stats.failures[:20], "pipeline_error": err}


def main():
    lianrun.prepare_zygote(warm=False)
    chk = common.Check(PROP, rule=(
        "sequences of DataModel mutators (element/row/column modification, append, row removal, rename, index reset, slice) "
        "interleaved with query subsets, enumerated exhaustively to the stated depth over 3 initial tables with duplicates "
        "and missing values, plus seeded random sequences of 4-9 steps; every query result is compared with a scan of the "
        "live frame. distinct_nontrivial = distinct (table, sequence) pairs whose battery made >= 1 query after >= 1 mutation"))
    thorough = chk.tier == "thorough"
    tables = list(initial_tables_names())
    if os.environ.get("VERIF_REPLAY"):
        with open(os.environ["VERIF_REPLAY"]) as f:
            case = json.load(f)["case"]
        seq = [(tuple(m) if not isinstance(m[-1], list) else tuple(m[:-1]) + (tuple(m[-1]),), q) for m, q in case["sequence"]]
        r = forkpool.run_one(enum_job, (case["table"], [seq]), timeout=300)
        if r.status != "ok":
            chk.note_inconclusive(f"replay {r.status}: {r.value}")
        else:
            st, fails = r.value
            chk.evaluated(st["queries"]); chk.nontrivial_case("replay-a"); chk.nontrivial_case("replay-b")
            chk.sample(case)
            for q, mut, d, c in fails:
                chk.fail(f"{q}|after:{mut}", d, c)
        sys.exit(chk.finish())
    jobs = []
    # depth-2 over the full alphabet with every query subset in between; depth-3 (4 in thorough) over the reduced alphabet
    plans = [(MUTATORS, QSUB, 2), (MUTATORS_TINY, ["none", "full"], 3)]
    if thorough:
        plans = [(MUTATORS, QSUB + ["full"], 2), (MUTATORS, ["none", "full"], 3), (MUTATORS_SMALL, ["none", "full"], 4)]
    n_seq = 0
    for muts, subs, depth in plans:
        steps = [(m, q) for m in muts for q in subs]
        for tn in (tables if depth < (4 if thorough else 3) else ["gir-like", "pure-int-bool"]):
            allseq = []
            for d in range(1, depth + 1):
                for seq in itertools.product(steps, repeat=d):
                    if any(q != "none" and i == len(seq) - 1 and q != subs[-1] for i, (m, q) in enumerate(seq)):
                        continue      # the last step always gets the full battery: one representative suffices
                    allseq.append(list(seq))
            n_seq += len(allseq)
            chunk = max(1, len(allseq) // 48)
            for i in range(0, len(allseq), chunk):
                jobs.append(("enum", tn, allseq[i:i + chunk]))
    rjobs = [("rand", chk.seed * 7919 + i, 120 if not thorough else 1500) for i in range(16)]
    rjobs += [("viewer", chk.seed * 104729 + i, 25 if not thorough else 400) for i in range(16)]

    def dispatch(job):
        if job[0] == "enum":
            return enum_job(job[1:])
        if job[0] == "viewer":
            return viewer_job(job[1:])
        return random_job(job[1:])
    seen_seq = 0
    for r in forkpool.run_jobs(dispatch, jobs + rjobs, timeout=3000, tag="c16"):
        if r.status != "ok":
            chk.note_inconclusive(f"worker {r.status}: {r.value} {r.log_text(600)}")
            continue
        st, fails = r.value
        chk.evaluated(st["queries"])
        if r.item[0] == "viewer":
            chk.count("block views: GIR-like tables whose root and nested views were compared with a scan", st["viewer_tables"])
            chk.count("block views: blocks in those tables", st["viewer_blocks"])
            chk.count("block views: query results compared with a scan", st["queries"])
            for i in range(st["viewer_tables"]):
                chk.nontrivial_case(("viewer", r.item[1], i))
            for q, mut, d, c in fails:
                chk.fail(f"{q}", d, c)
            continue
        kind = "enumerated" if r.item[0] == "enum" else "random"
        chk.count(f"{kind} sequences run on the real DataModel", st["sequences"])
        chk.count("query results compared with a scan", st["queries"])
        chk.count("sequences cut short because pandas refused a mutation", st["aborted"])
        for i in range(st["sequences"] - st["aborted"]):
            chk.nontrivial_case((r.item[0], r.item[1], seen_seq + i))
        seen_seq += st["sequences"]
        for q, mut, d, c in fails:
            chk.fail(f"{q}|after:{mut}", d, c)
    chk.exhaustive = True
    for r in forkpool.run_jobs(pipeline_job, list(PIPE_SRC), timeout=900, tag="c16p"):
        if r.status != "ok":
            chk.note_inconclusive(f"pipeline {r.item}: {r.status} {r.value} {r.log_text(600)}")
            continue
        v = r.value
        chk.count("pipeline: query post-conditions evaluated", sum(v["checked"].values()))
        chk.extra.setdefault("pipeline_runs", []).append({k: v[k] for k in ("lang", "calls", "checked", "pipeline_error")})
        for q, d in v["failures"]:
            chk.fail(f"pipeline:{q}", d, {"lang": v["lang"], "program": PIPE_SRC[v["lang"]][1]})
    chk.require("pipeline: query post-conditions evaluated", 200)
    if not os.environ.get("VERIF_REPLAY"):
        chk.require("block views: GIR-like tables whose root and nested views were compared with a scan", 100)
        chk.require("block views: query results compared with a scan", 50000)
    chk.require("query results compared with a scan", 10000)
    chk.sample({"table": "gir-like", "sequence": [[["elem", "first", 0, 2], "indexed"], [["remove", 0, 2], "none"], [["reset"], "full"]],
                "meaning": "each step = (mutator, query subset run right after it); the initial table is queried fully first so all caches are warm"})
    chk.assumptions += [
        "the oracle is a scan of the DataModel's live pandas frame at query return time (independent of its caches)",
        "'' counts as missing, as util.isna defines; two DataModel wrappers aliasing one frame are out of scope",
        "a mutation that pandas itself refuses (raises) ends the sequence and is not judged",
    ]
    sys.exit(chk.finish())


def initial_tables_names():
    return ["gir-like", "dicts-with-missing", "labelled-frame", "pure-int-bool"]


if __name__ == "__main__":
    main()
