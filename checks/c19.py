"""C19 — the call-path store keeps exactly the maximal paths.

Deciding step: the real PathManager/PathTrie is driven through (a) exhaustively enumerated and (b) random
add/remove/exists histories and (c) the real P3 pipeline, while a prefix-free-set reference model shadows it
(lib/monitors/pathstore.py); every operation's return value and the complete store are compared."""
import itertools
import json
import os
import random
import sys

from lib import common, forkpool, lianrun
from lib.monitors import pathstore

PROP = "C19"


def sites(n, invalid=False):
    # call sites that share components on purpose: the first two differ ONLY in the callee (one call statement that
    # dispatches to two callees), the third shares caller and callee with the first and differs only in the statement
    s = [(1, 10, 2), (1, 10, 3), (1, 11, 2), (2, 20, 4)][:n]
    if invalid:
        s.append((1, -1, 9))
    return s


def all_paths(alphabet, maxlen, with_empty=True):
    out = [()] if with_empty else []
    for L in range(1, maxlen + 1):
        out.extend(itertools.product(alphabet, repeat=L))
    return out


def mk(cs, p):
    return cs.CallPath(tuple(cs.CallSite(*t) for t in p))


def apply_history(cs, hist):
    """Replay hist on a fresh real PathManager + fresh model. Returns (pm, model, failure|None)."""
    pm = cs.PathManager()
    model = pathstore.Model()
    for i, (op, p) in enumerate(hist):
        f = step(cs, pm, model, op, p)
        if f:
            return pm, model, (i, f)
    return pm, model, None


def step(cs, pm, model, op, p):
    obj = mk(cs, p)
    if op == "add":
        got, want = pm.add_path(obj), model.add(p)
    elif op == "remove":
        got, want = pm.remove_path(obj), model.remove(p)
    else:
        got, want = pm.path_exists(obj), model.exists(p)
    if bool(got) != bool(want):
        return f"{op}{p} returned {got}, model {want}"
    return pathstore.compare(pm, model)


def real_state(pm):
    nodes = []
    stack = [((), pm.trie.root)]
    while stack:
        prefix, node = stack.pop()
        nodes.append((prefix, node.is_terminal))
        for e, ch in node.children.items():
            stack.append((prefix + (e.to_tuple(),), ch))
    return (frozenset(pathstore.to_key(p) for p in pm.paths), frozenset(nodes))


def signature(hist, idx, desc):
    op, p = hist[idx]
    flags = []
    involved_empty = (p == ()) or any(q == () for o, q in hist[:idx] if o == "add")
    if involved_empty:
        flags.append("empty-path")
    if not pathstore.Model.valid(p):
        flags.append("invalid-site")
    if op == "add" and any(o == "remove" and len(q) > len(p) and q[:len(p)] == p for o, q in hist[:idx]):
        flags.append("after-removal-of-extension")
    if "returned" in desc:
        kind = "return-value"
    elif "proper prefix" in desc:
        kind = "prefix-kept"
    elif "paths differ" in desc:
        kind = "store-differs"
    elif "invalid call site" in desc:
        kind = "invalid-stored"
    else:
        kind = "trie-inconsistent"
    return f"{op}:{kind}" + ("[" + ",".join(flags) + "]" if flags else "")


def expand_job(job):
    """Child: from each frontier history apply every op; report failures and new states."""
    alphabet, maxlen, hists, want_states = job
    from lian import common_structs as cs
    ops = [(o, p) for p in all_paths(alphabet, maxlen) for o in ("add", "remove", "exists")]
    fails, new, n = [], {}, 0
    for h in hists:
        for o in ops:
            hist = h + [o]
            pm, model, f = apply_history(cs, hist)
            n += 1
            if f:
                if len(fails) < 50:
                    fails.append((hist, f[0], f[1]))
                continue
            if want_states:
                st = real_state(pm)
                if st not in new:
                    new[st] = hist
    return n, fails, (list(new.items()) if want_states else [])


def bfs(chk, alphabet, maxlen, depth, label):
    """State-deduplicated breadth-first exploration of the *real* object's state space."""
    from lian import common_structs as cs
    seen = {real_state(cs.PathManager()): []}
    frontier = [[]]
    total = 0
    for d in range(1, depth + 1):
        last = (d == depth)
        chunks = [frontier[i::16] for i in range(16)]
        jobs = [(alphabet, maxlen, c, not last) for c in chunks if c]
        nxt = []
        for r in forkpool.run_jobs(expand_job, jobs, timeout=3000, tag="c19"):
            if r.status != "ok":
                chk.note_inconclusive(f"{label}: worker {r.status}: {r.value if r.status != 'ok' else ''} {r.log_text(500)}")
                continue
            n, fails, new = r.value
            total += n
            chk.evaluated(n)
            chk.count(f"{label}: operations applied to the real store and compared", n)
            for hist, idx, desc in fails:
                chk.fail(signature(hist, idx, desc), desc, {"kind": "history", "history": hist})
            for st, hist in new:
                if st not in seen:
                    seen[st] = hist
                    nxt.append(hist)
        frontier = nxt
        if not frontier:
            break
    chk.count(f"{label}: distinct real states (paths + trie shape) reached", len(seen))
    for st in seen:
        chk.nontrivial_case(("state", label, hash(st)))
    return len(seen), total


def random_job(job):
    seed, n_hist, n_ops = job
    from lian import common_structs as cs
    rng = random.Random(seed)
    fails = []
    ops_done = 0
    shapes = set()
    for _ in range(n_hist):
        alphabet = sites(rng.choice([2, 3]), invalid=rng.random() < 0.3)
        paths = all_paths(alphabet, 4, with_empty=rng.random() < 0.2)
        # few paths, so that prefixes/extensions/duplicates collide often
        pool = rng.sample(paths, min(len(paths), rng.choice([4, 8, 16])))
        for p in list(pool):
            if len(p) > 1 and rng.random() < 0.7:
                pool.append(p[:rng.randrange(1, len(p))])
        hist = []
        pm, model = cs.PathManager(), pathstore.Model()
        for i in range(n_ops):
            op = rng.choices(["add", "remove", "exists"], [5, 3, 2])[0]
            p = rng.choice(pool)
            hist.append((op, p))
            f = step(cs, pm, model, op, p)
            ops_done += 1
            if f:
                fails.append((hist[:], i, f))
                break
        shapes.add(frozenset(model.store))
    return ops_done, fails[:30], len(shapes)


PIPELINE_PROGRAMS = {
    "chain.py": "def a(x):\n    return b(x) + b(x + 1)\n\ndef b(y):\n    return c(y)\n\ndef c(z):\n    return z\n\nr = a(1)\nq = c(2)\n",
    "rec.py": "def f(n):\n    if n > 0:\n        return g(n - 1)\n    return 0\n\ndef g(n):\n    return f(n) + h(n)\n\ndef h(k):\n    return k\n\nv = f(3)\n",
    "cls.py": "class A:\n    def m(self, x):\n        return self.n(x)\n    def n(self, y):\n        return y\n\ndef run():\n    o = A()\n    return o.m(1)\n\nw = run()\n",
}


def pipeline_job(enable_p2):
    stats = pathstore.install()
    sc = common.scratch()
    src = os.path.join(sc, f"c19src{int(enable_p2)}")
    os.makedirs(src, exist_ok=True)
    for n, t in PIPELINE_PROGRAMS.items():
        with open(os.path.join(src, n), "w") as f:
            f.write(t)
    st = lianrun.write_settings(os.path.join(sc, f"c19st{int(enable_p2)}"),
                                entry="- lang: python\n  method_list: ['%unit_init', 'run']\n")
    ws = os.path.join(sc, f"c19ws{int(enable_p2)}")
    extra = ["-q"] + (["--enable-p2"] if enable_p2 else [])
    app = lianrun.run_lian(lianrun.lian_argv("semantic", "python", [src], ws, st, extra))
    return {"ops": stats.ops, "instances": stats.instances, "max_store": stats.max_store,
            "failures": [(o, list(a), d) for o, a, d in stats.failures[:20]]}


def replay(chk, path):
    from lian import common_structs as cs
    with open(path) as f:
        case = json.load(f)["case"]
    hist = [(o, tuple(tuple(s) for s in p)) for o, p in case["history"]]
    pm, model, f = apply_history(cs, hist)
    chk.evaluated(len(hist))
    chk.nontrivial_case("replay")
    chk.nontrivial_case("replay2")
    chk.sample({"history": hist})
    if f:
        chk.fail(signature(hist, f[0], f[1]), f[1], {"kind": "history", "history": hist})


def main():
    lianrun.prepare_zygote(warm=False)
    chk = common.Check(PROP, rule=(
        "exhaustive state-deduplicated BFS over add/remove/exists histories on the real PathManager "
        "(every op applied in every distinct reached state) + seeded random 60-op histories + the live store of real "
        "P3 runs; distinct_nontrivial = distinct real states (stored set + trie shape) reached, plus distinct final "
        "stores of random histories"))
    if os.environ.get("VERIF_REPLAY"):
        replay(chk, os.environ["VERIF_REPLAY"])
        sys.exit(chk.finish())
    thorough = chk.tier == "thorough"
    # (a) exhaustive
    bfs(chk, sites(3), 3, 4 if not thorough else 5, "bfs 3 sites, len<=3")
    bfs(chk, sites(2, invalid=True), 3, 6 if not thorough else 16, "bfs 2 sites + invalid site, len<=3")
    if thorough:
        bfs(chk, sites(3), 4, 4, "bfs 3 sites, len<=4, depth 4")
    chk.exhaustive = True
    # (b) random
    n_jobs = 16 if not thorough else 64
    per = 150 if not thorough else 600
    jobs = [(chk.seed * 100003 + i, per, 60) for i in range(n_jobs)]
    for r in forkpool.run_jobs(random_job, jobs, timeout=1200, tag="c19r"):
        if r.status != "ok":
            chk.note_inconclusive(f"random worker {r.status} {r.log_text(500)}")
            continue
        ops, fails, shapes = r.value
        chk.evaluated(ops)
        chk.count("random histories: operations compared", ops)
        for i in range(shapes):
            chk.nontrivial_case(("rand", r.item[0], i))
        for hist, idx, desc in fails:
            chk.fail(signature(hist, idx, desc), desc, {"kind": "history", "history": hist})
    # (c) the live store inside real runs
    for r in forkpool.run_jobs(pipeline_job, [False, True], timeout=600, tag="c19p"):
        if r.status != "ok":
            chk.note_inconclusive(f"pipeline run (enable_p2={r.item}) {r.status}: {r.value} {r.log_text(800)}")
            continue
        v = r.value
        chk.count("pipeline: PathManager operations shadowed", v["ops"])
        chk.count("pipeline: PathManager instances", v["instances"])
        chk.extra.setdefault("pipeline_max_store", 0)
        chk.extra["pipeline_max_store"] = max(chk.extra["pipeline_max_store"], v["max_store"])
        for o, a, d in v["failures"]:
            chk.fail(f"pipeline:{o}", d, {"kind": "pipeline", "op": o, "arg": a, "programs": PIPELINE_PROGRAMS})
    chk.require("pipeline: PathManager operations shadowed", 5)
    chk.sample({"history": [("add", [(1, 10, 2), (1, 11, 3)]), ("remove", [(1, 10, 2), (1, 11, 3)]),
                            ("add", [(1, 10, 2)])], "meaning": "ops are (kind, path as tuple of (caller, stmt, callee))"})
    chk.assumptions += [
        "paths are built from the real CallSite/CallPath classes; validity = no negative component",
        "exhaustive parts are complete for the stated alphabet/length/depth bounds only",
    ]
    sys.exit(chk.finish())


if __name__ == "__main__":
    main()
