"""C14 — analysis output is a deterministic function of the input.

A relation between runs, no oracle: the same project analysed with the same options in SEPARATE processes must leave the
same artefacts. One zygote per interpreter hash seed (`python -m lib.seedworker`, started with PYTHONHASHSEED=<s>)
forks one child per analysis; the child performs the complete `run`, snapshots every file under frontend/,
semantic_p1/, semantic_p2/, semantic_p3/, taint/ (+ the dot directories) — SHA-256 of the bytes and SHA-256 of the
decoded content with the run's own workspace/input prefix substituted — and moves the artefact directories aside.

Pairs of runs that differ in exactly ONE dimension are compared:
  hash-seed            same absolute workspace path, seed s vs the first seed                       byte level
  repetition           same path, same seed, 2nd/3rd run vs the 1st                                  byte level
  history              same path and seed, after (a) another project analysed there with --force, (b) a workspace
                       pre-populated with another project's output + junk, (c) a stale ./lian_workspace of another
                       project in the cwd / TMPDIR / HOME                                             byte level
  workspace-path       same seed, workspace at another absolute path of different length              decoded level
  file-creation-order  same seed, the same files created on disk in two different orders (on a file system whose
                       directory listing follows creation order: tmpfs)                               decoded level
plus a few TRUE CLI runs (fresh interpreter, real YAML loader) against the forked run of the same job: a difference
there is a harness fault (inconclusive), not a lian violation.

Workload (lib/c14_projects.py): hand-written multi-file programs for the seven frontends, generated name-heavy programs,
nested-object writers (callees adding 4-6 fields to an object one or two field hops from a parameter / this / a returned
object that already has fields of its own — a probe in the child confirms that the merged field dict really shows up in
s2space_p3, with a floor), option variants and the repository's corpora.

On a difference the kept files are decoded and the first differing table / row / column is the witness; the mechanism
signature is `<artefact file stem>:<column or json key>:<dimension>` of the FIRST differing artefact in pipeline
order (module_symbols, then frontend/, semantic_p1/ … taint/), never a hash; instead of a column the middle part is
`#row-order` when both tables hold the same rows in another order, `#rows` / `#columns` / `#missing` / `#bytes-only`
for the corresponding structural differences, and `#outcome` when one run ended with an exception and the other did not."""
import base64
import json
import os
import random
import shutil
import subprocess
import sys
import tempfile
import time

from lib import common, forkpool, c14_projects as P
from lib.monitors import artefacts

PROP = "C14"
DIMS = ("hash-seed", "repetition", "history", "workspace-path", "file-creation-order")
FIXED_SEEDS = [0, 1, 2, 12345]
CHILDREN_PER_WORKER = 3


# ---------------------------------------------------------------------------------------------------
# projects on disk

def write_tree(root, files, order=None):
    """files: {rel: {'text'|'b64'}}; created in the given order of relative paths (default: sorted)."""
    names = list(order) if order is not None else sorted(files)
    for rel in names:
        p = os.path.join(root, rel)
        os.makedirs(os.path.dirname(p), exist_ok=True)
        v = files[rel]
        with open(p, "wb") as f:
            f.write(v["text"].encode("utf-8") if "text" in v else base64.b64decode(v["b64"]))


def pack_files(files):
    return {rel: {"text": t} for rel, t in files.items()}


def read_tree(path, lang):
    """A corpus directory / file -> ({rel: {'text'|'b64'}}, basename). Only regular files, no links."""
    out = {}
    if os.path.isfile(path):
        items = [(os.path.basename(path), path)]
    else:
        items = []
        for r, dn, fn in os.walk(path):
            dn.sort()
            for n in sorted(fn):
                p = os.path.join(r, n)
                if os.path.isfile(p) and not os.path.islink(p):
                    items.append((os.path.relpath(p, path), p))
    for rel, p in items:
        with open(p, "rb") as f:
            data = f.read()
        try:
            out[rel] = {"text": data.decode("utf-8")}
        except UnicodeDecodeError:
            out[rel] = {"b64": base64.b64encode(data).decode("ascii")}
    return out


def select_projects(tier, rng):
    """-> list of {name, lang, files, settings, extra, origin, single_file}"""
    projs = []
    for h in P.HAND:
        projs.append({"name": h["name"], "lang": h["lang"], "files": pack_files(h["files"]), "settings": h["settings"],
                      "extra": list(h["extra"]), "origin": "hand", "probe_fields": P.PROBE_FIELDS.get(h["name"])})
    thorough = tier == "thorough"
    gen_langs = list(P.LANGS)
    rng.shuffle(gen_langs)
    n_gen = 14 if thorough else 2
    for i in range(n_gen):
        lang = gen_langs[i % len(gen_langs)]
        g = P.gen_wide(lang, rng, n_funcs=rng.randint(8, 12) if thorough else rng.randint(5, 6),
                       n_classes=rng.randint(2, 5), n_files=rng.randint(2, 4))
        projs.append({"name": f"gen_wide_{lang}_{i}", "lang": lang, "files": pack_files(g["files"]), "settings": g["settings"],
                      "extra": [], "origin": "generated", "probe_fields": g["probe_fields"]})
    # nested-object writers only (callees adding several fields to objects 1-2 hops from a parameter / this / a returned
    # object): one per frontend in thorough; in quick one, rotating over the frontends with the seed
    nest_langs = list(P.LANGS)
    rng.shuffle(nest_langs)
    for i, lang in enumerate(nest_langs[: (len(nest_langs) if thorough else 1)]):
        g = P.gen_nested(lang, rng, n_units=2)
        projs.append({"name": f"gen_nested_{lang}_{i}", "lang": lang, "files": pack_files(g["files"]), "settings": g["settings"],
                      "extra": [], "origin": "generated", "probe_fields": g["probe_fields"]})
    # Python-only shapes: package trees with overlapping dotted imports, classes with __init__ AND __post_init__
    for i in range(3 if thorough else 1):
        g = P.gen_pyshapes(rng, n=2)
        projs.append({"name": f"gen_pyshapes_{i}", "lang": "python", "files": pack_files(g["files"]), "settings": g["settings"],
                      "extra": [], "origin": "generated"})
    # option variants of hand-written projects: the statement says "same options", whatever they are
    variants = [("py_store_taint", ["--graph"]), ("js_classes_taint", ["--enable-p2"])]
    if thorough:
        variants += [("py_control_mix", ["--enable-p2", "--graph"]), ("java_service", ["--enable-p2"]),
                     ("go_service", ["--graph"]), ("php_service", ["--nomock"]), ("c_buffers", ["--strict-parse-mode"])]
    byname = {p["name"]: p for p in projs}
    for nm, extra in variants[: (len(variants) if thorough else 1)]:
        b = byname[nm]
        projs.append(dict(b, name=nm + "+" + "".join(extra).replace("--", "_").strip("_"), extra=list(extra), origin="hand-options"))
    dirs, files = P.corpus_projects(common.REPO, thorough)
    if thorough:
        chosen = dirs + rng.sample(files, min(len(files), 56))
    else:
        # one small corpus directory and one single corpus file, rotating with the seed
        rng.shuffle(dirs)
        small = [d for d in dirs if d["name"] in ("corpus_control_flows", "corpus_import_python", "corpus_dataflows_java",
                                                  "corpus_import_js", "corpus_import_php", "corpus_import_java")]
        chosen = small[:1] + rng.sample(files, min(len(files), 1))
    for c in chosen:
        fs = read_tree(c["path"], c["lang"])
        if not fs:
            continue
        base = os.path.basename(c["path"].rstrip("/"))
        projs.append({"name": c["name"], "lang": c["lang"], "files": fs, "settings": P.taint_settings(c["lang"]),
                      "extra": [], "origin": c["origin"], "single_file": os.path.isfile(c["path"]), "basename": base,
                      "corpus_path": c["path"]})
    return projs


def materialise(proj, in_root, order=None):
    """Write the project below in_root; returns the in_path given to lian (a directory, or the file itself)."""
    base = proj.get("basename") or "proj"
    if proj.get("single_file"):
        write_tree(in_root, proj["files"])
        return os.path.join(in_root, base)
    d = os.path.join(in_root, base)
    os.makedirs(d, exist_ok=True)
    write_tree(d, proj["files"], order)
    return d


def write_settings(dirpath, s):
    os.makedirs(dirpath, exist_ok=True)
    for name, key in (("entry.yaml", "entry"), ("source.yaml", "source"), ("sink.yaml", "sink"), ("propagation.yaml", "propagation")):
        with open(os.path.join(dirpath, name), "w") as f:
            f.write(s.get(key) or "[]\n")
    return dirpath


def tree_digest():
    """SHA-256 over every source file of the tree under test: the zygotes import it once at start while true CLI runs
    import it when they run, so a commit landing in between must be told apart from a harness fault."""
    import hashlib
    h = hashlib.sha256()
    src = os.path.join(common.REPO, "src")
    for r, dn, fn in os.walk(src):
        dn[:] = sorted(d for d in dn if d != "__pycache__")
        for n in sorted(fn):
            if n.endswith((".py", ".yaml", ".so")):
                p = os.path.join(r, n)
                h.update(os.path.relpath(p, src).encode())
                try:
                    with open(p, "rb") as f:
                        h.update(f.read())
                except OSError:
                    h.update(b"?")
    return h.hexdigest()


def snapshot_tree(root):
    """A verbatim copy of the tree under test taken when the check starts (src/ and default_settings/ copied, the
    prebuilt grammars and corpora linked). Every zygote and every true CLI run of this check invocation uses the copy,
    so a commit landing in /repo while the check runs cannot make two runs of one pair execute different code."""
    snap = os.path.join(root, "tree")
    os.makedirs(snap)
    shutil.copytree(os.path.join(common.REPO, "src"), os.path.join(snap, "src"), symlinks=True,
                    ignore=shutil.ignore_patterns("__pycache__", "*.pyc"))
    ds = os.path.join(common.REPO, "default_settings")
    if os.path.isdir(ds):
        shutil.copytree(ds, os.path.join(snap, "default_settings"), symlinks=True)
    for x in ("lib", "tests", "docs"):
        p = os.path.join(common.REPO, x)
        if os.path.exists(p):
            os.symlink(os.path.realpath(p), os.path.join(snap, x))
    return snap


def order_sensitive_dir():
    """A directory on a file system whose listing order follows file creation order (needed for the
    file-creation-order dimension; ext4 lists by name hash whatever the creation order). None if there is none."""
    for base in ("/dev/shm",):
        try:
            if not (os.path.isdir(base) and os.access(base, os.W_OK)):
                continue
            d = tempfile.mkdtemp(prefix="lianverif_c14_", dir=base)
        except OSError:
            continue
        names = ["m.py", "a.py", "z.py", "k.py"]
        for sub, order in (("x", names), ("y", list(reversed(names)))):
            os.makedirs(os.path.join(d, sub))
            for n in order:
                open(os.path.join(d, sub, n), "w").close()
        lx = [e.name for e in os.scandir(os.path.join(d, "x"))]
        ly = [e.name for e in os.scandir(os.path.join(d, "y"))]
        shutil.rmtree(os.path.join(d, "x")); shutil.rmtree(os.path.join(d, "y"))
        if lx != ly:
            import atexit
            pid = os.getpid()
            atexit.register(lambda: os.getpid() == pid and shutil.rmtree(d, ignore_errors=True))
            return d
        shutil.rmtree(d, ignore_errors=True)
    return None


# ---------------------------------------------------------------------------------------------------
# jobs

class Plan:
    def __init__(self, root, tmpfs_root, timeout):
        self.root = root
        self.tmpfs_root = tmpfs_root
        self.timeout = timeout
        self.jobs = {}          # seed -> [job]
        self.pairs = []         # (dimension, project name, id_a, id_b, level, detail)
        self.meta = {}          # job id -> (project name, seed, variant)
        self.done = []          # jobs already run in an earlier phase (kept for witnesses / replay cases)

    def job(self, proj, seed, variant, *, in_path, in_root, workspace, kind="fork", pre=(), front=False, lock=None, order=None,
            cwd=None, symlink=None):
        jid = f"{proj['name']}|s{seed}|{variant}"
        j = {"id": jid, "kind": kind, "lang": proj["lang"], "in_paths": [in_path], "in_roots": [in_root],
             "workspace": workspace, "settings": proj["settings_dir"], "extra": proj["extra"],
             "lock": lock or os.path.join(self.root, "locks", _safe(workspace)),
             "keep": os.path.join(self.root if not workspace.startswith(self.tmpfs_root or "\0") else self.tmpfs_root,
                                  "keep", _safe(jid)),
             "pre": list(pre), "timeout": self.timeout, "hashseed": seed, "cli_timeout": max(300, self.timeout), "order": order,
             "probe_fields": proj.get("probe_fields") if variant == "base" else None, "cwd": cwd, "symlink": symlink}
        lst = self.jobs.setdefault(seed, [])
        if front:
            lst.insert(0, j)
        else:
            lst.append(j)
        self.meta[jid] = (proj["name"], seed, variant)
        return jid


def _safe(s):
    return "".join(c if c.isalnum() or c in "-_." else "_" for c in s)[-150:]


LOCATIONS = ("loc-long", "loc-named", "loc-probe", "loc-relative", "loc-symlink", "loc-inside-input")


def location_kw(root, p, tag):
    """Job arguments for one way of placing / addressing the workspace (None: not applicable to this project).
      loc-long          another absolute path, much longer          loc-named   a path that already contains 'lian_workspace'
      loc-probe         the thorough tier's phase-0 location         loc-relative  a RELATIVE -w (relative to the cwd)
      loc-symlink       -w goes through a symbolic link              loc-inside-input  -w two levels inside the (private
                                                                                        copy of the) input directory"""
    n = _safe(p["name"])
    kw = dict(in_path=p["in_path"], in_root=p["in_root"])
    if tag == "loc-long":
        kw["workspace"] = os.path.join(root, "elsewhere_with_a_considerably_longer_directory_name", n, "nested", "deeper")
    elif tag == "loc-named":
        kw["workspace"] = os.path.join(root, "w", n[:40], "my_lian_workspace_dir")
    elif tag == "loc-probe":
        kw["workspace"] = os.path.join(root, "p", n)
    elif tag == "loc-relative":
        kw.update(workspace=os.path.join("rel_out", "ws"), cwd=os.path.join(root, "relcwd", n), lock=os.path.join(root, "locks", "rel_" + n))
    elif tag == "loc-symlink":
        link = os.path.join(root, "lnk", n)
        kw.update(workspace=os.path.join(link, "ws"), symlink=[link, os.path.join(root, "lnk_target", n)])
    elif tag == "loc-inside-input":
        if p.get("single_file"):
            return None
        in_root = os.path.join(root, "in_priv", n)
        shutil.rmtree(in_root, ignore_errors=True)
        in_path = materialise(p, in_root)
        kw.update(in_path=in_path, in_root=in_root, workspace=os.path.join(in_path, "out", "deep"))
    else:
        raise ValueError(tag)
    return kw


def prepare_projects(projs, root):
    for p in projs:
        p["settings_dir"] = write_settings(os.path.join(root, "settings", _safe(p["name"])), p["settings"])
        p["in_root"] = os.path.join(root, "in", _safe(p["name"]))
        p["in_path"] = materialise(p, p["in_root"])
        p["same_ws"] = os.path.join(root, "same", _safe(p["name"]))


def probe_plan(projs, seed, root, tmpfs_root, timeout):
    """Thorough tier, phase 0: every candidate project once (its own workspace path) to find the projects on which lian
    itself fails and the heavy ones; the runs double as 'another workspace location' for the main phase."""
    plan = Plan(root, tmpfs_root, timeout)
    for p in projs:
        plan.job(p, seed, "loc-probe", **location_kw(root, p, "loc-probe"))
    return plan


def build_plan(projs, seeds, tier, rng, root, tmpfs_root, timeout, probe=None):
    plan = Plan(root, tmpfs_root, timeout)
    if probe:
        plan.done = list(probe.jobs.get(seeds[0], []))
        plan.meta.update(probe.meta)
    thorough = tier == "thorough"
    s0 = seeds[0]
    others_pool = [p for p in projs if p["origin"] in ("hand", "generated")]
    turn = [0]

    def next_seed():
        turn[0] += 1
        return seeds[turn[0] % len(seeds)]

    for i, p in enumerate(projs):
        common_kw = dict(in_path=p["in_path"], in_root=p["in_root"])
        base = {}
        for s in seeds:
            base[s] = plan.job(p, s, "base", workspace=p["same_ws"], **common_kw)
            if s != s0:
                plan.pairs.append(("hash-seed", p["name"], base[s0], base[s], "bytes", f"PYTHONHASHSEED {s0} vs {s}"))
        # repetitions
        rep_seeds = (seeds if not p.get("heavy") else [s0]) if thorough else ([next_seed()] if i % 3 == 0 else [])
        for s in rep_seeds:
            for r in (1, 2):
                j = plan.job(p, s, f"rep{r}", workspace=p["same_ws"], **common_kw)
                plan.pairs.append(("repetition", p["name"], base[s], j, "bytes", f"run {r + 1} vs run 1, PYTHONHASHSEED {s}"))
        # workspace location: other absolute paths of different length (one already containing 'lian_workspace')
        # and other ways of ADDRESSING it: a relative -w, a -w through a symbolic link, a -w inside the input directory
        locs = ["loc-long"]
        if thorough:
            if not p.get("heavy"):
                locs += ["loc-named", ("loc-relative", "loc-symlink", "loc-inside-input")[i % 3]]
        else:
            locs.append(("loc-named", "loc-relative", "loc-symlink", "loc-inside-input")[i % 4])
        for tag in locs:
            kw = location_kw(root, p, tag)
            if kw is None:
                continue
            s = next_seed()
            j = plan.job(p, s, tag, **kw)
            plan.pairs.append(("workspace-path", p["name"], base[s], j, "decoded", f"{tag}, PYTHONHASHSEED {s}"))
        if probe:
            plan.pairs.append(("workspace-path", p["name"], base[s0], f"{p['name']}|s{s0}|loc-probe", "decoded", f"loc-probe, PYTHONHASHSEED {s0}"))
        # process history
        if (thorough and not p.get("heavy") and i % 2 == 0) or (not thorough and i % 4 == 1):
            cands = [o for o in others_pool if o["name"].split("+")[0] != p["name"].split("+")[0]]
            other = cands[(i * 7) % len(cands)]
            other2 = cands[(i * 7 + 3) % len(cands)]
            pre_run = {"op": "run", "lang": other["lang"], "in_paths": [other["in_path"]], "settings": other["settings_dir"],
                       "extra": other["extra"], "project": other["name"]}
            pre_run2 = dict(pre_run, lang=other2["lang"], in_paths=[other2["in_path"]], settings=other2["settings_dir"],
                            extra=other2["extra"], project=other2["name"])
            stale_dir = os.path.join(root, "stale", _safe(p["name"]) + f"_{turn[0]}")
            hist = [("hist-other-project-before", [pre_run]),
                    ("hist-prepopulated", [pre_run2, {"op": "junk"}]),
                    ("hist-stale-elsewhere", [dict(pre_run, at=stale_dir), {"op": "cwd_tmp", "dir": stale_dir}])]
            for tag, pre in hist:
                hs = next_seed()
                j = plan.job(p, hs, tag, workspace=p["same_ws"], pre=pre, **common_kw)
                plan.pairs.append(("history", p["name"], base[hs], j, "bytes", f"{tag} ({pre[0]['project']}), PYTHONHASHSEED {hs}"))
        # file creation order (needs an order-sensitive file system for inputs AND workspace)
        if tmpfs_root and not p.get("single_file") and len(p["files"]) >= 2 and (thorough or i % 2 == 0 or len(p["files"]) > 3):
            names = sorted(p["files"])
            orders = [("orderA", list(names)), ("orderB", list(reversed(names)))]
            if thorough and len(names) > 2:
                o3 = list(names)
                random.Random(f"{p['name']}").shuffle(o3)
                if o3 not in (orders[0][1], orders[1][1]):
                    orders.append(("orderC", o3))
            ws = os.path.join(tmpfs_root, "ws", _safe(p["name"]))
            s = next_seed()
            ids = []
            for tag, order in orders:
                in_root = os.path.join(tmpfs_root, "in", tag, _safe(p["name"]))
                in_path = materialise(p, in_root, order)
                ids.append((tag, plan.job(p, s, tag, workspace=ws, in_path=in_path, in_root=in_root, order=order)))
            for tag, j in ids[1:]:
                plan.pairs.append(("file-creation-order", p["name"], ids[0][1], j, "decoded",
                                   f"files created in {tag} vs orderA (sorted) order on {os.path.dirname(tmpfs_root)}, PYTHONHASHSEED {s}"))
    # true CLI runs against a forked twin at the same (private) path; placed first in their worker's list (they are long)
    n_cli = 10 if thorough else 3
    cli_projs = [p for p in projs if p["origin"] in ("hand", "generated", "hand-options")]
    for k in range(min(n_cli, len(cli_projs))):
        p = cli_projs[(k * 3 + 1) % len(cli_projs)]
        s = seeds[k % len(seeds)]
        ws = os.path.join(root, "cli", _safe(p["name"]) + f"_s{s}")
        kw = dict(workspace=ws, in_path=p["in_path"], in_root=p["in_root"])
        a = plan.job(p, s, "cli-twin", front=True, **kw)
        b = plan.job(p, s, "cli", kind="cli", front=True, **kw)
        plan.pairs.append(("cli-vs-fork", p["name"], a, b, "bytes", f"true CLI run vs forked run, PYTHONHASHSEED {s}"))
    # rotate each worker's list so that different workers are busy with different projects (they share the paths)
    for k, s in enumerate(seeds):
        lst = plan.jobs.get(s, [])
        cli = [j for j in lst if j["id"].endswith("|cli") or j["id"].endswith("|cli-twin")]
        rest = [j for j in lst if j not in cli]
        if rest:
            off = (k * len(rest)) // len(seeds)
            rest = rest[off:] + rest[:off]
        plan.jobs[s] = cli + rest
    return plan


def run_workers(plan, root, deadline_s, chk, children=CHILDREN_PER_WORKER, tag="", tree=None):
    """Start one seed worker per hash seed; -> {job id: result entry}"""
    procs = []
    for s, jobs in plan.jobs.items():
        jp = os.path.join(root, f"jobs{tag}_s{s}.json")
        op = os.path.join(root, f"results{tag}_s{s}.json")
        with open(jp, "w") as f:
            json.dump({"jobs": jobs}, f)
        env = dict(os.environ)
        env["PYTHONHASHSEED"] = str(s)
        env["VERIF_SCRATCH"] = root
        env["LIAN_REPO"] = tree or common.REPO
        env["PYTHONDONTWRITEBYTECODE"] = "1"
        env["PYTHONWARNINGS"] = "ignore"
        log = open(os.path.join(root, f"worker{tag}_s{s}.log"), "w")
        pr = subprocess.Popen([sys.executable, "-X", "faulthandler", "-m", "lib.seedworker", jp, op, str(children)],
                              cwd=common.VERIF, env=env, stdin=subprocess.DEVNULL, stdout=log, stderr=subprocess.STDOUT)
        procs.append((s, pr, op, log))
    results = {}
    t_end = time.time() + deadline_s
    for s, pr, op, log in procs:
        try:
            pr.wait(timeout=max(1.0, t_end - time.time()))
        except subprocess.TimeoutExpired:
            pr.kill()
            pr.wait()
            chk.note_inconclusive(f"seed worker PYTHONHASHSEED={s} exceeded the overall deadline of {deadline_s}s")
        log.close()
        try:
            with open(op) as f:
                data = json.load(f)
        except Exception:
            tail = ""
            try:
                with open(os.path.join(root, f"worker{tag}_s{s}.log")) as f:
                    tail = f.read()[-1500:]
            except OSError:
                pass
            chk.note_inconclusive(f"seed worker PYTHONHASHSEED={s} left no result (exit {pr.returncode}): {tail}")
            continue
        chk.extra.setdefault("workers", []).append({"hashseed": data["hashseed"], "hash('lian-c14-probe')": data["hash_of_probe_string"],
                                                    "zygote_s": data["zygote_s"], "wall_s": data["wall_s"], "jobs": len(data["results"])})
        for ent in data["results"]:
            results[ent["id"]] = ent
    return results


# ---------------------------------------------------------------------------------------------------
# judging

def witness_job(item):
    keep_a, keep_b, rel, sub_a, sub_b = item
    return artefacts.witness(keep_a, keep_b, rel, tuple(map(tuple, sub_a)), tuple(map(tuple, sub_b)))


def job_by_id(plan, jid):
    for lst in list(plan.jobs.values()) + [plan.done]:
        for j in lst:
            if j["id"] == jid:
                return j
    return None


def judge_pair(chk, plan, results, pair, projs_by_name, stats):
    """Compare two runs. Returns None (not comparable), [] (equal) or [(signature, description, witness)]."""
    dim, pname, ida, idb, level, detail = pair
    ra, rb = results.get(ida), results.get(idb)
    for jid, r in ((ida, ra), (idb, rb)):
        if r is None:
            chk.note_inconclusive(f"no result for job {jid}")
            return None
        if r["status"] in ("timeout", "lost", "signal"):
            chk.note_inconclusive(f"job {jid}: {r['status']} {r.get('error')} after {r['wall']}s")
            return None
        if r["status"] != "ok":
            chk.note_inconclusive(f"job {jid}: harness {r['status']}: {str(r.get('error'))[:600]}")
            return None
    va, vb = ra["value"], rb["value"]
    if va["src"] != vb["src"]:
        chk.note_inconclusive(f"harness: {ida} and {idb} were not given the same input files")
        return None
    out = []
    if va["outcome"] != vb["outcome"]:
        out.append((f"#outcome:{va['outcome'].split('@')[-1] if va['outcome'] != 'ok' else vb['outcome'].split('@')[-1]}:{dim}",
                    f"{pname}: the run ended '{va['outcome']}' in one process and '{vb['outcome']}' in the other ({detail})",
                    {"where": "#outcome", "a": va["outcome"], "b": vb["outcome"]}))
        return out
    sa, sb = va["snapshot"], vb["snapshot"]
    stats["pairs"][dim] = stats["pairs"].get(dim, 0) + 1
    n_files = len(set(sa) | set(sb))
    stats["files_compared"][dim] = stats["files_compared"].get(dim, 0) + n_files
    same_bytes = sum(1 for r in sa if r in sb and sa[r]["sha"] == sb[r]["sha"])
    stats["byte_identical"][dim] = stats["byte_identical"].get(dim, 0) + same_bytes
    if level == "decoded":
        stats["decoded_compared"][dim] = stats["decoded_compared"].get(dim, 0) + n_files
        for r in sa:
            if r in sb and sa[r]["sha"] != sb[r]["sha"] and sa[r]["dsha"] == sb[r]["dsha"]:
                stats["differ_only_by_location"].add(artefacts.stem(r))
    for r, e in list(sa.items()) + list(sb.items()):
        if e["embeds"]:
            stats["embedding_files"].setdefault(artefacts.stem(r), set()).update(e["embeds"])
    diffs = artefacts.compare_snapshots(sa, sb, level)
    if not diffs:
        return out
    ja, jb = job_by_id(plan, ida), job_by_id(plan, idb)
    all_diff = [r for r, _ in diffs]
    rel, reason = diffs[0]
    if reason.startswith("missing"):
        w = {"where": "#missing", "row": None, "a": rel in sa, "b": rel in sb}
    else:
        r = forkpool.run_one(witness_job, (ja["keep"], jb["keep"], rel,
                                           va.get("subst") or artefacts.subst_for(va["ws"], ja["in_roots"]),
                                           vb.get("subst") or artefacts.subst_for(vb["ws"], jb["in_roots"])),
                             timeout=300, tag="wit")
        w = r.value if r.status == "ok" and r.value else {"where": "#undecodable", "row": None, "a": str(r.value)[:300], "b": r.status}
    sig = f"{artefacts.stem(rel)}:{w['where']}:{dim}"
    desc = (f"{pname}: {rel} differs between two runs of the same project with the same options ({detail}); first difference at "
            f"row {w.get('row')} column/key '{w['where']}': {w.get('a')!r} vs {w.get('b')!r}; {len(all_diff)} artefact file(s) differ: "
            f"{', '.join(all_diff[:8])}{' …' if len(all_diff) > 8 else ''}")
    w = dict(w, file=rel, differing_files=all_diff[:40])
    out.append((sig, desc, w))
    return out


def make_case(plan, projs_by_name, pair, witness):
    dim, pname, ida, idb, level, detail = pair
    ja, jb = job_by_id(plan, ida), job_by_id(plan, idb)
    p = projs_by_name[pname]
    others = {}
    for j in (ja, jb):
        for pre in j["pre"]:
            if pre.get("project"):
                o = projs_by_name[pre["project"]]
                others[o["name"]] = {k: o[k] for k in ("name", "lang", "files", "settings", "extra", "origin") if k in o}
                for k in ("single_file", "basename"):
                    if k in o:
                        others[o["name"]][k] = o[k]

    def lite(j):
        variant = plan.meta[j["id"]][2]
        return {"seed": j["hashseed"], "variant": variant, "kind": j["kind"], "order": j.get("order"),
                "pre": [{k: v for k, v in pre.items() if k in ("op", "project")} for pre in j["pre"]]}
    proj = {k: p[k] for k in ("name", "lang", "files", "settings", "extra", "origin") if k in p}
    for k in ("single_file", "basename"):
        if k in p:
            proj[k] = p[k]
    return {"dimension": dim, "level": level, "detail": detail, "project": proj, "other_projects": others,
            "a": lite(ja), "b": lite(jb), "witness": witness}


# ---------------------------------------------------------------------------------------------------

def replay(chk, case):
    """Re-run exactly the stored pair (project files, settings, options, seeds, history) and judge it again."""
    root = os.path.join(common.scratch(), "c14")
    os.makedirs(root, exist_ok=True)
    tmpfs_root = order_sensitive_dir() if case["dimension"] == "file-creation-order" else None
    if case["dimension"] == "file-creation-order" and not tmpfs_root:
        chk.note_inconclusive("no file system with creation-ordered directory listings available for this replay")
        return
    proj = case["project"]
    projs = [proj] + list(case["other_projects"].values())
    by = {p["name"]: p for p in projs}
    for p in projs:
        p["settings_dir"] = write_settings(os.path.join(root, "settings", _safe(p["name"])), p["settings"])
        p["in_root"] = os.path.join(root, "in", _safe(p["name"]))
        p["in_path"] = materialise(p, p["in_root"])
        p["same_ws"] = os.path.join(root, "same", _safe(p["name"]))
    plan = Plan(root, tmpfs_root, 600)
    ids = []
    for side in ("a", "b"):
        spec = case[side]
        v = spec["variant"]
        kw = dict(in_path=proj["in_path"], in_root=proj["in_root"], workspace=proj["same_ws"])
        if v in LOCATIONS:
            kw = location_kw(root, proj, v)
        elif v.startswith("order"):
            order = spec.get("order") or sorted(proj["files"])
            in_root = os.path.join(tmpfs_root, "in", v, _safe(proj["name"]))
            kw = dict(in_path=materialise(proj, in_root, order), in_root=in_root, workspace=os.path.join(tmpfs_root, "ws", _safe(proj["name"])), order=order)
        pre = []
        stale_dir = os.path.join(root, "stale", _safe(proj["name"]))
        for pr in spec["pre"]:
            if pr["op"] == "run":
                o = by[pr["project"]]
                d = {"op": "run", "lang": o["lang"], "in_paths": [o["in_path"]], "settings": o["settings_dir"], "extra": o["extra"], "project": o["name"]}
                if v == "hist-stale-elsewhere":
                    d["at"] = stale_dir
                pre.append(d)
            elif pr["op"] == "cwd_tmp":
                pre.append({"op": "cwd_tmp", "dir": stale_dir})
            else:
                pre.append({"op": pr["op"]})
        ids.append(plan.job(proj, spec["seed"], v if side == "a" or v != case["a"]["variant"] or spec["seed"] != case["a"]["seed"] else v + "-again",
                            kind=spec["kind"], pre=pre, **kw))
    pair = (case["dimension"], proj["name"], ids[0], ids[1], case["level"], case["detail"])
    results = run_workers(plan, root, 1500, chk, tree=snapshot_tree(root))
    stats = new_stats()
    res = judge_pair(chk, plan, results, pair, by, stats)
    chk.evaluated(2)
    chk.count("runs performed", len(results))
    chk.nontrivial_case("replay-a"); chk.nontrivial_case("replay-b")
    chk.sample({"replayed": case["detail"], "project": proj["name"], "dimension": case["dimension"]})
    if res is None:
        return
    for sig, desc, w in res:
        if case["dimension"] == "cli-vs-fork":
            chk.note_inconclusive("harness: " + desc)
        else:
            chk.fail(sig, desc, make_case(plan, by, pair, w))
    if not res:
        print("replay: the two runs produced identical artefacts this time")


def new_stats():
    return {"pairs": {}, "files_compared": {}, "byte_identical": {}, "decoded_compared": {}, "embedding_files": {},
            "differ_only_by_location": set()}


def main():
    chk = common.Check(PROP, rule=(
        "pairs of complete `lian run` executions of one project with identical options, each in its own process, differing in "
        "exactly one dimension (interpreter hash seed / repetition / process history / workspace location / creation order of "
        "the input files); every file under frontend/, semantic_p1/, semantic_p2/, semantic_p3/, taint/ and the dot "
        "directories is compared byte-wise (same absolute workspace path) or decoded with the location prefix substituted "
        "(different paths). distinct_nontrivial = distinct (project, dimension) pairs for which at least one pair of runs "
        "with >= 40 artefact files each was compared"))
    thorough = chk.tier == "thorough"
    if os.environ.get("VERIF_REPLAY"):
        with open(os.environ["VERIF_REPLAY"]) as f:
            case = json.load(f)["case"]
        replay(chk, case)
        sys.exit(chk.finish())
    rng = random.Random(chk.seed)
    root = os.path.join(common.scratch(), "c14")
    os.makedirs(root, exist_ok=True)
    tmpfs_root = order_sensitive_dir()
    digest_at_start = tree_digest()
    tree = snapshot_tree(root)
    if tree_digest() != digest_at_start:        # a commit landed while copying: take the copy again
        shutil.rmtree(tree)
        digest_at_start = tree_digest()
        tree = snapshot_tree(root)
    chk.extra["tree_under_test"] = {"repo": common.REPO, "sha256_of_src_at_start": digest_at_start}
    random_seed = int.from_bytes(os.urandom(4), "big") % 4294967296
    while random_seed in FIXED_SEEDS:
        random_seed += 7
    seeds = FIXED_SEEDS + [random_seed]
    projs = select_projects(chk.tier, rng)
    prepare_projects(projs, root)
    by = {p["name"]: p for p in projs}
    skipped, results, probe = {}, {}, None
    if thorough:
        probe = probe_plan(projs, seeds[0], root, tmpfs_root, 600)
        results.update(run_workers(probe, root, 1200, chk, children=14, tag="_probe", tree=tree))
        for p in projs:
            r = results.get(f"{p['name']}|s{seeds[0]}|loc-probe")
            if r is None or r["status"] != "ok":
                skipped[p["name"]] = "probe run: " + (r["status"] if r else "no result")
                if r is None or r["status"] in ("timeout", "lost", "signal"):
                    chk.note_inconclusive(f"probe run of {p['name']}: {r and r['status']}")
            elif r["value"]["outcome"] != "ok":
                skipped[p["name"]] = r["value"]["outcome"]
            elif r["value"]["run_s"] > 8.0 * max(1.0, (os.getloadavg()[0] / (os.cpu_count() or 16))):
                p["heavy"] = True
        chk.extra["heavy_projects(reduced plan)"] = [p["name"] for p in projs if p.get("heavy")]
    plan = build_plan([p for p in projs if p["name"] not in skipped], seeds, chk.tier, rng, root, tmpfs_root, 900 if thorough else 300, probe)
    n_jobs = sum(len(v) for v in plan.jobs.values()) + len(plan.done)
    results.update(run_workers(plan, root, 3300 if thorough else 900, chk, tree=tree))
    chk.evaluated(len(results))
    # all runs used the snapshot taken at start; a commit landing meanwhile is only recorded
    chk.extra["tree_under_test"]["changed_in_repo_while_running"] = tree_digest() != digest_at_start
    slow = sorted(((r["wall"], r.get("value", {}).get("run_s") if r["status"] == "ok" else None,
                    r.get("value", {}).get("lock_wait") if r["status"] == "ok" else None, jid) for jid, r in results.items()), reverse=True)
    chk.extra["slowest_jobs(wall,run_s,lock_wait,id)"] = slow[:12]
    chk.extra["total_lock_wait_s"] = round(sum(x[2] or 0 for x in slow), 1)
    chk.count("runs performed (each a complete `run` in its own process)", len(results))
    chk.extra["hash_seeds"] = seeds
    chk.extra["jobs_planned"] = n_jobs
    # baseline filter
    s0 = seeds[0]
    for p in projs:
        r = results.get(f"{p['name']}|s{s0}|base")
        if r is None:
            continue
        if r["status"] == "ok" and r["value"]["outcome"] != "ok":
            skipped[p["name"]] = r["value"]["outcome"]
        elif r["status"] == "ok" and len(r["value"]["snapshot"]) < 40:
            skipped[p["name"]] = f"only {len(r['value']['snapshot'])} artefact files"
    chk.count("projects analysed", len(projs) - len(skipped))
    chk.count("projects skipped because the baseline run itself fails", len(skipped))
    chk.extra["skipped_projects"] = skipped
    stats = new_stats()
    taint_nonempty = set()
    for pair in plan.pairs:
        dim, pname = pair[0], pair[1]
        if pname in skipped:
            continue
        res = judge_pair(chk, plan, results, pair, by, stats)
        if res is None:
            continue
        if dim == "cli-vs-fork":
            chk.count("true CLI runs compared with the forked run of the same job")
            for sig, desc, w in res:
                chk.note_inconclusive("harness: forked run and true CLI run disagree: " + desc)
            continue
        if dim == "history":
            # the history step must really have happened: another project's artefacts were there before the run
            pre = results[pair[3]]["value"].get("pre", [])
            ok_pre = bool(pre) and all((e[0] in ("run", "run-elsewhere") and e[1] == 0 and (e[2] or 0) >= 40) or
                                       (e[0] == "junk" and e[1] >= 45) or (e[0] == "cwd_tmp" and "lian_workspace" in e[1]) for e in pre)
            if not ok_pre:
                chk.note_inconclusive(f"history step of {pair[3]} did not leave the intended state: {pre}")
                continue
            chk.count("history steps confirmed (another project's output / junk was present before the run)", len(pre))
        chk.count(f"run pairs compared: {dim}")
        chk.nontrivial_case((pname, dim))
        snap = results[pair[2]]["value"]["snapshot"]
        if any(r.startswith("taint/") and e["size"] > 2 for r, e in snap.items()):
            taint_nonempty.add(pname)
        for sig, desc, w in res:
            chk.fail(sig, desc, make_case(plan, by, pair, w))
    for key, label in (("files_compared", "artefact file pairs compared"), ("byte_identical", "artefact file pairs byte-identical"),
                       ("decoded_compared", "artefact file pairs compared at decoded level")):
        chk.count(label, sum(v for d, v in stats[key].items() if d != "cli-vs-fork"))
    chk.count("projects whose taint/ report is non-empty", len(taint_nonempty))
    # workload probe: did the nested-object writers really make P3 merge callee-added fields into an object that already
    # had fields of its own (all names of a group inside ONE state's `fields` dict of s2space_p3)?
    merged, merged_projects = 0, {}
    for p in projs:
        r = results.get(f"{p['name']}|s{s0}|base")
        if p.get("probe_fields") and p["name"] not in skipped and r and r["status"] == "ok" and r["value"].get("probe_hits"):
            h = sum(1 for x in r["value"]["probe_hits"] if x)
            merged += h
            merged_projects[p["name"]] = f"{h}/{len(p['probe_fields'])}"
    chk.count("nested-object merges observed in s2space_p3 (callee-added fields beside the object's own fields, one state)", merged)
    chk.count("projects in which such a merge was observed", sum(1 for v in merged_projects.values() if not v.startswith("0/")))
    chk.extra["nested_merge_probe(hits/groups)"] = merged_projects
    chk.extra["per_dimension"] = {d: {"run_pairs": stats["pairs"].get(d, 0), "file_pairs": stats["files_compared"].get(d, 0),
                                      "byte_identical_file_pairs": stats["byte_identical"].get(d, 0)} for d in DIMS + ("cli-vs-fork",)}
    chk.extra["artefacts_embedding_a_location"] = {k: sorted(v) for k, v in sorted(stats["embedding_files"].items())}
    chk.extra["artefacts_that_differed_bytewise_only_by_location"] = sorted(stats["differ_only_by_location"])
    chk.extra["order_sensitive_fs"] = tmpfs_root and os.path.dirname(tmpfs_root)
    chk.extra["projects"] = [{"name": p["name"], "lang": p["lang"], "origin": p["origin"], "files": len(p["files"]), "options": p["extra"]} for p in projs]
    langs = {p["lang"] for p in projs if p["name"] not in skipped}
    chk.count("frontends covered", len(langs))
    for p in projs[:2] + projs[8:10]:
        first = sorted(p["files"])[0]
        chk.sample({"project": p["name"], "lang": p["lang"], "options": p["extra"], "files": sorted(p["files"])[:8],
                    "first_file_head": p["files"][first].get("text", "")[:300]})
    # floors
    chk.require("run pairs compared: hash-seed", 40 if not thorough else 300)
    chk.require("run pairs compared: repetition", 8 if not thorough else 600)
    chk.require("run pairs compared: workspace-path", 10 if not thorough else 120)
    chk.require("run pairs compared: history", 6 if not thorough else 100)
    if tmpfs_root:
        chk.require("run pairs compared: file-creation-order", 3 if not thorough else 25)
    else:
        chk.assumptions.append("no file system with creation-ordered directory listings was available: the file-creation-order dimension was not exercised")
    chk.require("true CLI runs compared with the forked run of the same job", 2 if not thorough else 8)
    chk.require("artefact file pairs compared", 5000 if not thorough else 80000)
    chk.require("projects whose taint/ report is non-empty", 4)
    chk.require("frontends covered", 7)
    chk.require("nested-object merges observed in s2space_p3 (callee-added fields beside the object's own fields, one state)", 6 if not thorough else 20)
    chk.require("projects in which such a merge was observed", 4 if not thorough else 10)
    chk.assumptions += [
        "the tree under test is copied verbatim (src/, default_settings/) when the check starts and every process of this invocation runs the copy, so that a commit landing in the repository meanwhile cannot make the two runs of a pair execute different code",
        "separate processes = one forked child per analysis from a per-hash-seed zygote (lian imported once, YAML memo); a few true CLI runs per tier check that the forked run leaves the same bytes as `python src/lian/main.py run …`",
        "the 'random' hash seed is drawn from os.urandom once per check run and passed as an explicit PYTHONHASHSEED value so that a failing pair can be replayed",
        "workspaces of different runs at the same absolute path are serialised with a lock and the previous workspace is moved away before the next run",
        "src/ and externs/ inside the workspace are copies of the input and of lian's own mock files, not analysis output, and are not compared; the harness confirms from the input directories themselves that both runs of a pair were given the same bytes",
    ]
    sys.exit(chk.finish())


if __name__ == "__main__":
    main()
