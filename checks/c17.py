"""C17 — event handlers run in registration order under the blocking rules.

(a) exhaustive: every registration table of up to 3 handlers over the full option set and up to 4 handlers over a
    reduced option set is built on the real EventManager (real constructor, default registrations disabled); after every
    registration the event is raised for both languages; an online monitor (lib/monitors/events.py) and an independent
    direct model judge the observed handler calls, the data each saw, the stop point and the combined flags.
(b) default table: the same online monitor runs inside real lian runs over all frontends."""
import itertools
import json
import os
import sys
import types

from lib import common, forkpool, lianrun
from lib.monitors import events as evmon

PROP = "C17"
L, OTHER = "javascript", "java"      # one language name is a proper substring of the other on purpose
S, STOP, REQ, INT = 1, 2, 4, 8
RETURNS_FULL = [0, S, S | STOP, STOP, S | REQ, S | INT, None]
RETURNS_SMALL = [0, S, S | STOP, S | REQ]


def lang_options(any_lang):
    return [("L", [L]), ("other", [OTHER]), ("any", [any_lang]), ("both", [L, OTHER]), ("strL", L), ("set", {OTHER, any_lang})]


def make_manager():
    import lian.events.event_manager as em

    class Bare(em.EventManager):
        def register_default_event_handlers(self):
            pass
    return Bare(types.SimpleNamespace(event_handlers=[], debug=False))


def direct_model(table, lang, any_lang, in0):
    """Expected (call sequence of indexes, flags, in_data objects seen) for one notify; handlers are described by
    (langs, ret, transform, out_obj)."""
    seq, seen, flags, cur = [], [], 0, in0
    out = in0                        # notify starts with out_data = in_data
    none_ambiguous = False
    for idx, (langs, ret, transform, out_obj, ident) in enumerate(table):
        ls = [langs] if isinstance(langs, str) else list(langs)
        if not (lang in ls or any_lang in ls):
            continue
        seq.append(ident)            # a callable registered twice runs once per registration, at each position
        seen.append(None if none_ambiguous else cur)
        if transform:
            out = out_obj
        if ret is not None:
            if ret != 0:
                flags |= S
            flags |= ret & (STOP | REQ | INT)
        if flags & STOP:
            break
        if ret is None:
            if out is not cur:
                none_ambiguous = True            # statement does not fix whether None hands data over
        elif ret != 0:
            cur = out                            # "the data as left by" a successful handler = out_data at its exit
            none_ambiguous = False
    return seq, flags, seen


def judge_config(cfg, event, decoy_event, stats, any_lang, fails, distinct):
    """Build the table cfg on a real EventManager, raising the event after every registration. Returns #notifies."""
    from lian.events.handler_template import EventData
    n_notify = 0
    mgr = make_manager()
    calls = []
    table = []

    def mk_handler(idx, ret, transform, out_obj):
        def handler(data):
            calls.append((idx, data.in_data))
            if transform:
                data.out_data = out_obj
            return ret
        handler.__name__ = f"h{idx}"
        return handler

    def decoy(data):
        calls.append(("decoy", data.in_data))
        return S | STOP
    mgr.register(decoy_event, decoy, [any_lang])
    mgr.register(987654, decoy, [any_lang])       # unknown event kind: must be ignored
    handlers = []
    for idx, (ln, lv, ret, tr) in enumerate(cfg):
        if ln.startswith("dup") and idx > 0:
            # the SAME callable as an earlier registration, registered again with an equal (but distinct) language list
            j = int(ln[3:]) % idx
            lv_j, ret_j, tr_j, out_j, ident_j = table[j]
            lv2 = lv_j if isinstance(lv_j, str) else type(lv_j)(lv_j)
            mgr.register(event, handlers[j], lv2)
            handlers.append(handlers[j])
            table.append((lv2, ret_j, tr_j, out_j, ident_j))
        else:
            if ln.startswith("dup"):
                lv, ret, tr = [L], S, False
            out_obj = types.SimpleNamespace(tag=idx)
            h = mk_handler(idx, ret, tr, out_obj)
            handlers.append(h)
            mgr.register(event, h, lv)
            table.append((lv, ret, tr, out_obj, idx))
        for lang in (L, OTHER):
            in0 = types.SimpleNamespace(tag="in")
            data = EventData(lang, event, in0)
            del calls[:]
            before = len(stats.failures)
            got = mgr.notify(data)
            n_notify += 1
            seq, flags, seen = direct_model(table, lang, any_lang, in0)
            problem = None
            if [c[0] for c in calls] != seq:
                problem = ("order/selection/stop", f"ran {[c[0] for c in calls]}, rule says {seq}")
            elif got != flags:
                problem = ("flags", f"notify returned {got}, union is {flags}")
            else:
                for (ci, cin), want in zip(calls, seen):
                    if want is not None and cin is not want:
                        problem = ("data-handover", f"handler {ci} saw the wrong in_data")
                        break
            if problem is None and len(stats.failures) > before:
                problem = ("online-monitor:" + stats.failures[before][0], stats.failures[before][1])
            if problem:
                if len(fails) < 40:
                    fails.append((problem[0], problem[1],
                                  {"handlers": [(ln2, r2, t2) for (ln2, lv2, r2, t2) in cfg[:idx + 1]],
                                   "event_lang": lang, "event": int(event), "decoy_event": int(decoy_event)}))
            distinct.add((tuple((ln2, r2, t2) for (ln2, _, r2, t2) in cfg[:idx + 1]), lang))
    # unknown event kind raised: nothing may run
    del calls[:]
    got = mgr.notify(EventData(L, 987654, types.SimpleNamespace()))
    n_notify += 1
    if calls or got != 0:
        fails.append(("unknown-event", f"unknown event ran {len(calls)} handlers, returned {got}", {"event": 987654}))
    return n_notify


def enum_job(job):
    part, nparts, k, mode, evkinds = job
    from lian.config import config
    any_lang = config.ANY_LANG
    stats = evmon.install()
    langs = lang_options(any_lang)
    rets = RETURNS_FULL if mode == "full" else RETURNS_SMALL
    if mode != "full":
        langs = langs[:3]
    opts = [(ln, lv, r, t) for (ln, lv) in langs for r in rets for t in (False, True)]
    opts += [("dup0", None, None, None), ("dup1", None, None, None)]
    fails, n_cfg, n_notify = [], 0, 0
    distinct = set()
    first_opts = opts[part::nparts]
    for first in first_opts:
        for rest in itertools.product(opts, repeat=k - 1):
            cfg = (first,) + rest
            n_cfg += 1
            event = evkinds[n_cfg % len(evkinds)]
            decoy_event = evkinds[(n_cfg + 1) % len(evkinds)]
            n_notify += judge_config(cfg, event, decoy_event, stats, any_lang, fails, distinct)
    return {"configs": n_cfg, "notifies": n_notify, "fails": fails, "distinct": len(distinct),
            "monitor_invocations": stats.invocations, "blocked": stats.blocked, "handovers": stats.handovers,
            "filtered": stats.filtered_out}


def replay_job(path):
    from lian.config import config
    any_lang = config.ANY_LANG
    with open(path) as f:
        case = json.load(f)["case"]
    stats = evmon.install()
    lo = dict(lang_options(any_lang))
    cfg = tuple((ln, lo.get(ln), r, t) for ln, r, t in case["handlers"])
    fails, distinct = [], set()
    n = judge_config(cfg, case["event"], case.get("decoy_event", case["event"] + 1), stats, any_lang, fails, distinct)
    return n, fails


# ------------------------------------------------------------------ default table inside real runs
CORPUS = {
    "python": ("a.py", "import os.path, sys\nclass A:\n    def __init__(self):\n        self.f = 1\n    def m(self, x):\n        return self.f + x\n\ndef g(y):\n    o = A()\n    o.f = y\n    return o.m(2)\n\nz = g(3)\n"),
    "javascript": ("a.js", "class A { constructor() { this.f = 1; } m(x) { return this.f + x; } }\nfunction g(y) { var o = new A(); o.f = y; return o.m(2); }\nlet z = g(3);\n"),
    "typescript": ("a.ts", "function g(y: number): number { let o = { f: 1 }; return o.f + y; }\nlet z: number = g(3);\n"),
    "java": ("A.java", "public class A { int f; A() { this.f = 1; } int m(int x) { return this.f + x; } static int g(int y) { A o = new A(); o.f = y; return o.m(2); } }\n"),
    "go": ("a.go", "package main\nfunc g(y int) int {\n\tx := y + 1\n\treturn x\n}\nfunc main() {\n\tg(3)\n}\n"),
    "c": ("a.c", "int g(int y) { int x = y + 1; return x; }\nint main() { return g(3); }\n"),
    "php": ("a.php", "<?php\nnamespace App;\n// comment\nclass A { public $f = 1; function m($x) { return $this->f + $x; } }\nfunction g($y) { $o = new A(); $o->f = $y; return $o->m(2); }\n$z = g(3);\n"),
}


def pipeline_job(lang):
    stats = evmon.install()
    sc = common.scratch()
    src = os.path.join(sc, f"c17src_{lang}")
    os.makedirs(src, exist_ok=True)
    name, text = CORPUS[lang]
    with open(os.path.join(src, name), "w") as f:
        f.write(text)
    st = lianrun.write_settings(os.path.join(sc, f"c17st_{lang}"), entry="- method_list: ['%unit_init']\n")
    ws = os.path.join(sc, f"c17ws_{lang}")
    err = None
    try:
        lianrun.run_lian(lianrun.lian_argv("semantic", lang, [src], ws, st, ["-q"]))
    except SystemExit as e:
        err = f"SystemExit({e.code})"
    except Exception as e:          # the pipeline's own crashes belong to C03/C13, not to this property
        err = f"{type(e).__name__}: {e}"
    return {"lang": lang, "notifies": stats.notifies, "invocations": stats.invocations,
            "events": {str(k): v for k, v in stats.events_seen.items()}, "registered": stats.registered,
            "filtered": stats.filtered_out, "blocked": stats.blocked, "handovers": stats.handovers,
            "failures": stats.failures[:20], "pipeline_error": err}


def main():
    lianrun.prepare_zygote(warm=False)
    chk = common.Check(PROP, rule=(
        "exhaustive enumeration of registration tables (<=3 handlers x {6 language sets} x {7 return values} x "
        "{transform, no transform}; 4 handlers over a reduced option set), event raised after every registration for both "
        "languages; distinct_nontrivial = distinct (table prefix, event language) pairs judged"))
    from lian.config.constants import EVENT_KIND
    mgr = make_manager()
    evkinds = sorted(mgr.event_handlers.keys())
    thorough = chk.tier == "thorough"
    jobs = []
    nparts = 16
    plans = [(3, "full"), (4, "small")] if not thorough else [(3, "full"), (4, "small"), (5, "small")]
    if os.environ.get("VERIF_REPLAY"):
        r = forkpool.run_one(replay_job, os.environ["VERIF_REPLAY"], timeout=300)
        if r.status != "ok":
            chk.note_inconclusive(f"replay {r.status}: {r.value}")
        else:
            chk.evaluated(r.value[0])
            chk.nontrivial_case("replay-a"); chk.nontrivial_case("replay-b")
            chk.sample({"replayed": os.environ["VERIF_REPLAY"]})
            for kind, desc, case in r.value[1]:
                chk.fail(kind, desc, case)
        sys.exit(chk.finish())
    for k, mode in plans:
        for p in range(nparts):
            jobs.append((p, nparts, k, mode, evkinds))
    for r in forkpool.run_jobs(enum_job, jobs, timeout=3000, tag="c17"):
        if r.status != "ok":
            chk.note_inconclusive(f"enumeration worker {r.status}: {r.value} {r.log_text(600)}")
            continue
        v = r.value
        chk.evaluated(v["notifies"])
        chk.count("enumerated tables built on the real EventManager", v["configs"])
        chk.count("notify calls judged (direct model + online monitor)", v["notifies"])
        chk.count("handler invocations matched against the rule by the online monitor", v["monitor_invocations"])
        chk.count("notifies that ended at a blocking handler", v["blocked"])
        chk.count("data hand-overs observed", v["handovers"])
        chk.count("registered handlers filtered out by language", v["filtered"])
        for i in range(v["distinct"]):
            chk.nontrivial_case((r.item[0], r.item[2], r.item[3], i))
        for kind, desc, case in v["fails"]:
            chk.fail(kind, desc, case)
    chk.exhaustive = True
    # default table
    for r in forkpool.run_jobs(pipeline_job, list(CORPUS), timeout=600, tag="c17p"):
        if r.status != "ok":
            chk.note_inconclusive(f"pipeline {r.item}: {r.status} {r.value} {r.log_text(600)}")
            continue
        v = r.value
        chk.count("default table: notifies judged inside real runs", v["notifies"])
        chk.count("default table: handler invocations matched", v["invocations"])
        chk.extra.setdefault("default_table_runs", []).append(
            {k: v[k] for k in ("lang", "notifies", "invocations", "events", "registered", "filtered", "pipeline_error")})
        for kind, desc in v["failures"]:
            chk.fail("default-table:" + kind, desc, {"lang": v["lang"], "program": CORPUS[v["lang"]][1]})
    chk.require("default table: notifies judged inside real runs", 50)
    chk.require("notifies that ended at a blocking handler", 100)
    chk.require("data hand-overs observed", 100)
    chk.sample({"handlers": [["any", "['%']", 1, True], ["L", "['python']", 3, False], ["both", "['python','java']", 1, False]],
                "event_lang": "python", "expected_calls": [0, 1], "expected_flags": 3,
                "meaning": "handler = (language set, return flags, replaces out_data?)"})
    chk.assumptions += [
        "a handler that returns a non-zero flag word counts as having processed the event (SUCCESS bit is added), as event_return.py defines",
        "for handlers returning None only order, stop point and flags are asserted",
    ]
    sys.exit(chk.finish())


if __name__ == "__main__":
    main()
