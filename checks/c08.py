"""C08 — abstract values cover every value a variable actually takes; literal text is only ever treated as data.

Cover: generated programs (lib/gen_values) are executed by CPython under a tracing shim that logs, per executed
assignment line, the value of the assigned variable (constants by value, objects by allocation line with their field /
element maps).  lian's abstract value of that definition is read from the persisted P3 tables (lib/monitors/absvalue:
Symbol row of the statement's defined symbol -> State rows -> reaching copies, recursively) and must contain the value,
an object state of the same allocation site whose members cover, or an explicit unknown state (ANYTHING / UNSOLVED).

Literal-as-data: (i) every text handed to util.strict_eval (core fold and frontend common_eval) is parsed and compared
with the operand *data* of the fold (wrapper on compute_two_states) and the result with what CPython computes on that
data; (ii) metamorphic: replacing one hostile literal by a benign one of the same length must leave the abstract values
of all definitions whose concrete values are unaffected, the sequence of analysed frames and the per-statement count of
compute_stmt_states calls unchanged; (iii) a cost model applied when an evaluation is entered (exec audit event)."""
import ast
import json
import os
import random
import sys
import zlib

from lib import common, forkpool, lianrun
from lib import gen_values as gv
from lib.monitors import absvalue as av
from lib.monitors import worklist_comp

PROP = "C08"
BATCH = 8
# share of constant-valued definitions that must be covered by value (not merely by an unknown state); calibrated on the
# healthy tree (measured 0.998-0.999 on quick seeds 0-4 and thorough seed 0: 99749 of 99824): half of it
NONVACUOUS_FLOOR = 0.5


# ---------------------------------------------------------------------------------------------------------------------
# normalisation of abstract values (indexes / state ids / statement ids -> source rows)

def norm(a, T):
    k = a["kind"]
    if k == "const":
        return ("c", a["data_type"], a["value"])
    if k in ("object", "unknown"):
        row = T.stmt.get(a["alloc_stmt"], {}).get("start_row")
        fields = tuple(sorted((f, tuple(sorted((norm(x, T) for x in v), key=repr))) for f, v in (a.get("fields") or {}).items()))
        arr = tuple(tuple(sorted((norm(x, T) for x in c), key=repr)) for c in (a.get("array") or []))
        el = tuple(sorted((norm(x, T) for x in (a.get("elements") or [])), key=repr))
        return ("o" if k == "object" else "u", a["state_type"], a["data_type"], None if row is None else int(row), fields, arr, el)
    if k == "decl":
        return ("d", a["data_type"])
    return (k, a.get("state_type"), a.get("data_type"), a.get("value"))


def value_kind(val):
    if val[0] == "c":
        return {"int": "int-constant", "str": "str-constant", "bool": "bool-constant", "none": "none-constant",
                "float": "float-constant"}[val[1]]
    return "object"


def cover(val, avs, T, path="value", depth=0, accessor=None):
    """Returns (how, why): how in 'value' | 'site' | 'unknown' | None; why = (value kind of the failing part, text)."""
    unknown = any(a["kind"] == "unknown" for a in avs)

    def kind_here(v):
        if depth == 0:
            return value_kind(v)
        if depth == 1:
            return "object-field" if accessor == "field" else "object-element"
        return "member-of-member"

    if val[0] == "c":
        for a in avs:
            if a["kind"] == "const" and av.const_matches(a, val[2]):
                return "value", None
        if unknown:
            return "unknown", None
        return None, (kind_here(val), f"{path} = {val[2]!r}; abstract values: {[brief(a) for a in avs][:6]}")
    _, line, kind, fields, elems = val
    site_seen = False
    why = None
    for a in avs:
        if a["kind"] != "object":
            continue
        row = T.stmt.get(a["alloc_stmt"], {}).get("start_row")
        if row is None or int(row) != line - 1:
            continue
        site_seen = True
        if fields is None:
            return "value", None
        ok = True
        weak = False
        for f, fv in fields.items():
            if f not in (a.get("fields") or {}):
                # lian's member maps are partial: a member that is absent is materialised as an ANYTHING state by the first
                # read (change_field_read_receiver_state), i.e. absent = implicitly unknown
                weak = True
                continue
            cands = list((a.get("fields") or {}).get(f, []))
            how, w = cover(fv, cands, T, f"{path}.{f}", depth + 1, "field")
            if how is None:
                ok = False
                why = w
                break
            weak = weak or how in ("unknown", "site")
        if ok:
            for i, ev in enumerate(elems or []):
                cands = list(a.get("elements") or [])
                arr = a.get("array") or []
                if i < len(arr):
                    cands += arr[i]
                cands += (a.get("fields") or {}).get(str(i), [])
                if not cands:
                    weak = True        # no element recorded at all: same partial-map convention
                    continue
                how, w = cover(ev, cands, T, f"{path}[{i}]", depth + 1, "element")
                if how is None:
                    ok = False
                    why = w
                    break
                weak = weak or how in ("unknown", "site")
        if ok:
            return ("value" if not weak else "site"), None
    if unknown:
        return "unknown", None
    if not site_seen:
        why = (kind_here(val) if depth else "object",
               f"{path}: object allocated at line {line} ({kind}); abstract values: {[brief(a) for a in avs][:6]}")
    return None, why


def brief(a):
    k = a["kind"]
    if k == "const":
        return f"{a['data_type']}:{a['value']!r}"
    if k == "unknown":
        return "?" + av.STATE_TYPE_NAMES.get(a["state_type"], "?")
    if k == "object":
        return f"obj@stmt{a['alloc_stmt']}<{a['data_type']}>{{{','.join(sorted(a.get('fields') or {}))}}}"
    return f"{k}:{a.get('data_type')}:{a.get('value')}"


def show(val):
    if val[0] == "c":
        return repr(val[2])
    return f"<{val[2]} allocated at line {val[1]}>"


# ---------------------------------------------------------------------------------------------------------------------
# child: one lian run over a batch of programs + judgement

def analyse_batch(job):
    sc = common.scratch()
    tag = job["tag"]
    progs = [gv.Program.from_case(c) for c in job["programs"]]
    src_dir = os.path.join(sc, f"c08src_{tag}")
    os.makedirs(src_dir, exist_ok=True)
    texts = {}
    for p in progs:
        text = p.variant_text(job["variant"]) if job.get("variant") and p.slot is not None else p.text
        texts[p.uid] = text
        with open(os.path.join(src_dir, f"{p.uid}.py"), "w") as f:
            f.write(text)
    for x in job.get("explosive", []):
        with open(os.path.join(src_dir, f"{x['uid']}.py"), "w") as f:
            f.write(x["text"])
    side = os.path.join(job["side_dir"], f"{tag}.side") if job.get("side_dir") else None
    if job.get("explosive"):
        av.limit_child(4 << 30)
    mon = av.Monitors(side_file=side).install()
    compensated = None
    if job.get("compensate") == "worklist-order":
        compensated = worklist_comp.install()
    elif job.get("compensate") == "unknown-result-tag":
        compensated = av.install_unknown_result_switch()
    entries = [p.entry for p in progs] + [x["entry"] for x in job.get("explosive", [])]
    st = lianrun.write_settings(os.path.join(sc, f"c08st_{tag}"), entry=[{"method_list": entries}])
    ws = os.path.join(sc, f"c08ws_{tag}")
    lianrun.run_lian(lianrun.lian_argv("semantic", "python", [src_dir], ws, st, ["-q"]))
    T = av.Tables(lianrun.ws_dir(ws), live_saves=mon.status_saves)
    ms = mon.summary()
    res = {"tag": tag, "variant": int(job.get("variant") or 0), "programs": {}, "constants_ok": av.check_constants(),
           "space_rows": T.space_rows, "status_rows": T.status_rows, "evals": len(ms["evals"]), "execs": ms["execs"],
           "folds": len(ms["two_states"]), "stmt_state_calls": ms["stmt_state_calls"], "frames": len(ms["frames"]),
           "big": ms["big"], "wrapped": ms["wrapped"], "other_compiles": summarise_compiles(ms["compiles"]),
           "live_frames": T.live_frames, "live_overwritten": T.live_overwritten, "live_ok": T.live_crosscheck_ok,
           "live_bad": T.live_crosscheck_bad[:3], "compensate": job.get("compensate") or "", "switch_installed": compensated}
    fold_by_stmt = {}
    for f in ms["two_states"]:
        fold_by_stmt.setdefault(f["stmt_id"], []).append(f)
    for p in progs:
        res["programs"][p.uid] = judge_program(p, texts[p.uid], T, ms, fold_by_stmt, job)
    for x in job.get("explosive", []):
        res["programs"][x["uid"]] = judge_explosive(x, T, ms)
    # frontend evaluations: every evaluated text must be a single literal of the program
    res["frontend"] = judge_frontend(ms, texts, job)
    return res


def summarise_compiles(compiles):
    out = {}
    for site, text in compiles:
        out[site] = out.get(site, 0) + 1
    return out


def judge_frontend(ms, texts, job):
    fails = []
    n = 0
    lits = set()
    for t in list(texts.values()) + [x["text"] for x in job.get("explosive", [])]:
        try:
            for node in ast.walk(ast.parse(t)):
                if isinstance(node, ast.Constant):
                    lits.add((type(node.value).__name__, node.value))
        except SyntaxError:
            pass
    for e in ms["evals"]:
        if not e.get("frontend"):
            continue
        n += 1
        text = e["text"]
        try:
            tree = ast.parse(text, mode="eval").body
        except SyntaxError:
            fails.append(("literal-as-code:frontend:unparsable-text", f"the frontend evaluated {text[:80]!r}, which is not an expression", {"text": text[:200]}))
            continue
        bad = [type(nd).__name__ for nd in ast.walk(tree)
               if not isinstance(nd, (ast.Constant, ast.BinOp, ast.UnaryOp, ast.operator, ast.unaryop, ast.Compare, ast.cmpop, ast.Load))]
        consts = [nd for nd in ast.walk(tree) if isinstance(nd, ast.Constant)]
        foreign = [c.value for c in consts if (type(c.value).__name__, c.value) not in lits]
        if bad or foreign:
            cls = av.char_class(text)
            fails.append((f"literal-as-code:{cls}:frontend",
                          f"the frontend evaluated {text[:80]!r}: nodes {bad[:3]} / constants {foreign[:3]} do not stem from single literals of the program",
                          {"text": text[:200]}))
    return {"evals": n, "fails": fails[:5]}


def unit_and_space(p_uid, entry, T):
    unit = T.unit_by_file.get(f"{p_uid}.py")
    if unit is None:
        return None, None, None
    eid = T.method_id(unit, entry)
    if eid is None:
        return unit, None, None
    return unit, eid, T.space_for_entry(eid, unit)


def judge_explosive(x, T, ms):
    unit, eid, sp = unit_and_space(x["uid"], x["entry"], T)
    out = {"explosive": x["name"], "analysed": sp is not None, "fails": [], "y_covered": False}
    if sp is None:
        return out
    for sid in T.stmts_at_row(unit, x["text"].rstrip("\n").split("\n").index("    y = 5")):
        for ctx in sp.contexts_of_stmt(sid):
            d = sp.defined(ctx, sid)
            if d and d[0] == "y" and any(a["kind"] == "const" and av.const_matches(a, 5) for a in d[1]):
                out["y_covered"] = True
    return out


def judge_program(p, text, T, ms, fold_by_stmt, job):
    out = {"uid": p.uid, "fails": [], "defs": 0, "by_value": 0, "by_unknown": 0, "const_defs": 0, "const_by_value": 0,
           "objects_by_site": 0, "by_site_partial": 0, "opaque": {}, "kinds": {}, "dropped": None, "digest": {}, "concrete": {}, "frames": [], "work": {},
           "fold_checked": 0, "fold_fails": [], "sample": None}
    unit, eid, sp = unit_and_space(p.uid, p.entry, T)
    rng = random.Random(zlib.crc32(p.uid.encode()))
    # concrete runs (of the text that was analysed)
    q = gv.Program.from_case(dict(p.to_case(), text=text))
    runs = []
    for vec in gv.sample_vectors(p.n_dec, rng, k=4):
        r = gv.run_traced(q, vec)
        if r["status"] != "ok":
            out["dropped"] = f"{r['status']}: {r.get('error')}"
            return out
        runs.append((vec, r))
    if sp is None:
        out["fails"].append(("entry-not-analysed", f"no P3 tables for entry {p.entry}", {}))
        return out
    # statements per source row
    stmts_by_row = {}
    for s, r in T.stmt.items():
        if T.unit_of_stmt.get(s) == unit and r.get("start_row") is not None:
            stmts_by_row.setdefault(int(r["start_row"]), []).append(s)
    seen = set()
    reported = set()
    for vec, r in runs:
        for line, var, val, depth in r["defs"]:
            key = (line, var, repr(val), min(depth, 3))
            if key in seen:
                continue
            seen.add(key)
            m = p.meta.get(line, {})
            construct = m.get("construct") or ("parameter" if m.get("kind") == "method" else "?")
            if depth >= 3:
                # a callee of a callee: its frame is keyed by (caller, call statement, callee) only and the analysis budget
                # of that call site is shared by all outer call sites
                construct += "-in-nested-callee"
            lname = "%this" if var == "self" else var
            avs = []
            found = False
            for s in stmts_by_row.get(line - 1, []):
                if T.stmt[s].get("operation") == "variable_decl":
                    # the hoisted declaration carries the source row of the variable's first assignment; its initial
                    # UNSOLVED state is not a value of that assignment (it would make every first definition vacuous)
                    continue
                for ctx in sp.contexts_of_stmt(s):
                    d = sp.defined(ctx, s)
                    if d is None or d[0] != lname:
                        continue
                    found = True
                    avs.extend(d[1])
            out["defs"] += 1
            out["concrete"].setdefault(f"{line}:{var}", set()).add(repr(val))
            if found:
                out["digest"].setdefault(f"{line}:{var}", set()).update(repr(norm(a, T)) for a in avs)
            how, why = cover(val, avs, T, var) if found else (None, (value_kind(val), f"{var}: no analysed statement at line {line} defines it"))
            vk = value_kind(val)
            if m.get("opaque"):
                # definitions of the 'partly unknown operand' family: on some paths only the explicit unknown state can cover
                # the value, so they are kept out of the covered-by-value share and counted on their own
                out["opaque"][f"{construct}:{how}"] = out["opaque"].get(f"{construct}:{how}", 0) + 1
            elif vk.endswith("-constant"):
                out["const_defs"] += 1
            if how == "site":
                out["by_site_partial"] += 1
                how = "value"
            if how == "value":
                out["by_value"] += 1
                if m.get("opaque"):
                    pass
                elif vk.endswith("-constant"):
                    out["const_by_value"] += 1
                else:
                    out["objects_by_site"] += 1
                out["kinds"][f"{vk}:{construct}"] = out["kinds"].get(f"{vk}:{construct}", 0) + 1
                if out["sample"] is None and vk == "object":
                    out["sample"] = {"line": p.lines[line - 1].strip(), "variable": var, "concrete": show(val),
                                     "abstract": [brief(a) for a in avs][:4]}
            elif how == "unknown":
                out["by_unknown"] += 1
            else:
                kind, desc = why
                c2 = construct
                if construct.startswith("binary-fold"):
                    c2 = refine_fold(construct, m, val, stmts_by_row.get(line - 1, []), fold_by_stmt, found)
                sig = f"cover:{kind}:{c2}" if found else f"cover:{kind}:{c2}:statement-not-analysed"
                if sig not in reported or job.get("compensate"):
                    reported.add(sig)
                    out["fails"].append((sig, f"line {line} `{p.lines[line - 1].strip()}` with d={list(vec)}: {desc}",
                                         {"line": line, "var": var, "vector": list(vec)}))
    # monitor (i): folds of this program
    my_stmts = {s for s in T.stmt if T.unit_of_stmt.get(s) == unit}
    fsigs = set()
    for s in sorted(my_stmts & set(fold_by_stmt)):
        for f in fold_by_stmt[s]:
            out["fold_checked"] += 1
            for sig, desc in judge_fold(f, ms["evals"]):
                if sig not in fsigs:
                    fsigs.add(sig)
                    row = T.stmt[s].get("start_row")
                    out["fold_fails"].append((sig, f"line {int(row) + 1 if row is not None else '?'} `{p.lines[int(row)].strip() if row is not None else ''}`: {desc}",
                                              {"line": int(row) + 1 if row is not None else None}))
    # monitor (ii) raw material
    method_rows = {s: int(r["start_row"]) for s, r in T.stmt.items() if s in my_stmts and r.get("operation") == "method_decl" and r.get("start_row") is not None}
    for mid, caller, call_stmt in ms["frames"]:
        if mid in method_rows:
            cr = T.stmt.get(call_stmt, {}).get("start_row")
            out["frames"].append((method_rows[mid], None if cr is None else int(cr)))
    for s, n in ms["stmt_state_calls_by_stmt"].items():
        if s in my_stmts:
            row = T.stmt[s].get("start_row")
            k = f"{int(row) if row is not None else -1}:{T.stmt[s].get('operation')}"
            out["work"][k] = out["work"].get(k, 0) + n
    out["digest"] = {k: sorted(v) for k, v in out["digest"].items()}
    out["concrete"] = {k: sorted(v) for k, v in out["concrete"].items()}
    return out


def refine_fold(construct, m, val, stmts, fold_by_stmt, found):
    op = m.get("operator", "?")
    c = f"{construct}({op})"
    if val[0] == "c" and not val[2] and val[1] in ("int", "str", "bool"):
        return f"{construct}-falsy-result"
    classes = set()
    for s in stmts:
        for f in fold_by_stmt.get(s, []):
            for v, t in ((f["v1"], f["t1"]), (f["v2"], f["t2"])):
                if t == "%string":
                    classes.add(av.char_class(v))
    hostile = sorted(x for x in classes if not x.startswith("plain") and x != "identifier-like-string")
    if val[1] == "str":
        return c + ":" + (hostile[0] if hostile else "plain-string")
    return c


def judge_fold(f, evals):
    """Monitor (i) on one compute_two_states call: the evaluated text against the operand data, the result against CPython."""
    out = []
    op = f["operator"]
    strs = [(v, t) for v, t in ((f["v1"], f["t1"]), (f["v2"], f["t2"])) if t == "%string"]
    cls_all = [av.char_class(v) for v, _ in strs]
    hostile = [c for c in cls_all if not c.startswith("plain") and c != "identifier-like-string"]
    cls = hostile[0] if hostile else (cls_all[0] if cls_all else "no-string-operand")
    exp = av.expected_fold(f)
    try:
        data = []
        for v, t in ((f["v1"], f["t1"]), (f["v2"], f["t2"])):
            if t == "%string":
                data.append(av.decode_raw(str(v)))
            elif t == "%int":
                data.append(v if isinstance(v, int) else int(str(v), 0))
            elif t == "%float":
                data.append(float(v))
            elif t == "%bool":
                data.append(str(v) in ("True", "true"))
            else:
                data = None
                break
    except Exception:
        data = None
    flagged = False
    for i in f["evals"]:
        e = evals[i]
        text = e["text"]
        if e.get("exception") == "SystemExit":
            out.append((f"literal-as-code:{cls}:{op}", f"strict_eval aborted the whole analysis on the text {text[:80]!r} built from operands {f['v1']!r}, {f['v2']!r}"))
            flagged = True
            continue
        try:
            tree = ast.parse(text, mode="eval").body
        except SyntaxError:
            out.append((f"literal-as-code:{cls}:{op}", f"the text handed to eval, {text[:80]!r}, is not an expression: literal content {f['v1']!r} / {f['v2']!r} broke out of its quotes"))
            flagged = True
            continue
        want_op = av.OP_NAMES.get(op)
        shape_ok = False
        consts = None
        if isinstance(tree, ast.BinOp) and type(tree.op).__name__ == want_op:
            consts = [side_const(tree.left), side_const(tree.right)]
        elif isinstance(tree, ast.Compare) and len(tree.ops) == 1 and type(tree.ops[0]).__name__ == want_op:
            consts = [side_const(tree.left), side_const(tree.comparators[0])]
        elif isinstance(tree, ast.BoolOp) and type(tree.op).__name__ == want_op and len(tree.values) == 2:
            consts = [side_const(tree.values[0]), side_const(tree.values[1])]
        if consts is not None and all(c is not None for c in consts):
            shape_ok = True
        if not shape_ok:
            extra = sorted({type(nd).__name__ for nd in ast.walk(tree)} - {"Constant", "Load", want_op or ""})
            out.append((f"literal-as-code:{cls}:{op}", f"the evaluated text {text[:80]!r} is not <literal> {op} <literal>: it contains {extra[:4]} that stem from the content of {f['v1']!r} / {f['v2']!r}"))
            flagged = True
            continue
        if data is not None:
            got = [c[0] for c in consts]
            for (g, d, (v, t)) in zip(got, data, ((f["v1"], f["t1"]), (f["v2"], f["t2"]))):
                if type(g) is not type(d):
                    if t == "%string" and isinstance(g, (int, float)):
                        out.append((f"{av.char_class(v)}:{op}:{'added' if op == '+' else 'evaluated'}-as-{type(g).__name__}",
                                    f"string operand {v!r} was put into the evaluated text {text[:60]!r} as the number {g!r}"))
                    else:
                        out.append((f"operand-type-changed:{t}-as-{type(g).__name__}:{op}",
                                    f"operand {v!r} of type {t} appears in the evaluated text {text[:60]!r} as {type(g).__name__} {g!r}"))
                    flagged = True
                elif g != d:
                    out.append((f"literal-as-code:{av.char_class(v) if t == '%string' else 'number'}:{op}",
                                f"operand {v!r} denotes {d!r} but the evaluated text {text[:60]!r} makes it {g!r}"))
                    flagged = True
    # result against CPython on the operand data
    if exp is not None and exp[0] and f["result"] is not None and not flagged:
        want = exp[1]
        res = f["result"]
        if res:
            r0 = res[0]
            got = r0["value"]
            okv = False
            if isinstance(want, bool):
                okv = str(got) == str(want)
            elif isinstance(want, int):
                okv = str(got) == str(want) and r0["data_type"] in ("%int", "%bool")
            elif isinstance(want, float):
                try:
                    okv = float(got) == want
                except Exception:
                    okv = False
            elif isinstance(want, str):
                okv = r0["data_type"] == "%string" and (str(got) == want or av.decode_raw(str(got)) == want)
            if not okv:
                out.append((f"fold-result-differs:{cls}:{op}",
                            f"{f['v1']!r} {op} {f['v2']!r} is {want!r} in CPython but the folded state holds {got!r} ({r0['data_type']})"))
    return out


def side_const(node):
    if isinstance(node, ast.Constant):
        return (node.value,)
    if isinstance(node, ast.UnaryOp) and isinstance(node.op, ast.USub) and isinstance(node.operand, ast.Constant) \
            and isinstance(node.operand.value, (int, float)):
        return (-node.operand.value,)
    return None


# ---------------------------------------------------------------------------------------------------------------------
# parent

def make_jobs(chk, n_programs, side_dir, meta_every=1):
    rng = random.Random(chk.seed)
    base = rng.randrange(1 << 30)
    progs = []
    for i in range(n_programs):
        p = gv.generate(base + i, f"s{chk.seed}n{i}", "c08")
        progs.append(p)
    jobs = []
    for k in range(0, len(progs), BATCH):
        chunk = progs[k:k + BATCH]
        jobs.append({"tag": f"b{k // BATCH}", "programs": [p.to_case() for p in chunk], "side_dir": side_dir})
        if any(p.slot is not None for p in chunk) and ((k // BATCH) % meta_every == 0 if meta_every > 0 else (k // BATCH) % 3 != 2):
            # same composition as the base batch (the order in which P2 visits methods depends on the whole project);
            # two benign variants: what differs between them depends on the literal as data
            jobs.append({"tag": f"v{k // BATCH}", "programs": [p.to_case() for p in chunk], "variant": 1, "side_dir": side_dir})
            jobs.append({"tag": f"w{k // BATCH}", "programs": [p.to_case() for p in chunk], "variant": 2, "side_dir": side_dir})
    for x in gv.explosive_programs(f"s{chk.seed}"):
        jobs.append({"tag": f"x{x['uid']}", "programs": [], "explosive": [x], "side_dir": side_dir})
    return progs, jobs


def read_side(job):
    p = os.path.join(job["side_dir"], f"{job['tag']}.side")
    out = []
    try:
        with open(p) as f:
            for line in f:
                try:
                    out.append(json.loads(line))
                except ValueError:
                    pass
    except OSError:
        pass
    return out


def main():
    lianrun.prepare_zygote(warm=False)
    chk = common.Check(PROP, rule=(
        "generated Python programs over int/str constants (hostile string contents included), constant arithmetic and "
        "concatenation, allocation, field/element reads and writes, aliasing by copy and by parameter, helper calls, branches "
        "on an opaque decision vector and loops run 0 or 1 times; distinct_nontrivial = distinct (value kind, defining "
        "construct) classes of executed definitions that lian covers by value or by allocation site (not by an unknown "
        "state), plus distinct (character class, operator) classes of folds whose evaluated text was checked"))
    thorough = chk.tier == "thorough"
    rp = os.environ.get("VERIF_REPLAY")
    side_dir = os.path.join(common.scratch(), "side")
    os.makedirs(side_dir, exist_ok=True)
    if rp:
        with open(rp) as f:
            case = json.load(f)["case"]
        jobs = replay_jobs(case, side_dir)
        progs = []
    else:
        progs, jobs = make_jobs(chk, 5000 if thorough else 200, side_dir, meta_every=3 if thorough else -1)    # quick: two batches of every three get the two benign variants
    results = {}
    variants = {}
    variants2 = {}
    compensated_results = {}
    pending = list(jobs)
    wave = 0
    phase = 0
    while pending and wave < 2:
        retry = []
        normal = [j for j in pending if not j.get("explosive")]
        explosive = [j for j in pending if j.get("explosive")]
        import itertools
        for r in itertools.chain(forkpool.run_jobs(analyse_batch, explosive, timeout=120, tag=f"c08x{wave}"),
                                 forkpool.run_jobs(analyse_batch, normal, timeout=300, tag=f"c08w{wave}")):
            job = r.item
            side = read_side(job)
            bigs = [e for e in side if e.get("event") in ("big-fold-entered", "big-fold-produced")]
            attempted = [e for e in side if e.get("event") == "big-fold-attempted"]
            chk.count("folds whose operands predict a result above 10^6 bits (handed to compute_two_states)", len(attempted))
            for e in bigs:
                chk.count("folds entered / produced with a result above 10^6 bits")
                what = "eval was entered on" if e["event"] == "big-fold-entered" else "a folded state was produced for"
                chk.fail(f"unbounded-fold:{e.get('operator')}",
                         f"{what} {e.get('text')!r}: predicted result size {e.get('bits'):.3g} bits",
                         dict(job_case(job), witness=e.get("text")))
            if r.status != "ok" and job.get("explosive") and not bigs:
                # the property is about running time here: a child that dies or does not come back on an explosive literal
                last = attempted[-1] if attempted else {}
                x = job["explosive"][0]
                chk.fail(f"unbounded-fold:{last.get('operator') or x['name']}",
                         f"the analysis of `{x['text'].splitlines()[1].strip()}` ended with {r.status} ({str(r.value)[:120]}) "
                         f"after a fold predicted at {last.get('bits', 0):.3g} bits was handed to compute_two_states ({last.get('text')})",
                         dict(job_case(job), witness=last.get("text") or x["text"]))
                continue
            if r.status != "ok":
                quits = [e for e in side if e.get("event") == "eval-quit"]
                n_items = len(job["programs"]) + len(job.get("explosive", []))
                if bigs and r.status in ("lost", "timeout", "signal", "exception"):
                    continue                      # already reported with the evaluated text as witness
                if n_items > 1 and wave == 0:
                    for c in job["programs"]:
                        retry.append(dict(job, tag=f"{job['tag']}_{c['uid']}", programs=[c], explosive=[]))
                    continue
                if quits:
                    text = quits[0].get("text", "")
                    chk.fail(f"literal-as-code:{av.char_class(strip_outer(text))}:analysis-aborted",
                             f"util.strict_eval called error_and_quit on the text {text[:100]!r} built from program literals; the whole analysis ended",
                             job_case(job))
                elif r.status == "timeout":
                    chk.note_inconclusive(f"batch {job['tag']}: watchdog")
                else:
                    val = r.value
                    what = val[0] if r.status == "exception" else f"{r.status}:{val}"
                    where = ""
                    if r.status == "exception":
                        tb = [l for l in val[2].splitlines() if "/lian/" in l]
                        where = tb[-1].strip().split(",")[0].split("/")[-1].rstrip('"') + ":" + tb[-1].strip().split(" in ")[-1] if tb else ""
                    chk.fail(f"analysis-died:{what}:{where}", f"semantic run ended with {r.status}: {str(val)[:300]} | {r.log_text(400)}", job_case(job))
                continue
            v = r.value
            if not v["constants_ok"]:
                chk.note_inconclusive("lian's STATE_TYPE_KIND / LIAN_INTERNAL constants differ from the reader's")
            chk.count("lian semantic runs (batches)")
            chk.count("strict_eval calls recorded", v["evals"])
            chk.count("evaluations entered (exec audit events)", v["execs"])
            chk.count("compute_two_states calls recorded", v["folds"])
            chk.count("compute_stmt_states calls recorded", v["stmt_state_calls"])
            chk.count("frames recorded", v["frames"])
            chk.count("s2space_p3 rows read", v["space_rows"])
            chk.count("stmt_status_p3 rows read", v["status_rows"])
            chk.count("frontend evaluations checked", v["frontend"]["evals"])
            chk.count("P3 frames whose statuses were recorded live", v["live_frames"])
            chk.count("P3 frames overwritten in stmt_status_p3 by a later frame of the same call site (recovered from the live record)", v["live_overwritten"])
            chk.count("contexts whose persisted stmt_status_p3 rows equal the last live save", v["live_ok"])
            for ctx, why in v["live_bad"]:
                chk.note_inconclusive(f"stmt_status_p3 of context {ctx}: {why} (batch {v['tag']})")
            for site, n in v["other_compiles"].items():
                chk.count(f"compile events outside strict_eval at {site}", n)
            for sig, desc, det in v["frontend"]["fails"]:
                chk.fail(sig, desc, dict(job_case(job), detail=det))
            for uid, pr in v["programs"].items():
                if v.get("compensate"):
                    compensated_results[(v["compensate"], uid)] = pr
                else:
                    {0: results, 1: variants, 2: variants2}[v["variant"]][uid] = pr
        pending = retry
        wave += 1
        if not pending and phase == 0:
            # compensation phase (DESIGN 3.7): a program with a loop whose cover fails is analysed again, alone, with the
            # scheduling of proposed/C08-worklist-order.diff switched on inside the child; a failing definition that is covered
            # then is attributed to the bounded-visits mechanism, anything that still fails keeps its own signature
            phase = 1
            wave = 1
            all_cases = {c["uid"]: c for j in jobs for c in j["programs"]}
            for uid, pr in sorted(results.items()):
                c = all_cases.get(uid)
                if c is None or not pr.get("fails") or pr.get("dropped"):
                    continue
                if not any(f[0].startswith("cover:") for f in pr["fails"]):
                    continue
                if any(m.get("kind") == "loop" for m in c["meta"].values()):
                    pending.append({"tag": f"compw_{uid}", "programs": [c], "side_dir": side_dir, "compensate": "worklist-order"})
                # second switch: the unknown result of a unary / undecided binary operation tagged with the target symbol
                pending.append({"tag": f"compu_{uid}", "programs": [c], "side_dir": side_dir, "compensate": "unknown-result-tag"})
    by_uid = {p.uid: p for p in progs}
    if rp:
        by_uid = {c["uid"]: gv.Program.from_case(c) for j in jobs for c in j["programs"]}
    const_defs = const_val = 0
    for uid, pr in sorted(results.items()):
        if "explosive" in pr:
            chk.evaluated()
            chk.count("explosive-literal programs analysed")
            if pr["analysed"] and pr["y_covered"]:
                chk.count("explosive-literal programs whose other definition is still covered by value")
            else:
                chk.fail(f"unbounded-fold:{pr['explosive']}:analysis-incomplete",
                         f"after the explosive literal of program '{pr['explosive']}' the entry was "
                         f"{'not analysed at all' if not pr['analysed'] else 'analysed, but `y = 5` on the next line is no longer covered by the value 5'}",
                         {"programs": [], "explosive": [x for x in gv.explosive_programs(f"s{chk.seed}") if x["name"] == pr["explosive"]],
                          "variant": 0, "batch": True})
            continue
        if pr["dropped"]:
            chk.count("programs dropped (oracle run did not finish normally)")
            continue
        chk.evaluated()
        p = by_uid.get(uid)
        case = p.to_case() if p else {"uid": uid}
        chk.count("definitions executed in CPython and looked up", pr["defs"])
        chk.count("definitions covered by value / allocation site", pr["by_value"])
        chk.count("definitions covered only by an unknown state", pr["by_unknown"])
        chk.count("object definitions covered by allocation site and members", pr["objects_by_site"])
        chk.count("... of which some concrete member is absent from lian's (partial) member map or covered only by an unknown member state", pr["by_site_partial"])
        chk.count("folds whose evaluated text and result were checked", pr["fold_checked"])
        const_defs += pr["const_defs"]
        const_val += pr["const_by_value"]
        for k, n in pr.get("opaque", {}).items():
            construct, how = k.rsplit(":", 1)
            if construct.startswith("binary-op-with-partly-unknown-"):
                pos = construct.split("-")[-2]
                chk.count(f"binary operations with a partly unknown {pos} operand: definitions covered by "
                          f"{'a folded constant' if how == 'value' else 'the explicit unknown state only' if how == 'unknown' else 'nothing'}", n)
                if how in ("value", "unknown"):
                    chk.nontrivial_case(f"{construct}:{how}")
        for k, n in pr["kinds"].items():
            chk.nontrivial_case(k)
            if "nested-field-read-after-late-write:" in k:
                chk.count("value-covered definitions of the family 'nested object modified in the callee after it was stored'", n)
            if "field-read-after-multi-exit-callee-write:" in k:
                chk.count("value-covered definitions of the family 'helper with several exits writes a parameter object's field'", n)
        if pr["sample"]:
            chk.sample(pr["sample"])
        comp = compensated_results.get(("worklist-order", uid))
        still = None
        if comp is not None and not comp.get("dropped"):
            chk.count("programs re-analysed with the worklist-order compensation switched on")
            still = {(f[2].get("line"), f[2].get("var")) for f in comp["fails"]}
        comp2 = compensated_results.get(("unknown-result-tag", uid))
        still2 = None
        if comp2 is not None and not comp2.get("dropped"):
            chk.count("programs re-analysed with the unknown-result-tag compensation switched on")
            still2 = {(f[2].get("line"), f[2].get("var")) for f in comp2["fails"]}
        for sig, desc, det in pr["fails"]:
            if still2 is not None and sig.startswith("cover:") and (det.get("line"), det.get("var")) not in still2 \
                    and not (still is not None and (det.get("line"), det.get("var")) not in still):
                chk.count("failing definitions that are covered with the unknown-result-tag compensation on")
                chk.fail("cover:unknown-result-resolved-to-operand-value",
                         desc + f" [own signature {sig}; covered when the ANYTHING state of `y = -x` / an undecided binary "
                                f"operation is tagged with the target symbol (proposed/C08-unknown-result-tagged-with-operand.diff)]",
                         dict(case, detail=det))
                continue
            if still is not None and sig.startswith("cover:") and (det.get("line"), det.get("var")) not in still:
                chk.count("failing definitions that are covered with the worklist-order compensation on")
                chk.fail("cover:bounded-visits-in-loops",
                         desc + f" [own signature {sig}; covered when the program is analysed with the scheduling of "
                                f"proposed/C08-worklist-order.diff]", dict(case, detail=det))
                continue
            if sig.startswith("cover:") and p is not None and callee_object_in_loop_modified_later(p, det.get("line")):
                chk.count("failing definitions of the shape 'object returned by a callee in a loop body, member written later in that body'")
                chk.fail("cover:callee-object-in-loop-body-modified-later",
                         desc + f" [own signature {sig}]", dict(case, detail=det))
                continue
            chk.fail(sig, desc, dict(case, detail=det))
        for sig, desc, det in pr["fold_fails"]:
            chk.fail(sig, desc, dict(case, detail=det))
        # monitor (ii)
        vr = variants.get(uid)
        wr = variants2.get(uid)
        if vr is not None and wr is not None and not vr.get("dropped") and not wr.get("dropped") and p is not None and p.slot is not None:
            if vr["frames"] != wr["frames"] or vr["work"] != wr["work"]:
                chk.count("metamorphic triples skipped: the two benign variants already differ in frames or work")
                continue
            chk.count("metamorphic pairs compared")
            cls = p.slot[2]
            # a definition depends on the literal *as data* when the two benign variants give it different abstract values
            data_dependent = {k for k in set(vr["digest"]) | set(wr["digest"]) if vr["digest"].get(k) != wr["digest"].get(k)}
            same = [k for k in pr["concrete"] if vr["concrete"].get(k) == pr["concrete"][k] and k not in data_dependent]
            chk.count("definitions unaffected by the replaced literal whose abstract values were compared", len(same))
            diff = [k for k in same if pr["digest"].get(k) != vr["digest"].get(k)]
            if diff:
                k = diff[0]
                line = int(k.split(":")[0])
                chk.fail(f"literal-changes-other-values:{cls}",
                         f"replacing {p.slot[1]} (line {p.slot[0]}) by {gv.benign_of(p.slot[1])} changes the abstract value of `{p.lines[line - 1].strip()}` "
                         f"whose concrete value is unaffected: {pr['digest'].get(k)} vs {vr['digest'].get(k)}", dict(case, detail={"definition": k}))
            if pr["frames"] != vr["frames"]:
                chk.fail(f"literal-changes-analysed-frames:{cls}",
                         f"replacing {p.slot[1]} by a benign literal of the same length changes the sequence of analysed frames "
                         f"({len(pr['frames'])} vs {len(vr['frames'])})", case)
            elif pr["work"] != vr["work"]:
                dk = sorted(k for k in set(pr["work"]) | set(vr["work"]) if pr["work"].get(k) != vr["work"].get(k))
                chk.fail(f"literal-changes-work:{cls}",
                         f"replacing {p.slot[1]} by a benign literal of the same length changes the number of compute_stmt_states calls at "
                         f"{dk[:3]}: {[pr['work'].get(k) for k in dk[:3]]} vs {[vr['work'].get(k) for k in dk[:3]]}", case)
    if const_defs:
        share = const_val / const_defs
        chk.extra["share_of_constant_definitions_covered_by_value"] = round(share, 4)
        chk.count("constant-valued definitions", const_defs)
        chk.count("constant-valued definitions covered by value", const_val)
        chk.extra["nonvacuous_floor"] = NONVACUOUS_FLOOR
        if share < NONVACUOUS_FLOOR and not rp:
            chk.note_inconclusive(f"only {share:.2%} of constant-valued definitions are covered by value (floor {NONVACUOUS_FLOOR:.0%}): cover holds mostly vacuously")
    if not rp:
        # floors: about half of what seeds 0-4 measured on the healthy tree (quick (metamorphic variants for two batches of three): 8000+ / 2500+ / 2000+ / 120-130 /
        # 42471-44736; thorough seed 0: 134405 / 34656 / 52239 / 1528 / 579507)
        chk.require("definitions covered by value / allocation site", 2500 if not thorough else 60000)
        chk.require("object definitions covered by allocation site and members", 600 if not thorough else 15000)
        chk.require("folds whose evaluated text and result were checked", 1000 if not thorough else 25000)
        # (no floor on strict_eval / exec events: a tree that evaluates no text at all is the best possible outcome; the deciding
        #  hook for the core's literal handling is compute_two_states, counted by the floor above)
        chk.require("metamorphic pairs compared", 80 if not thorough else 700)
        chk.require("compute_stmt_states calls recorded", 15000 if not thorough else 250000)
        chk.require("explosive-literal programs analysed", 4)
        # the two scripted families (measured on quick seeds 0-4: 158-183 / 185-241 value-covered definitions)
        chk.require("value-covered definitions of the family 'nested object modified in the callee after it was stored'", 80 if not thorough else 2000)
        chk.require("value-covered definitions of the family 'helper with several exits writes a parameter object's field'", 80 if not thorough else 2000)
        # family 'binary operation with a partly unknown operand' (measured on quick seeds 0-4: second operand 225-246 definitions
        # covered by the explicit unknown only and 215-241 by a folded constant; first operand 238-258 / 216-241)
        for pos in ("second", "first"):
            chk.require(f"binary operations with a partly unknown {pos} operand: definitions covered by the explicit unknown state only",
                        100 if not thorough else 2500)
            chk.require(f"binary operations with a partly unknown {pos} operand: definitions covered by a folded constant",
                        100 if not thorough else 2500)
        if progs:
            chk.sample({"program": progs[0].text, "hostile_literals": progs[0].literals[:4]})
    else:
        chk.nontrivial_case("replay-a")
        chk.nontrivial_case("replay-b")
    chk.assumptions += [
        "the abstract value of a definition is the Symbol row named by stmt_status_p3.defined_symbol, its State rows replaced by the copies of the same state_id in out_state_bits (lian's own 'newest state' rule), recursively for members; union over all frames that analysed the statement",
        "a string state value is the literal's source text between the quotes; it matches a concrete string when equal raw or after decoding escape sequences",
        "unknown = state_type ANYTHING or UNSOLVED; UNINIT / EMPTY / REGULAR-without-value are not unknown",
        "explosive literals (9**9**9, 'ab'*10**9, ...) are analysed in children with RLIMIT_AS 4 GiB; a child that enters an evaluation predicted above 10^8 bits is stopped by the monitor after recording the text",
    ]
    sys.exit(chk.finish())


def callee_object_in_loop_modified_later(p, line):
    """Shape of the mechanism 're-applied callee summary in a later analysis round': the failing definition lies in a loop
    body in which, at or before it, an object comes back from a callee (returned, or stored by the callee into an argument) and
    a member is written later in the same body.  Computed from the program text and the generator's line metadata only."""
    if not line or line < 1 or line > len(p.lines):
        return False
    ind = lambda i: len(p.lines[i - 1]) - len(p.lines[i - 1].lstrip())
    header = None
    for i in range(line - 1, 0, -1):
        if not p.lines[i - 1].strip():
            continue
        if ind(i) < ind(line) and p.meta.get(i, {}).get("kind") == "loop":
            header = i
            break
        if ind(i) == 0:
            break
    if header is None:
        return False
    body = []
    for i in range(header + 1, len(p.lines) + 1):
        if p.lines[i - 1].strip() and ind(i) <= ind(header):
            break
        body.append(i)
    from_callee = [i for i in body if i <= line and (
        str(p.meta.get(i, {}).get("construct", "")).startswith(("container-returned", "callee-stores-then-modifies"))
        or p.meta.get(i, {}).get("construct") in ("callee-allocation", "call-return-object"))]
    if not from_callee:
        return False
    first = min(from_callee)
    return any(i > first and (p.meta.get(i, {}).get("kind") == "fieldwrite" or p.meta.get(i, {}).get("construct") == "callee-field-write")
               for i in body)


def strip_outer(text):
    return text


def job_case(job):
    return {"programs": job["programs"], "explosive": job.get("explosive", []), "variant": int(job.get("variant") or 0), "batch": True}


def replay_jobs(case, side_dir):
    if case.get("batch"):
        return [{"tag": "replay", "programs": case["programs"], "explosive": case.get("explosive", []),
                 "variant": int(case.get("variant") or 0), "side_dir": side_dir}]
    jobs = [{"tag": "replay", "programs": [case], "side_dir": side_dir}]
    if case.get("slot"):
        jobs.append({"tag": "replayv", "programs": [case], "variant": 1, "side_dir": side_dir})
        jobs.append({"tag": "replayw", "programs": [case], "variant": 2, "side_dir": side_dir})
    return jobs


if __name__ == "__main__":
    main()
