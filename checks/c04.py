"""C04 — every concrete execution of a method is a path in its CFG.

Control-flow skeletons (lib/gen_cf.py) are rendered per language (Python, JavaScript, TypeScript, Java, C, PHP, Go),
analysed by real lang+P1 runs, and executed by the reference executor on enumerated decision vectors; each activation's
statement trace must be a path of the method's CFG read from semantic_p1/cfg.bundle*. The executor's control flow is
validated on the same inputs against a real engine (the out(K) sequence identifies the executed simple statements):
CPython, node (JavaScript and — same text — TypeScript), javac+java, gcc; PHP and Go have no runtime in the sandbox, for
them the engine is node on the JavaScript rendering of the same skeleton with the same decision vector.
A failing pair is attributed to a mechanism: a transfer the executor tagged (exception / finally / case end), a block
column or operation ControlFlowAnalysis does not read (cfg-does-not-read:<operation>.<column>), else the shape of the
missing node / edge."""
import json
import os
import random
import subprocess
import sys

from lib import common, forkpool, lianrun

PROP = "C04"
BATCH = 60
LANGS = ["python", "javascript", "typescript", "java", "c", "php", "go"]
VEC_CAP = 48
# ground truth of an execution: the language's own runtime where the sandbox has one; for the others node's result on
# the JavaScript rendering of the same skeleton with the same decision vector ("twin", see lib/gen_cf.py)
GROUND_TRUTH = {"python": "CPython", "javascript": "node", "typescript": "node (same text)", "java": "javac+java", "c": "gcc",
                "php": "node on the JavaScript twin", "go": "node on the JavaScript twin"}
# compensation switches of the reference executor (each emulates one repaired lowering that is another property's finding,
# or — switch-body-column — lets the executor run what the CFG builder cannot read, so that the missing edges are seen)
VM_SWITCHES = {"typescript": ("expression-stmt-rows", "try-body-columns"), "go": ("go-struct-type-decl", "switch-body-column")}
# random skeletons per language (quick, thorough); the systematic skeletons are always all used
N_RANDOM = {"python": (400, 6000), "javascript": (400, 6000), "java": (400, 6000), "c": (400, 6000),
            "typescript": (250, 4000), "php": (250, 4000), "go": (250, 4000)}
# floors on validated executions per language (quick tier observes: typescript 13 000, php 12 600, go 9 000; a frontend whose
# lowering stops agreeing with the ground truth on a large scale makes the run inconclusive instead of silently thinner)
VALIDATED_FLOOR = {"typescript": 10000, "php": 9000, "go": 6500}
# block-valued columns ControlFlowAnalysis reads per operation (src/lian/basics/control_flow.py)
CFG_READS = {
    "if_stmt": ("then_body", "else_body"), "while_stmt": ("condition_prebody", "body", "else_body"),
    "forin_stmt": ("condition_prebody", "body", "else_body"), "for_value_stmt": ("condition_prebody", "body", "else_body"),
    "dowhile_stmt": ("body", "condition_prebody"), "for_stmt": ("init_body", "condition_prebody", "update_body", "body"),
    "switch_stmt": ("body",), "case_stmt": ("body",), "default_stmt": ("body",),
    "try_stmt": ("body", "catch_body", "else_body", "final_body"), "catch_clause": ("body",),
}
DECL_OPS = ("method_decl", "class_decl", "record_decl", "struct_decl", "interface_decl", "enum_decl", "annotation_type_decl")


def node_ground_truth(src, vectors):
    drv = ("const outs=[]; function out(v){ cur.push(v); } let cur=[];\n" + src +
           "\nconst vs=" + json.dumps(vectors) + ";\nconst res=[];\n"
           "for (const v of vs) { cur=[]; let r=null, st='ok'; try { r = main(v); } catch (e) { st='throw'; } res.push({status: st, outputs: cur, ret: r===undefined?null:r}); }\n"
           "console.log(JSON.stringify(res));\n")
    try:
        p = subprocess.run(["node", "-e", drv], capture_output=True, text=True, timeout=60)
        return json.loads(p.stdout.strip().splitlines()[-1])
    except Exception as e:
        return None


def node_ground_truth_batch(items):
    """items: [(source text, vectors)] -> [ground truth per vector | None] per item, from ONE node process (a node start
    costs more than running a program on all its vectors). Every program is compiled into its own function scope
    (`new Function`), so equal names in different programs cannot meet; a program that does not compile yields None.
    None for the whole batch when node itself fails (the caller then falls back to one process per program)."""
    drv = ("let cur=[]; function out(v){ cur.push(v); }\n"
           "const items=" + json.dumps([[t, vs] for t, vs in items]) + ";\nconst all=[];\n"
           "for (const [src, vs] of items) {\n"
           "  let main=null; try { main = (new Function('out', src + '\\n; return main;'))(out); } catch (e) { all.push(null); continue; }\n"
           "  const res=[];\n"
           "  for (const v of vs) { cur=[]; let r=null, st='ok'; try { r = main(v); } catch (e) { st='throw'; } "
           "res.push({status: st, outputs: cur, ret: r===undefined?null:r}); }\n"
           "  all.push(res);\n}\nconsole.log(JSON.stringify(all));\n")
    try:
        p = subprocess.run(["node", "-"], input=drv, capture_output=True, text=True, timeout=300)
        out = json.loads(p.stdout.strip().splitlines()[-1])
        return out if isinstance(out, list) and len(out) == len(items) else None
    except Exception:
        return None


def py_ground_truth(src, vectors):
    from lib import pyoracle
    out = []
    for v in vectors:
        try:
            r = pyoracle.run_cpython(src, "main", (v,))
        except pyoracle.Budget:
            # the oracle's 5 s wall-clock alarm went off outside its own guarded region (seen at machine load 80): no ground truth
            r = {"status": "budget", "outputs": []}
        if r["status"] == "ok":
            out.append({"status": "ok", "outputs": [int(o[0]) for o in r["outputs"]], "ret": None if r["ret"] == "None" else int(r["ret"])})
        elif r["status"] == "raise":
            out.append({"status": "throw", "outputs": [int(o[0]) for o in r["outputs"]], "ret": None})
        else:
            out.append({"status": r["status"], "outputs": [], "ret": None})
    return out


def _parse_driver_output(text, n):
    res, cur = [], None
    for line in text.splitlines():
        if line == "#":
            cur = {"status": "ok", "outputs": [], "ret": None}
            res.append(cur)
        elif cur is None:
            continue
        elif line == "!":
            cur["status"] = "throw"
        elif line.startswith("="):
            cur["ret"] = int(line[1:])
        else:
            try:
                cur["outputs"].append(int(line))
            except ValueError:
                cur["outputs"].append(line)
    return res if len(res) == n else None


def java_ground_truth_batch(progs, workdir):
    """progs: [(file name, class ident, text, vectors)] -> {file name: [ground truth per vector] | None}"""
    jd = os.path.join(workdir, "javagt")
    os.makedirs(jd, exist_ok=True)
    files = []
    for name, ident, text, vecs in progs:
        with open(os.path.join(jd, name), "w") as f:
            f.write(text)
        vs = ", ".join("{" + ", ".join(str(x) for x in v) + "}" for v in vecs)
        drv = (f"public class Drv{ident} {{ public static void main(String[] a) {{ int[][] vs = {{{vs}}}; for (int[] v : vs) {{ "
               f"System.out.println(\"#\"); try {{ int r = Sk{ident}.main(v); System.out.println(\"=\" + r); }} "
               f"catch (RuntimeException e) {{ System.out.println(\"!\"); }} }} }} }}\n")
        with open(os.path.join(jd, f"Drv{ident}.java"), "w") as f:
            f.write(drv)
        files += [os.path.join(jd, name), os.path.join(jd, f"Drv{ident}.java")]
    out = {}
    p = None
    try:
        p = subprocess.run(["javac", "-nowarn", "-d", jd] + files, capture_output=True, text=True, timeout=600)
        compiled = p.returncode == 0
    except Exception:
        compiled = False
    rounds = 0
    while not compiled and rounds < 4:
        # drop the programs javac rejects (statically unreachable code in a few skeletons) and compile the rest again
        rounds += 1
        import re as _re
        bad = set(_re.findall(r"(Sk\d+)\.java:\d+: error", p.stderr if p is not None else ""))
        bad |= set("Sk" + m for m in _re.findall(r"Drv(\d+)\.java:\d+: error", p.stderr if p is not None else ""))
        if not bad:
            break
        for name, ident, text, vecs in progs:
            if name[:-5] in bad:
                out[name] = None
        files = [f for f in files if os.path.basename(f)[:-5].replace("Drv", "Sk") not in bad and os.path.basename(f)[:-5] not in bad]
        if not files:
            break
        try:
            p = subprocess.run(["javac", "-nowarn", "-d", jd] + files, capture_output=True, text=True, timeout=600)
            compiled = p.returncode == 0
        except Exception:
            compiled = False
    if not compiled:
        for name, ident, text, vecs in progs:
            out.setdefault(name, None)
    for name, ident, text, vecs in progs:
        if name in out:
            continue
        try:
            p = subprocess.run(["java", "-XX:TieredStopAtLevel=1", "-cp", jd, f"Drv{ident}"], capture_output=True, text=True, timeout=60)
            out[name] = _parse_driver_output(p.stdout, len(vecs)) if p.returncode == 0 else None
        except Exception:
            out[name] = None
    return out


def c_ground_truth(name, text, vecs, workdir):
    cd = os.path.join(workdir, "cgt")
    os.makedirs(cd, exist_ok=True)
    with open(os.path.join(cd, name), "w") as f:
        f.write(text)
    n = len(vecs[0])
    vs = ", ".join("{" + ", ".join(str(x) for x in v) + "}" for v in vecs)
    drv = (f"#include <stdio.h>\nvoid out(int k) {{ printf(\"%d\\n\", k); }}\n#include \"{name}\"\n"
           f"int main() {{ int vs[][{n}] = {{{vs}}}; for (int i = 0; i < {len(vecs)}; i++) {{ printf(\"#\\n\"); int r = main_(vs[i]); "
           f"printf(\"=%d\\n\", r); }} return 0; }}\n")
    dp = os.path.join(cd, "drv_" + name)
    with open(dp, "w") as f:
        f.write(drv)
    try:
        p = subprocess.run(["gcc", "-w", "-O0", "-o", dp[:-2], dp], capture_output=True, text=True, timeout=60)
        if p.returncode != 0:
            return None
        p = subprocess.run([dp[:-2]], capture_output=True, text=True, timeout=20)
        return _parse_driver_output(p.stdout, len(vecs))
    except Exception:
        return None


def owned_rows(unit, mrow):
    """Statement ids that belong to method mrow: rows of its parameter and body blocks, recursively, not descending
    into nested method bodies (the nested method_decl row itself belongs to the outer method); class member
    declarations of a nested class are included (lian inlines them as definition statements)."""
    own = set()
    member_decl = set()
    block_parent = getattr(unit, "_verif_block_parent", None)
    if block_parent is None:
        block_parent = {r["stmt_id"]: r.get("parent_stmt_id") for r in unit.rows if r.get("operation") == "block_start"}
        unit._verif_block_parent = block_parent
    visited = set()

    def walk(bid, in_class):
        if bid in visited:
            return
        visited.add(bid)
        for r in unit.blocks.get(int(bid), []):
            own.add(r["stmt_id"])
            if in_class:
                member_decl.add(r["stmt_id"])
            op = r.get("operation")
            if op == "method_decl":
                continue
            cls = op in ("class_decl", "record_decl", "struct_decl", "interface_decl", "enum_decl")
            for col, v in r.items():
                if col in ("stmt_id", "parent_stmt_id", "unit_id", "original_stmt", "decorators", "start_row", "start_col", "end_row",
                           "end_col") or not isinstance(v, (int, float)):
                    continue
                if isinstance(v, float) and v != v:
                    continue
                # a block of this statement (a line number or another number may equal the id of an unrelated block)
                if int(v) in unit.blocks and int(v) != bid and block_parent.get(int(v)) == r["stmt_id"]:
                    walk(int(v), in_class or cls)
    for col in ("parameters", "body"):
        if mrow.get(col) is not None:
            walk(int(mrow[col]), False)
    return own, member_decl


def enclosing_loop(unit, sid, parent_of, row_of, want=("while_stmt", "for_stmt", "forin_stmt", "for_value_stmt", "dowhile_stmt"),
                   else_clause_of=None):
    """The nearest statement of a kind in `want` that sid is nested in. The else clause of a loop (Python while/for ... else)
    is not part of the loop: a loop is skipped when sid hangs in its else_body. else_clause_of: optional list that receives
    the loops skipped for that reason."""
    child, cur = sid, parent_of.get(sid)
    while cur is not None:
        r = row_of.get(cur)
        if r is not None and r.get("operation") in want:
            blk = row_of.get(child, {}).get("parent_stmt_id")
            eb = r.get("else_body")
            in_else = eb is not None and eb == eb and blk is not None and int(eb) == int(blk) and r.get("operation") != "if_stmt" \
                and r.get("operation") in ("while_stmt", "for_stmt", "forin_stmt", "for_value_stmt", "dowhile_stmt")
            if not in_else:
                return r
            if else_clause_of is not None:
                else_clause_of.append(r)
        if r is not None and r.get("operation") == "method_decl":
            return None
        child, cur = cur, parent_of.get(cur)
    return None


def build_programs(lang, skels, renderers=None, cap=VEC_CAP):
    """[(file name, label, text, runs, gt_text)]; a run = (executor arguments, vector handed to the ground-truth engine)."""
    from lib import gen_cf
    renderers = renderers or gen_cf.RENDERERS
    progs = []
    for i, (label, body, domains) in enumerate(skels):
        sk = gen_cf.Skel(body, domains, label)
        rnd = renderers[lang]()
        rnd.ident = f"{i:04d}"
        text = rnd.render(sk)
        name = f"Sk{i:04d}.java" if lang == "java" else f"s{i:04d}.{rnd.ext}"
        rng = random.Random(__import__("zlib").crc32(f"{label}:{i}".encode()))
        raw = gen_cf.vectors(domains, cap, rng) if domains else [[]]
        twin = getattr(rnd, "twin", None)
        if twin is not None:
            trn = renderers[twin]()
            gt_text = trn.render(sk)
            gt_vecs = [trn.conv_vector(v, sk) for v in raw]
        else:
            gt_text = text
            gt_vecs = [rnd.conv_vector(v, sk) for v in raw]
            if lang in ("java", "c"):
                gt_vecs = [list(v) + [0] for v in gt_vecs]          # int d[] is never empty
        if hasattr(rnd, "conv_args"):
            args = [rnd.conv_args(v, sk) for v in raw]
        else:
            args = [[v] for v in gt_vecs]
        progs.append((name, label, text, list(zip(args, gt_vecs)), gt_text))
    return progs


def analyse_batch(job):
    """Child: render, run lang+P1, execute, judge."""
    import pandas as pd
    from lib import girvm, gen_cf
    lang, tag, skels = job          # skels: [(label, body, domains)]
    sc = common.scratch()
    src_dir = os.path.join(sc, f"c04src_{tag}")
    os.makedirs(src_dir, exist_ok=True)
    if tag == "replay":
        with open(os.environ["VERIF_REPLAY"]) as f:
            case = json.load(f)["case"]
        ext = gen_cf.RENDERERS[lang].ext
        vec = case.get("vector", [])
        progs = [("Sk0000.java" if lang == "java" else f"s0000.{ext}", case.get("label", "replay"), case["src"],
                  [(case.get("args", [vec]), case.get("gt_vector", vec))], case.get("gt_src", case["src"]))]
    else:
        progs = build_programs(lang, skels)
    for name, label, text, runs, gt_text in progs:
        with open(os.path.join(src_dir, name), "w") as f:
            f.write(text)
    rcls = gen_cf.RENDERERS[lang]
    entry_name = getattr(rcls, "entry", {"java": "main", "c": "main_"}.get(lang, "main"))
    ret_none = getattr(rcls, "ret_none", None)
    switches = VM_SWITCHES.get(lang, ())
    st = lianrun.write_settings(os.path.join(sc, f"c04st_{tag}"))
    ws = os.path.join(sc, f"c04ws_{tag}")
    # handler coverage of ControlFlowAnalysis
    import lian.basics.control_flow as cfmod
    global CFG_READS
    try:
        # handlers lowered as catch_stmt are entered since fix 228180c: read off the code under test, so that a regression
        # is still attributed to cfg-does-not-read:catch_stmt.body
        if '"catch_stmt"' in __import__("inspect").getsource(cfmod.ControlFlowAnalysis.analyze_try_stmt):
            CFG_READS = dict(CFG_READS, catch_stmt=("body",))
    except Exception:
        pass
    reached = {}
    orig_init = cfmod.ControlFlowAnalysis.__init__

    def patched_init(self, *a, **k):
        orig_init(self, *a, **k)
        for opn, h in list(self.stmt_handlers.items()):
            def wrap(*aa, _h=h, _n=opn, **kk):
                reached[_n] = reached.get(_n, 0) + 1
                return _h(*aa, **kk)
            self.stmt_handlers[opn] = wrap
    cfmod.ControlFlowAnalysis.__init__ = patched_init
    lianrun.run_lian(lianrun.lian_argv("semantic", lang, [src_dir], ws, st, ["-q"]), stage="p1")
    wsd = lianrun.ws_dir(ws)
    gir = lianrun.rows_as_dicts(lianrun.read_bundles(wsd, "frontend", "gir"))
    cfgdf = lianrun.read_bundles(wsd, "semantic_p1", "cfg")
    ms = lianrun.rows_as_dicts(pd.read_feather(os.path.join(wsd, "frontend", "module_symbols")))
    unit_of = {os.path.basename(r["unit_path"]): int(r["unit_id"]) for r in ms if r.get("unit_id") is not None and not r.get("is_extern")}
    rows_by_unit = {}
    op_of_any = {}
    for r in gir:
        rows_by_unit.setdefault(int(r.get("unit_id", -1)), []).append(r)
        if r.get("operation") not in ("block_start", "block_end"):
            op_of_any[r.get("stmt_id")] = r.get("operation")
    cfg = {}
    if cfgdf is not None:
        for r in lianrun.rows_as_dicts(cfgdf):
            cfg.setdefault(int(r["method_id"]), {}).setdefault(int(r["src_stmt_id"]), set()).add(int(r["dst_stmt_id"]))
    res = {"lang": lang, "handlers": reached, "fails": [], "pairs": 0, "activations": 0, "vectors": 0, "validated": 0,
           "unvalidated": 0, "vm_errors": {}, "programs": 0, "distinct": 0, "opseen": {}, "no_gt": 0}
    judged_units = set()
    node_gt = None
    if lang not in ("python", "java", "c"):
        # javascript, typescript: the analysed text itself; php, go: the JavaScript twin
        got = node_ground_truth_batch([(gt_text, [g for _, g in runs]) for _, _, _, runs, gt_text in progs])
        if got is not None:
            node_gt = {name: g for (name, _, _, _, _), g in zip(progs, got)}
    java_gt = java_ground_truth_batch([(n, n[2:6], t, [g for _, g in runs]) for n, _, t, runs, _ in progs], sc + "/" + tag) if lang == "java" else {}
    for name, label, text, runs, gt_text in progs:
        u = unit_of.get(name)
        rows = rows_by_unit.get(u)
        if rows is None:
            res["fails"].append(("no-gir", f"{lang}: no GIR for a generated program", {"lang": lang, "src": text, "label": label}))
            continue
        vecs = [g for _, g in runs]
        res["programs"] += 1
        unit_probe = girvm.Unit(u, rows, lang)
        parent_of = {}
        row_of = dict(unit_probe.row_by_id)
        for r in rows:
            if r.get("operation") in ("block_start",):
                parent_of[("b", r["stmt_id"])] = r.get("parent_stmt_id")
        for r in rows:
            if r.get("operation") in ("block_start", "block_end"):
                continue
            blk = r.get("parent_stmt_id")
            parent_of[r["stmt_id"]] = parent_of.get(("b", blk), blk) if blk else None
        def own_unread(r, via_blk=None):
            """'operation.column' when statement r owns a block that ControlFlowAnalysis does not read (see CFG_READS);
            via_blk: only the column that names this block."""
            op = r.get("operation")
            if op in DECL_OPS:
                return None
            cols = {c: int(vv) for c, vv in r.items()
                    if c not in ("stmt_id", "parent_stmt_id", "unit_id", "start_row", "start_col", "end_row", "end_col")
                    and isinstance(vv, (int, float)) and vv == vv and int(vv) in unit_probe.blocks
                    and parent_of.get(("b", int(vv))) == r["stmt_id"]}
            reads = CFG_READS.get(op)
            bad = [c for c in sorted(cols) if (via_blk is None or cols[c] == via_blk) and (reads is None or c not in reads)]
            return f"{op}.{bad[0]}" if bad else None

        def culprit(x, before=False, _cache={}):
            """'operation.column' of the nearest statement at or above x (inside the method) that owns a block the CFG
            builder does not read; with before=True also of a statement that precedes x (or one of the statements x is
            nested in) in its block: the builder walks such a statement's blocks as straight-line code, and a return /
            break / continue met there ends the enclosing block's graph."""
            key = (u, x, before)
            if key in _cache:
                return _cache[key]
            cur, prev, found = x, None, None
            for _ in range(64):
                r = row_of.get(cur) if cur is not None else None
                if r is None or found is not None:
                    break
                if r.get("operation") in DECL_OPS and prev is not None:
                    break
                found = own_unread(r, row_of.get(prev, {}).get("parent_stmt_id") if prev is not None else None)
                if found is None and before:
                    for r2 in unit_probe.blocks.get(r.get("parent_stmt_id"), []):
                        if r2["stmt_id"] == cur:
                            break
                        found = found or own_unread(r2)
                prev, cur = cur, parent_of.get(cur)
            _cache[key] = found
            return found

        if lang == "python":
            gts = py_ground_truth(text, vecs)
        elif lang == "java":
            gts = java_gt.get(name)
        elif lang == "c":
            gts = c_ground_truth(name, text, vecs, sc + "/" + tag)
        elif node_gt is not None:
            gts = node_gt.get(name)
        else:
            gts = node_ground_truth(gt_text, vecs)
        if gts is None:
            res["no_gt"] += 1
            gts = [None] * len(vecs)
        methods = {r["stmt_id"]: r for r in rows if r.get("operation") == "method_decl" and r.get("name") != "out"}
        own_cache = {}
        entry_cache = {}
        static_done = False
        prog_fail = False
        seen_case = set()
        for (args, v), gt in zip(runs, gts):
            res["vectors"] += 1
            vm = girvm.VM([girvm.Unit(u, rows, lang)], lang, budget=20000, switches=switches)
            status = "ok"
            ret = None
            case_of = {"lang": lang, "src": text, "vector": v, "label": label}
            if gt_text is not text and gt_text != text:
                case_of.update(args=args, gt_src=gt_text, gt_vector=v)
            try:
                if lang == "java":
                    vm.init_unit(vm.units[0])
                    cls = next(c for c in vm.units[0].globals.vars.values() if isinstance(c, girvm.Class) and "main" in c.methods)
                    ret = vm.call_func(cls.methods["main"], list(args), {}, girvm.UNBOUND, {"stmt_id": -1}, cls=cls)
                else:
                    ret = vm.run_entry(vm.units[0], entry_name, list(args))
            except girvm.GirThrow:
                status = "throw"
            except girvm.VMError as e:
                status = "vmerror"
                key = lang + ":" + type(e).__name__ + ":" + __import__("re").sub(r"\d+", "N", str(e))[:70]
                res["vm_errors"][key] = res["vm_errors"].get(key, 0) + 1
            if status == "vmerror":
                res["unvalidated"] += 1
                if os.environ.get("VERIF_C04_DEBUG") and len(res.setdefault("debug", [])) < 4:
                    res["debug"].append({"label": label, "args": args, "gt": gt, "vm": {"status": key}, "src": text})
                continue
            outs = []
            for o in (vm.outputs if lang in ("python", "javascript") else [(x,) for x in vm.raw_outputs]):
                try:
                    outs.append(int(o[0]))
                except Exception:
                    outs.append(o[0])
            if gt is None or gt["status"] not in ("ok", "throw") or gt["status"] != status or gt["outputs"] != outs or \
               (status == "ok" and (ret_none if gt["ret"] is None else gt["ret"]) != ret):
                # the executions are only used when the ground-truth engine agrees with the executor on this input
                res["unvalidated"] += 1
                if os.environ.get("VERIF_C04_DEBUG") and len(res.setdefault("debug", [])) < 4:
                    res["debug"].append({"label": label, "args": args, "gt": gt, "vm": {"status": status, "outputs": outs, "ret": ret}, "src": text})
                continue
            res["validated"] += 1
            for fr in vm.activations:
                mid = fr.method_id
                if mid not in methods:
                    continue
                res["activations"] += 1
                g = cfg.get(mid)
                tr = fr.trace
                if not tr:
                    continue
                if g is None:
                    res["fails"].append(("no-cfg", f"method {methods[mid].get('name')} executed {len(tr)} statements but has no CFG", dict(case_of)))
                    prog_fail = True
                    break
                nodes = set(g.keys())
                for ds in g.values():
                    nodes |= ds
                if mid not in own_cache:
                    own_cache[mid] = owned_rows(vm.units[0], methods[mid])
                own, members = own_cache[mid]
                if mid not in entry_cache:
                    # lian's own notion of entry node: util.find_cfg_first_nodes (the nodes without predecessor) seeds the P2/P3 worklists
                    try:
                        import networkx as nx
                        from lian.util import util as lutil
                        gx = nx.MultiDiGraph()
                        gx.add_edges_from((a_, b_) for a_, ds_ in g.items() for b_ in ds_)
                        entry_cache[mid] = set(lutil.find_cfg_first_nodes(gx))
                    except Exception:
                        entry_cache[mid] = nodes - {d for ds in g.values() for d in ds}
                indeg0 = entry_cache[mid]
                def block_col(x):
                    """(owner row, column of the owner naming x's block, x first in block, x last in block)"""
                    r = row_of.get(x, {})
                    blk = r.get("parent_stmt_id")
                    owner = row_of.get(parent_of.get(x), {})
                    col = None
                    for c, vv in owner.items():
                        if c not in ("stmt_id", "parent_stmt_id", "unit_id", "start_row", "start_col", "end_row", "end_col") and \
                           isinstance(vv, (int, float)) and vv == vv and int(vv) == blk:
                            col = c
                    rows_b = vm.units[0].blocks.get(blk, [])
                    return owner, col, bool(rows_b) and rows_b[0].get("stmt_id") == x, bool(rows_b) and rows_b[-1].get("stmt_id") == x

                KEY_OPS = ("return_stmt", "break_stmt", "continue_stmt", "throw_stmt", "switch_stmt", "if_stmt", "try_stmt",
                           "catch_clause", "catch_stmt", "case_stmt", "default_stmt", "while_stmt", "for_stmt", "forin_stmt",
                           "for_value_stmt", "dowhile_stmt", "method_decl", "class_decl", "fallthrough_stmt")

                def desc_a(x):
                    op = row_of.get(x, {}).get("operation")
                    return op if op in KEY_OPS else "stmt"

                def desc_b(x):
                    if x == -1:
                        return "exit"
                    r = row_of.get(x, {})
                    owner, col, first, last = block_col(x)
                    if r.get("operation") in ("catch_clause", "catch_stmt", "case_stmt", "default_stmt"):
                        return r.get("operation")
                    if r.get("operation") in ("while_stmt", "for_stmt", "forin_stmt", "for_value_stmt", "dowhile_stmt"):
                        return "loop-header"
                    if col in ("update_body", "condition_prebody", "final_body", "else_body", "catch_body") and first:
                        return "first-of-" + col
                    return "stmt"

                def via_members(a, b):
                    if row_of.get(a, {}).get("operation") not in ("class_decl", "record_decl", "struct_decl"):
                        return False
                    todo, seen = [a], set()
                    while todo:
                        x = todo.pop()
                        for y in g.get(x, ()):
                            if y == b:
                                return True
                            if y in members and y not in seen:
                                seen.add(y)
                                todo.append(y)
                    return False

                problems = []
                if tr[0] not in nodes:
                    c0 = culprit(tr[0]) or culprit(tr[0], before=True)
                    problems.append((("cfg-does-not-read:" + c0) if c0 else f"node-missing:{desc_a(tr[0])}", tr[0], None))
                elif tr[0] not in indeg0:
                    # lian's entry nodes are the nodes without predecessor (util.find_cfg_first_nodes seeds the P2/P3 worklists)
                    mr = methods[mid]
                    body_rows = vm.units[0].blocks.get(int(mr["body"]), []) if mr.get("body") is not None else []
                    params = vm.units[0].blocks.get(int(mr["parameters"]), []) if mr.get("parameters") is not None else []
                    loop_first = not params and body_rows and body_rows[0].get("operation") in (
                        "while_stmt", "for_stmt", "forin_stmt", "for_value_stmt", "dowhile_stmt")
                    # a loop as the very first statement of a method without parameters: its first executed statement is the
                    # target of the loop's back edge (or of the do-while's own LOOP_TRUE edge), so no node without predecessor marks it
                    #   * the loop statement itself runs first (while / for-in without prebody): repaired by the fallback of
                    #     util.find_cfg_first_nodes (d38d49f) — this signature is a regression of it;
                    #   * a statement of the do-while body / of the condition prebody runs first (do-while; Go, Java, C loops): open
                    if loop_first:
                        sig0 = "first-statement-not-an-entry-node:parameterless-method-starts-with-" + \
                            ("while-or-forin" if tr[0] == body_rows[0].get("stmt_id") else "dowhile-or-prebody-loop")
                    else:
                        sig0 = f"first-statement-not-an-entry-node:{desc_a(tr[0])}"
                    problems.append((sig0, tr[0], None))
                steps = list(zip(tr, tr[1:], range(1, len(tr))))
                if getattr(fr, "ended", "normal") == "normal":
                    steps.append((tr[-1], -1, len(tr)))
                for a, b, idx in steps:
                    res["pairs"] += 1
                    if b in g.get(a, ()) or via_members(a, b) or a == b:
                        continue      # (a == b: an empty-bodied loop re-testing itself; lian's graphs carry no self loops)
                    tags = fr.notes.get(idx)
                    if not tags and row_of.get(a, {}).get("operation") in ("break_stmt", "continue_stmt"):
                        skipped = []
                        enclosing_loop(unit_probe, a, parent_of, row_of, else_clause_of=skipped)
                        if skipped:
                            # a break / continue in the else clause of a loop belongs to an enclosing loop
                            problems.append(("jump-in-loop-else-clause-lost:" + row_of[a]["operation"], a, b))
                            continue
                    unread = None if tags else (culprit(b) if b != -1 else None) or culprit(a) or \
                        (culprit(b, before=True) if b != -1 and b not in nodes else None) or (culprit(a, before=True) if a not in nodes else None)
                    if tags:
                        sig = "unmodelled-transfer:" + tags[0]
                    elif unread:
                        sig = "cfg-does-not-read:" + unread
                    elif b != -1 and b not in nodes:
                        sig = f"node-missing:{desc_a(b)}"
                    elif a not in nodes:
                        continue        # already reported as node-missing when it was the destination
                    else:
                        sig = f"missing-edge:{desc_a(a)}->{desc_b(b)}"
                    problems.append((sig, a, b))
                reported = set()
                for sig, a, b in problems:
                    if sig in reported:
                        continue
                    reported.add(sig)
                    res["fails"].append((sig, f"{lang} method {methods[mid].get('name')}: {sig} at {a}->{b}; trace {tr[:30]}",
                                         dict(case_of, trace=tr[:200], a=a, b=b)))
                    prog_fail = True
                for a, b in zip(tr, tr[1:]):
                    k = (row_of.get(a, {}).get("operation"), row_of.get(b, {}).get("operation"))
                    res["opseen"][k] = res["opseen"].get(k, 0) + 1
                seen_case.add(tuple(tr))
        res["distinct"] += sum(1 for t in seen_case if len(t) >= 3)
        # static clauses, once per program, for every method of it (executed or not, helper methods like `out` included)
        judged_units.add(u)
        for mid, mrow in [(r["stmt_id"], r) for r in rows if r.get("operation") == "method_decl"]:
            g = cfg.get(mid)
            if g is None:
                continue
            res["owned"] = res.get("owned", 0) + 1
            if mid not in own_cache:
                own_cache[mid] = owned_rows(unit_probe, mrow)
            own, members = own_cache[mid]
            nodes = set(g.keys())
            for ds in g.values():
                nodes |= ds
            alien = sorted(n for n in nodes if n != -1 and n not in own)
            if alien:
                # a block marker as a node: the statement owning the block was walked through as if it were straight-line code
                owner = parent_of.get(("b", alien[0])) if alien[0] in unit_probe.blocks else None
                unread = culprit(owner) if owner is not None else None
                res["alien_methods"] = res.get("alien_methods", 0) + 1
                res["fails"].append((("cfg-does-not-read:" + unread) if unread else f"alien-node:{op_of_any.get(alien[0])}",
                                     f"CFG of {mrow.get('name')} contains node {alien[0]} that is " +
                                     ("a block marker, not a statement" if owner is not None else
                                      f"not part of the method (a {op_of_any.get(alien[0])} of " +
                                      ("another method of the file" if alien[0] in row_of else "a method of another file of the batch") + ")"),
                                     {"lang": lang, "src": text, "label": label}))
            for n in nodes:
                op = row_of.get(n, {}).get("operation")
                if op == "continue_stmt":
                    loop = enclosing_loop(unit_probe, n, parent_of, row_of)
                    if loop is not None:
                        lown = {loop["stmt_id"]}
                        for col in ("update_body", "condition_prebody"):
                            if loop.get(col) is not None:
                                lown |= {r["stmt_id"] for r in unit_probe.blocks.get(int(loop[col]), [])}
                        bad = [d for d in g.get(n, ()) if d not in lown]
                        if bad:
                            sw = enclosing_loop(unit_probe, n, parent_of, row_of, want=("switch_stmt",))
                            inner_sw = sw is not None and enclosing_loop(unit_probe, sw["stmt_id"], parent_of, row_of) is not None and \
                                enclosing_loop(unit_probe, sw["stmt_id"], parent_of, row_of)["stmt_id"] == loop["stmt_id"]
                            res["fails"].append(("continue-wrong-target:" + ("inside-switch" if inner_sw else "other"),
                                                 f"continue_stmt {n} is wired to {bad} outside its loop {loop['stmt_id']}",
                                                 {"lang": lang, "src": text, "label": label}))
    # "no statement of another method" also for the methods of the other units of the run (the frontends' extern mock files):
    # whatever the analysis of one method leaves behind in the process shows up in the methods analysed after it
    for u2, rows2 in rows_by_unit.items():
        if u2 in judged_units:
            continue
        unit2 = None
        for mrow in rows2:
            if mrow.get("operation") != "method_decl" or cfg.get(mrow["stmt_id"]) is None:
                continue
            if unit2 is None:
                unit2 = girvm.Unit(u2, rows2, lang)
            g = cfg[mrow["stmt_id"]]
            own, _ = owned_rows(unit2, mrow)
            nodes = set(g.keys())
            for ds in g.values():
                nodes |= ds
            res["owned"] = res.get("owned", 0) + 1
            alien = sorted(n for n in nodes if n != -1 and n not in own and n not in unit2.blocks)
            if alien:
                res["alien_methods"] = res.get("alien_methods", 0) + 1
                res["fails"].append((f"alien-node:{op_of_any.get(alien[0])}",
                                     f"CFG of {mrow.get('name')} (a method of a file lian adds to the project) contains node {alien[0]}: "
                                     f"a {op_of_any.get(alien[0])} of a method of another file of the batch",
                                     {"lang": lang, "src": progs[0][2], "label": progs[0][1], "note": "whole batch needed: see the batch tag",
                                      "batch": tag}))
    # each child removes its own sources / workspace / compiler output (the parent's single rmtree at exit took a minute under load)
    import shutil
    for d in (src_dir, ws, st, os.path.join(sc, tag)):
        shutil.rmtree(d, ignore_errors=True)
    return res


def main():
    lianrun.prepare_zygote(warm=False)
    from lib import gen_cf
    chk = common.Check(PROP, rule=(
        "control-flow skeletons: systematic (every outer x inner construct nesting in 4 positions, with/without trailing "
        "statement; Python also while/else and for/else) + programs of parameterless procedures that start with each compound "
        "statement + seeded random skeletons to depth 3, rendered for Python, JavaScript, TypeScript, Java, C, PHP and Go "
        "(per language only the constructs it can express); decision vectors enumerated exhaustively up to 48 per skeleton "
        "(sampled beyond); distinct_nontrivial = distinct activation traces with >= 3 statements that were checked against the CFG"))
    thorough = chk.tier == "thorough"
    rp = os.environ.get("VERIF_REPLAY")
    jobs = []
    samples = []
    global LANGS
    if os.environ.get("VERIF_C04_LANGS") and not rp:
        # development aid: a run restricted to some frontends can fail, never hold
        LANGS = [x for x in LANGS if x in os.environ["VERIF_C04_LANGS"].split(",")]
        chk.note_inconclusive(f"restricted to {LANGS} by VERIF_C04_LANGS")
    if rp:
        with open(rp) as f:
            case = json.load(f)["case"]
        chk.note_inconclusive("replay of C04 cases re-runs the stored source through lang+P1 and the executor") if False else None
        jobs.append((case["lang"], "replay", [("replay", None, None)]))
    rng = random.Random(chk.seed)
    if not rp:
        per_lang = []
        for lang in LANGS:
            only = gen_cf.LANG_KINDS.get(lang)
            # programs of parameterless procedures first: whatever their analysis leaves behind meets every later method of the batch
            sk = gen_cf.starter_skeletons(lang) + gen_cf.systematic_skeletons(lang, only=only)
            nrand = N_RANDOM[lang][1 if thorough else 0]
            base = rng.randrange(1 << 30)
            for i in range(nrand):
                s, _ = gen_cf.random_skeleton(base + i, lang, max_depth=rng.choice([2, 3, 3, 4]) if thorough else rng.choice([2, 3]), only=only)
                sk.append(s)
            items = [(s.label, s.body, s.domains) for s in sk]
            per_lang.append([(lang, f"{lang}{k // BATCH}", items[k:k + BATCH]) for k in range(0, len(items), BATCH)])
        # interleave the languages so that the slow ground-truth engines (javac, gcc) overlap with the fast ones
        while any(per_lang):
            for lst in per_lang:
                if lst:
                    jobs.append(lst.pop(0))
        for lang in LANGS:
            sk = [gen_cf.random_skeleton(chk.seed * 7 + 3, lang, max_depth=3, only=gen_cf.LANG_KINDS.get(lang))[0]]
            r0 = gen_cf.RENDERERS[lang]()
            samples.append({"lang": lang, "label": sk[-1].label, "program": r0.render(sk[-1]), "decision_domains": sk[-1].domains})
    handlers = {}
    opseen = {}
    for r in forkpool.run_jobs(analyse_batch, jobs, timeout=1800, tag="c04"):
        if r.status != "ok":
            chk.fail(f"analysis-died:{r.item[0]}:{r.value[0] if r.status == 'exception' else r.status}",
                     f"lang+P1 over a batch of generated {r.item[0]} programs ended with {r.status}: {str(r.value)[:400]} {r.log_text(600)}",
                     {"lang": r.item[0], "batch": r.item[1]}) if r.status in ("exception", "exit", "signal") else \
                chk.note_inconclusive(f"batch {r.item[1]}: {r.status}")
            continue
        v = r.value
        lang = v["lang"]
        chk.evaluated(v["vectors"])
        chk.count(f"{lang}: programs analysed", v["programs"])
        chk.count(f"{lang}: executions validated against ground truth and checked", v["validated"])
        chk.count(f"{lang}: executions not used (executor/ground-truth disagreement or executor error)", v["unvalidated"])
        chk.count(f"{lang}: activations checked", v["activations"])
        chk.count("consecutive statement pairs compared with CFG edges", v["pairs"])
        chk.count("programs without ground truth (node failed)", v["no_gt"])
        chk.count(f"{lang}: methods whose CFG nodes were checked for belonging to the method", v.get("owned", 0))
        chk.count("methods whose CFG contains a statement of another method", v.get("alien_methods", 0))
        for k, n in v["handlers"].items():
            handlers[k] = handlers.get(k, 0) + n
        for k, n in v["opseen"].items():
            opseen[k] = opseen.get(k, 0) + n
        for dbg in v.get("debug", []):
            print("DEBUG-UNVALIDATED", json.dumps(dbg))
        for k, n in v["vm_errors"].items():
            chk.extra.setdefault("executor_errors", {})
            chk.extra["executor_errors"][k] = chk.extra["executor_errors"].get(k, 0) + n
        for i in range(v["distinct"]):
            chk.nontrivial_case((r.item[1], i))
        for sig, desc, case in v["fails"]:
            chk.fail(sig, desc, case)
    chk.extra["cfg_handlers_reached"] = handlers
    chk.extra["distinct_operation_pairs_seen"] = len(opseen)
    chk.count("distinct (operation A, operation B) pairs observed in traces", len(opseen))
    chk.count("CFG handler kinds reached", len(handlers))
    if not rp:
        chk.require("consecutive statement pairs compared with CFG edges", 50000)
        chk.require("distinct (operation A, operation B) pairs observed in traces", 40)
        need = {"if_stmt", "while_stmt", "for_stmt", "forin_stmt", "for_value_stmt", "dowhile_stmt", "break_stmt", "continue_stmt",
                "try_stmt", "switch_stmt", "return_stmt", "method_decl", "class_decl"}
        miss = sorted(need - set(handlers))
        if miss:
            chk.note_inconclusive(f"CFG handlers never reached: {miss}")
        for lang in LANGS:
            chk.require(f"{lang}: programs analysed", 500)
            chk.require(f"{lang}: executions validated against ground truth and checked", VALIDATED_FLOOR.get(lang, 1000))
            chk.require(f"{lang}: activations checked", VALIDATED_FLOOR.get(lang, 1000))
            # "no statement of another method": every method of every file of every batch (quick tier observes 1 700 .. 3 500)
            chk.require(f"{lang}: methods whose CFG nodes were checked for belonging to the method", 1000)
    else:
        chk.nontrivial_case("replay-a"); chk.nontrivial_case("replay-b")
    for s in samples:
        chk.sample(s)
    chk.assumptions += [
        "an execution is used only when the ground-truth engine (" + "; ".join(f"{k}: {v}" for k, v in GROUND_TRUTH.items()) +
        ") agrees with the reference executor on outputs and return value for that input",
        "PHP and Go have no runtime here: their renderers produce only shapes whose meaning is that of the JavaScript rendering of the same "
        "skeleton (PHP: `continue N` names the loop through enclosing switches, nested functions get the decision vector as a parameter; "
        "Go: no try and no do-while, `fallthrough` where the JavaScript case has no break, range loops over a second parameter)",
        "TypeScript expression_stmt rows, the Go struct type_decl and the Go switch clause column are executed through the executor's "
        "compensation switches (expression-stmt-rows, try-body-columns, go-struct-type-decl, switch-body-column); they are C02/C04 findings, not executor guesses",
        "exceptions arise only from an explicit raise/throw placed under a decision",
        "a class declaration may pass through its member declarations (lian inlines them as definition statements)",
        "a statement followed by itself (empty-bodied loop re-testing its condition) needs no self edge",
    ]
    sys.exit(chk.finish())


if __name__ == "__main__":
    main()
