"""C04 — every concrete execution of a method is a path in its CFG.

Control-flow skeletons (lib/gen_cf.py) are rendered per language, analysed by real lang+P1 runs, and executed by the
reference executor on enumerated decision vectors; each activation's statement trace must be a path of the method's
CFG read from semantic_p1/cfg.bundle*. The executor's control flow is validated on the same inputs against CPython /
node (the out(K) sequence identifies the executed simple statements)."""
import json
import os
import random
import subprocess
import sys

from lib import common, forkpool, lianrun

PROP = "C04"
BATCH = 60
LANGS = ["python", "javascript", "java", "c"]
VEC_CAP = 48


def node_ground_truth(src, vectors):
    drv = ("const outs=[]; function out(v){ cur.push(v); } let cur=[];\n" + src +
           "\nconst vs=" + json.dumps(vectors) + ";\nconst res=[];\n"
           "for (const v of vs) { cur=[]; let r=null, st='ok'; try { r = main(v); } catch (e) { st='throw'; } res.push({status: st, outputs: cur, ret: r===undefined?null:r}); }\n"
           "console.log(JSON.stringify(res));\n")
    try:
        p = subprocess.run(["node", "-e", drv], capture_output=True, text=True, timeout=60)
        return json.loads(p.stdout.strip().splitlines()[-1])
    except Exception as e:
        return None


def py_ground_truth(src, vectors):
    from lib import pyoracle
    out = []
    for v in vectors:
        r = pyoracle.run_cpython(src, "main", (v,))
        if r["status"] == "ok":
            out.append({"status": "ok", "outputs": [int(o[0]) for o in r["outputs"]], "ret": None if r["ret"] == "None" else int(r["ret"])})
        elif r["status"] == "raise":
            out.append({"status": "throw", "outputs": [int(o[0]) for o in r["outputs"]], "ret": None})
        else:
            out.append({"status": r["status"], "outputs": [], "ret": None})
    return out


def _parse_driver_output(text, n):
    res, cur = [], None
    for line in text.splitlines():
        if line == "#":
            cur = {"status": "ok", "outputs": [], "ret": None}
            res.append(cur)
        elif cur is None:
            continue
        elif line == "!":
            cur["status"] = "throw"
        elif line.startswith("="):
            cur["ret"] = int(line[1:])
        else:
            try:
                cur["outputs"].append(int(line))
            except ValueError:
                cur["outputs"].append(line)
    return res if len(res) == n else None


def java_ground_truth_batch(progs, workdir):
    """progs: [(file name, class ident, text, vectors)] -> {file name: [ground truth per vector] | None}"""
    jd = os.path.join(workdir, "javagt")
    os.makedirs(jd, exist_ok=True)
    files = []
    for name, ident, text, vecs in progs:
        with open(os.path.join(jd, name), "w") as f:
            f.write(text)
        vs = ", ".join("{" + ", ".join(str(x) for x in v) + "}" for v in vecs)
        drv = (f"public class Drv{ident} {{ public static void main(String[] a) {{ int[][] vs = {{{vs}}}; for (int[] v : vs) {{ "
               f"System.out.println(\"#\"); try {{ int r = Sk{ident}.main(v); System.out.println(\"=\" + r); }} "
               f"catch (RuntimeException e) {{ System.out.println(\"!\"); }} }} }} }}\n")
        with open(os.path.join(jd, f"Drv{ident}.java"), "w") as f:
            f.write(drv)
        files += [os.path.join(jd, name), os.path.join(jd, f"Drv{ident}.java")]
    out = {}
    p = None
    try:
        p = subprocess.run(["javac", "-nowarn", "-d", jd] + files, capture_output=True, text=True, timeout=600)
        compiled = p.returncode == 0
    except Exception:
        compiled = False
    rounds = 0
    while not compiled and rounds < 4:
        # drop the programs javac rejects (statically unreachable code in a few skeletons) and compile the rest again
        rounds += 1
        import re as _re
        bad = set(_re.findall(r"(Sk\d+)\.java:\d+: error", p.stderr if p is not None else ""))
        bad |= set("Sk" + m for m in _re.findall(r"Drv(\d+)\.java:\d+: error", p.stderr if p is not None else ""))
        if not bad:
            break
        for name, ident, text, vecs in progs:
            if name[:-5] in bad:
                out[name] = None
        files = [f for f in files if os.path.basename(f)[:-5].replace("Drv", "Sk") not in bad and os.path.basename(f)[:-5] not in bad]
        if not files:
            break
        try:
            p = subprocess.run(["javac", "-nowarn", "-d", jd] + files, capture_output=True, text=True, timeout=600)
            compiled = p.returncode == 0
        except Exception:
            compiled = False
    if not compiled:
        for name, ident, text, vecs in progs:
            out.setdefault(name, None)
    for name, ident, text, vecs in progs:
        if name in out:
            continue
        try:
            p = subprocess.run(["java", "-XX:TieredStopAtLevel=1", "-cp", jd, f"Drv{ident}"], capture_output=True, text=True, timeout=60)
            out[name] = _parse_driver_output(p.stdout, len(vecs)) if p.returncode == 0 else None
        except Exception:
            out[name] = None
    return out


def c_ground_truth(name, text, vecs, workdir):
    cd = os.path.join(workdir, "cgt")
    os.makedirs(cd, exist_ok=True)
    with open(os.path.join(cd, name), "w") as f:
        f.write(text)
    n = len(vecs[0])
    vs = ", ".join("{" + ", ".join(str(x) for x in v) + "}" for v in vecs)
    drv = (f"#include <stdio.h>\nvoid out(int k) {{ printf(\"%d\\n\", k); }}\n#include \"{name}\"\n"
           f"int main() {{ int vs[][{n}] = {{{vs}}}; for (int i = 0; i < {len(vecs)}; i++) {{ printf(\"#\\n\"); int r = main_(vs[i]); "
           f"printf(\"=%d\\n\", r); }} return 0; }}\n")
    dp = os.path.join(cd, "drv_" + name)
    with open(dp, "w") as f:
        f.write(drv)
    try:
        p = subprocess.run(["gcc", "-w", "-O0", "-o", dp[:-2], dp], capture_output=True, text=True, timeout=60)
        if p.returncode != 0:
            return None
        p = subprocess.run([dp[:-2]], capture_output=True, text=True, timeout=20)
        return _parse_driver_output(p.stdout, len(vecs))
    except Exception:
        return None


def owned_rows(unit, mrow):
    """Statement ids that belong to method mrow: rows of its parameter and body blocks, recursively, not descending
    into nested method bodies (the nested method_decl row itself belongs to the outer method); class member
    declarations of a nested class are included (lian inlines them as definition statements)."""
    own = set()
    member_decl = set()

    def walk(bid, in_class):
        for r in unit.blocks.get(int(bid), []):
            own.add(r["stmt_id"])
            if in_class:
                member_decl.add(r["stmt_id"])
            op = r.get("operation")
            if op == "method_decl":
                continue
            cls = op in ("class_decl", "record_decl", "struct_decl", "interface_decl", "enum_decl")
            for col, v in r.items():
                if col in ("stmt_id", "parent_stmt_id", "unit_id", "original_stmt", "decorators") or not isinstance(v, (int, float)):
                    continue
                if isinstance(v, float) and v != v:
                    continue
                if int(v) in unit.blocks and int(v) != bid:
                    walk(int(v), in_class or cls)
    for col in ("parameters", "body"):
        if mrow.get(col) is not None:
            walk(int(mrow[col]), False)
    return own, member_decl


def enclosing_loop(unit, sid, parent_of, row_of, want=("while_stmt", "for_stmt", "forin_stmt", "for_value_stmt", "dowhile_stmt")):
    cur = parent_of.get(sid)
    while cur is not None:
        r = row_of.get(cur)
        if r is not None and r.get("operation") in want:
            return r
        if r is not None and r.get("operation") == "method_decl":
            return None
        cur = parent_of.get(cur)
    return None


def analyse_batch(job):
    """Child: render, run lang+P1, execute, judge."""
    import pandas as pd
    from lib import girvm, gen_cf
    lang, tag, skels = job          # skels: [(label, body, domains)]
    sc = common.scratch()
    src_dir = os.path.join(sc, f"c04src_{tag}")
    os.makedirs(src_dir, exist_ok=True)
    progs = []
    for i, (label, body, domains) in enumerate(skels):
        sk = gen_cf.Skel(body, domains, label)
        rnd = gen_cf.RENDERERS[lang]()
        rnd.ident = f"{i:04d}"
        text = rnd.render(sk)
        name = f"Sk{i:04d}.java" if lang == "java" else f"s{i:04d}.{rnd.ext}"
        with open(os.path.join(src_dir, name), "w") as f:
            f.write(text)
        rng = random.Random(__import__("zlib").crc32(f"{label}:{i}".encode()))
        vecs = gen_cf.vectors(domains, VEC_CAP, rng) if domains else [[]]
        vecs = [rnd.conv_vector(v, sk) for v in vecs]
        if lang in ("java", "c"):
            vecs = [list(v) + [0] for v in vecs]          # int d[] is never empty
        progs.append((name, sk, text, vecs))
    st = lianrun.write_settings(os.path.join(sc, f"c04st_{tag}"))
    ws = os.path.join(sc, f"c04ws_{tag}")
    # handler coverage of ControlFlowAnalysis
    import lian.basics.control_flow as cfmod
    reached = {}
    orig_init = cfmod.ControlFlowAnalysis.__init__

    def patched_init(self, *a, **k):
        orig_init(self, *a, **k)
        for opn, h in list(self.stmt_handlers.items()):
            def wrap(*aa, _h=h, _n=opn, **kk):
                reached[_n] = reached.get(_n, 0) + 1
                return _h(*aa, **kk)
            self.stmt_handlers[opn] = wrap
    cfmod.ControlFlowAnalysis.__init__ = patched_init
    lianrun.run_lian(lianrun.lian_argv("semantic", lang, [src_dir], ws, st, ["-q"]), stage="p1")
    wsd = lianrun.ws_dir(ws)
    gir = lianrun.rows_as_dicts(lianrun.read_bundles(wsd, "frontend", "gir"))
    cfgdf = lianrun.read_bundles(wsd, "semantic_p1", "cfg")
    ms = lianrun.rows_as_dicts(pd.read_feather(os.path.join(wsd, "frontend", "module_symbols")))
    unit_of = {os.path.basename(r["unit_path"]): int(r["unit_id"]) for r in ms if r.get("unit_id") is not None and not r.get("is_extern")}
    rows_by_unit = {}
    for r in gir:
        rows_by_unit.setdefault(int(r.get("unit_id", -1)), []).append(r)
    cfg = {}
    if cfgdf is not None:
        for r in lianrun.rows_as_dicts(cfgdf):
            cfg.setdefault(int(r["method_id"]), {}).setdefault(int(r["src_stmt_id"]), set()).add(int(r["dst_stmt_id"]))
    res = {"lang": lang, "handlers": reached, "fails": [], "pairs": 0, "activations": 0, "vectors": 0, "validated": 0,
           "unvalidated": 0, "vm_errors": {}, "programs": 0, "distinct": 0, "opseen": {}, "no_gt": 0}
    java_gt = java_ground_truth_batch([(n, n[2:6], t, v) for n, _, t, v in progs], sc + "/" + tag) if lang == "java" else {}
    entry_name = {"java": "main", "c": "main_"}.get(lang, "main")
    for name, sk, text, vecs in progs:
        u = unit_of.get(name)
        rows = rows_by_unit.get(u)
        if rows is None:
            res["fails"].append(("no-gir", f"{lang}: no GIR for a generated program", {"lang": lang, "src": text, "label": sk.label}))
            continue
        res["programs"] += 1
        unit_probe = girvm.Unit(u, rows, lang)
        parent_of = {}
        row_of = dict(unit_probe.row_by_id)
        for r in rows:
            if r.get("operation") in ("block_start",):
                parent_of[("b", r["stmt_id"])] = r.get("parent_stmt_id")
        for r in rows:
            if r.get("operation") in ("block_start", "block_end"):
                continue
            blk = r.get("parent_stmt_id")
            parent_of[r["stmt_id"]] = parent_of.get(("b", blk), blk) if blk else None
        if lang == "python":
            gts = py_ground_truth(text, vecs)
        elif lang == "javascript":
            gts = node_ground_truth(text, vecs)
        elif lang == "java":
            gts = java_gt.get(name)
        else:
            gts = c_ground_truth(name, text, vecs, sc + "/" + tag)
        if gts is None:
            res["no_gt"] += 1
            gts = [None] * len(vecs)
        methods = {r["stmt_id"]: r for r in rows if r.get("operation") == "method_decl" and r.get("name") != "out"}
        own_cache = {}
        static_done = False
        prog_fail = False
        seen_case = set()
        for v, gt in zip(vecs, gts):
            res["vectors"] += 1
            vm = girvm.VM([girvm.Unit(u, rows, lang)], lang, budget=20000)
            status = "ok"
            ret = None
            try:
                if lang == "java":
                    vm.init_unit(vm.units[0])
                    cls = next(c for c in vm.units[0].globals.vars.values() if isinstance(c, girvm.Class) and "main" in c.methods)
                    ret = vm.call_func(cls.methods["main"], [v], {}, girvm.UNBOUND, {"stmt_id": -1}, cls=cls)
                else:
                    ret = vm.run_entry(vm.units[0], entry_name, [v])
            except girvm.GirThrow:
                status = "throw"
            except girvm.VMError as e:
                status = "vmerror"
                key = type(e).__name__ + ":" + str(e)[:60]
                res["vm_errors"][key] = res["vm_errors"].get(key, 0) + 1
            if status == "vmerror":
                res["unvalidated"] += 1
                continue
            outs = []
            for o in (vm.outputs if lang in ("python", "javascript") else [(x,) for x in vm.raw_outputs]):
                try:
                    outs.append(int(o[0]))
                except Exception:
                    outs.append(o[0])
            if gt is None or gt["status"] not in ("ok", "throw") or gt["status"] != status or gt["outputs"] != outs or \
               (status == "ok" and gt["ret"] != ret):
                # the executions are only used when the ground-truth engine agrees with the executor on this input
                res["unvalidated"] += 1
                continue
            res["validated"] += 1
            for fr in vm.activations:
                mid = fr.method_id
                if mid not in methods:
                    continue
                res["activations"] += 1
                g = cfg.get(mid)
                tr = fr.trace
                if not tr:
                    continue
                if g is None:
                    res["fails"].append(("no-cfg", f"method {methods[mid].get('name')} executed {len(tr)} statements but has no CFG",
                                         {"lang": lang, "src": text, "vector": v, "label": sk.label}))
                    prog_fail = True
                    break
                nodes = set(g.keys())
                for ds in g.values():
                    nodes |= ds
                if mid not in own_cache:
                    own_cache[mid] = owned_rows(vm.units[0], methods[mid])
                own, members = own_cache[mid]
                indeg0 = nodes - {d for ds in g.values() for d in ds}
                def block_col(x):
                    """(owner row, column of the owner naming x's block, x first in block, x last in block)"""
                    r = row_of.get(x, {})
                    blk = r.get("parent_stmt_id")
                    owner = row_of.get(parent_of.get(x), {})
                    col = None
                    for c, vv in owner.items():
                        if c not in ("stmt_id", "parent_stmt_id") and isinstance(vv, (int, float)) and vv == vv and int(vv) == blk:
                            col = c
                    rows_b = vm.units[0].blocks.get(blk, [])
                    return owner, col, bool(rows_b) and rows_b[0].get("stmt_id") == x, bool(rows_b) and rows_b[-1].get("stmt_id") == x

                KEY_OPS = ("return_stmt", "break_stmt", "continue_stmt", "throw_stmt", "switch_stmt", "if_stmt", "try_stmt",
                           "catch_clause", "case_stmt", "default_stmt", "while_stmt", "for_stmt", "forin_stmt", "for_value_stmt",
                           "dowhile_stmt", "method_decl", "class_decl")

                def desc_a(x):
                    op = row_of.get(x, {}).get("operation")
                    return op if op in KEY_OPS else "stmt"

                def desc_b(x):
                    if x == -1:
                        return "exit"
                    r = row_of.get(x, {})
                    owner, col, first, last = block_col(x)
                    if r.get("operation") in ("catch_clause", "case_stmt", "default_stmt"):
                        return r.get("operation")
                    if r.get("operation") in ("while_stmt", "for_stmt", "forin_stmt", "for_value_stmt", "dowhile_stmt"):
                        return "loop-header"
                    if col in ("update_body", "condition_prebody", "final_body", "else_body", "catch_body") and first:
                        return "first-of-" + col
                    return "stmt"

                def via_members(a, b):
                    if row_of.get(a, {}).get("operation") not in ("class_decl", "record_decl", "struct_decl"):
                        return False
                    todo, seen = [a], set()
                    while todo:
                        x = todo.pop()
                        for y in g.get(x, ()):
                            if y == b:
                                return True
                            if y in members and y not in seen:
                                seen.add(y)
                                todo.append(y)
                    return False

                problems = []
                if tr[0] not in nodes:
                    problems.append((f"node-missing:{desc_a(tr[0])}", tr[0], None))
                elif tr[0] not in indeg0:
                    problems.append((f"first-statement-not-an-entry-node:{desc_a(tr[0])}", tr[0], None))
                steps = list(zip(tr, tr[1:], range(1, len(tr))))
                if getattr(fr, "ended", "normal") == "normal":
                    steps.append((tr[-1], -1, len(tr)))
                for a, b, idx in steps:
                    res["pairs"] += 1
                    if b in g.get(a, ()) or via_members(a, b) or a == b:
                        continue      # (a == b: an empty-bodied loop re-testing itself; lian's graphs carry no self loops)
                    tags = fr.notes.get(idx)
                    if tags:
                        sig = "unmodelled-transfer:" + tags[0]
                    elif b != -1 and b not in nodes:
                        sig = f"node-missing:{desc_a(b)}"
                    elif a not in nodes:
                        continue        # already reported as node-missing when it was the destination
                    else:
                        sig = f"missing-edge:{desc_a(a)}->{desc_b(b)}"
                    problems.append((sig, a, b))
                reported = set()
                for sig, a, b in problems:
                    if sig in reported:
                        continue
                    reported.add(sig)
                    res["fails"].append((sig, f"{lang} method {methods[mid].get('name')}: {sig} at {a}->{b}; trace {tr[:30]}",
                                         {"lang": lang, "src": text, "vector": v, "label": sk.label, "trace": tr[:200], "a": a, "b": b}))
                    prog_fail = True
                for a, b in zip(tr, tr[1:]):
                    k = (row_of.get(a, {}).get("operation"), row_of.get(b, {}).get("operation"))
                    res["opseen"][k] = res["opseen"].get(k, 0) + 1
                seen_case.add(tuple(tr))
        res["distinct"] += sum(1 for t in seen_case if len(t) >= 3)
        # static clauses, once per program
        for mid, mrow in methods.items():
            g = cfg.get(mid)
            if g is None:
                continue
            if mid not in own_cache:
                own_cache[mid] = owned_rows(unit_probe, mrow)
            own, members = own_cache[mid]
            nodes = set(g.keys())
            for ds in g.values():
                nodes |= ds
            alien = [n for n in nodes if n != -1 and n not in own]
            if alien:
                res["fails"].append((f"alien-node:{row_of.get(alien[0], {}).get('operation')}",
                                     f"CFG of {mrow.get('name')} contains statement {alien[0]} that is not part of the method",
                                     {"lang": lang, "src": text, "label": sk.label}))
            for n in nodes:
                op = row_of.get(n, {}).get("operation")
                if op == "continue_stmt":
                    loop = enclosing_loop(unit_probe, n, parent_of, row_of)
                    if loop is not None:
                        lown = {loop["stmt_id"]}
                        for col in ("update_body", "condition_prebody"):
                            if loop.get(col) is not None:
                                lown |= {r["stmt_id"] for r in unit_probe.blocks.get(int(loop[col]), [])}
                        bad = [d for d in g.get(n, ()) if d not in lown]
                        if bad:
                            sw = enclosing_loop(unit_probe, n, parent_of, row_of, want=("switch_stmt",))
                            inner_sw = sw is not None and enclosing_loop(unit_probe, sw["stmt_id"], parent_of, row_of) is not None and \
                                enclosing_loop(unit_probe, sw["stmt_id"], parent_of, row_of)["stmt_id"] == loop["stmt_id"]
                            res["fails"].append(("continue-wrong-target:" + ("inside-switch" if inner_sw else "other"),
                                                 f"continue_stmt {n} is wired to {bad} outside its loop {loop['stmt_id']}",
                                                 {"lang": lang, "src": text, "label": sk.label}))
    return res


def main():
    lianrun.prepare_zygote(warm=False)
    from lib import gen_cf
    chk = common.Check(PROP, rule=(
        "control-flow skeletons: systematic (every outer x inner construct nesting in 4 positions, with/without trailing "
        "statement) + seeded random skeletons to depth 3, rendered for Python and JavaScript; decision vectors enumerated "
        "exhaustively up to 48 per skeleton (sampled beyond); distinct_nontrivial = distinct activation traces with >= 3 statements "
        "that were checked against the CFG"))
    thorough = chk.tier == "thorough"
    rp = os.environ.get("VERIF_REPLAY")
    jobs = []
    samples = []
    if rp:
        with open(rp) as f:
            case = json.load(f)["case"]
        chk.note_inconclusive("replay of C04 cases re-runs the stored source through lang+P1 and the executor") if False else None
        jobs.append((case["lang"], "replay", [("replay", None, None)]))
    rng = random.Random(chk.seed)
    if not rp:
        for lang in LANGS:
            sk = gen_cf.systematic_skeletons(lang)
            nrand = 400 if not thorough else 6000
            base = rng.randrange(1 << 30)
            for i in range(nrand):
                s, _ = gen_cf.random_skeleton(base + i, lang, max_depth=rng.choice([2, 3, 3, 4]) if thorough else rng.choice([2, 3]))
                sk.append(s)
            items = [(s.label, s.body, s.domains) for s in sk]
            for k in range(0, len(items), BATCH):
                jobs.append((lang, f"{lang[:2]}{k // BATCH}", items[k:k + BATCH]))
            r0 = gen_cf.RENDERERS[lang]()
            samples.append({"lang": lang, "label": sk[-1].label, "program": r0.render(sk[-1]), "decision_domains": sk[-1].domains})
    handlers = {}
    opseen = {}
    fn = analyse_batch if not rp else replay_batch
    for r in forkpool.run_jobs(fn, jobs, timeout=1800, tag="c04"):
        if r.status != "ok":
            chk.fail(f"analysis-died:{r.item[0]}:{r.value[0] if r.status == 'exception' else r.status}",
                     f"lang+P1 over a batch of generated {r.item[0]} programs ended with {r.status}: {str(r.value)[:400]} {r.log_text(600)}",
                     {"lang": r.item[0], "batch": r.item[1]}) if r.status in ("exception", "exit", "signal") else \
                chk.note_inconclusive(f"batch {r.item[1]}: {r.status}")
            continue
        v = r.value
        lang = v["lang"]
        chk.evaluated(v["vectors"])
        chk.count(f"{lang}: programs analysed", v["programs"])
        chk.count(f"{lang}: executions validated against ground truth and checked", v["validated"])
        chk.count(f"{lang}: executions not used (executor/ground-truth disagreement or executor error)", v["unvalidated"])
        chk.count(f"{lang}: activations checked", v["activations"])
        chk.count("consecutive statement pairs compared with CFG edges", v["pairs"])
        chk.count("programs without ground truth (node failed)", v["no_gt"])
        for k, n in v["handlers"].items():
            handlers[k] = handlers.get(k, 0) + n
        for k, n in v["opseen"].items():
            opseen[k] = opseen.get(k, 0) + n
        for k, n in v["vm_errors"].items():
            chk.extra.setdefault("executor_errors", {})
            chk.extra["executor_errors"][k] = chk.extra["executor_errors"].get(k, 0) + n
        for i in range(v["distinct"]):
            chk.nontrivial_case((r.item[1], i))
        for sig, desc, case in v["fails"]:
            chk.fail(sig, desc, case)
    chk.extra["cfg_handlers_reached"] = handlers
    chk.extra["distinct_operation_pairs_seen"] = len(opseen)
    chk.count("distinct (operation A, operation B) pairs observed in traces", len(opseen))
    chk.count("CFG handler kinds reached", len(handlers))
    if not rp:
        chk.require("consecutive statement pairs compared with CFG edges", 50000)
        chk.require("distinct (operation A, operation B) pairs observed in traces", 40)
        need = {"if_stmt", "while_stmt", "for_stmt", "forin_stmt", "for_value_stmt", "dowhile_stmt", "break_stmt", "continue_stmt",
                "try_stmt", "switch_stmt", "return_stmt", "method_decl", "class_decl"}
        miss = sorted(need - set(handlers))
        if miss:
            chk.note_inconclusive(f"CFG handlers never reached: {miss}")
        for lang in LANGS:
            chk.require(f"{lang}: executions validated against ground truth and checked", 1000)
    else:
        chk.nontrivial_case("replay-a"); chk.nontrivial_case("replay-b")
    for s in samples:
        chk.sample(s)
    chk.assumptions += [
        "an execution is used only when CPython (Python) / node (JavaScript) agree with the reference executor on outputs and return value for that input",
        "exceptions arise only from an explicit raise/throw placed under a decision",
        "a class declaration may pass through its member declarations (lian inlines them as definition statements)",
        "a statement followed by itself (empty-bodied loop re-testing its condition) needs no self edge",
    ]
    sys.exit(chk.finish())


def replay_batch(job):
    """Replay: the stored source is analysed as is; executed on the stored vector."""
    lang, tag, _ = job
    with open(os.environ["VERIF_REPLAY"]) as f:
        case = json.load(f)["case"]
    from lib import gen_cf

    class Fixed:
        ext = gen_cf.RENDERERS[lang].ext

        def render(self, sk):
            return case["src"]

        def conv_vector(self, v, sk):
            return v
    saved = gen_cf.RENDERERS[lang]
    gen_cf.RENDERERS[lang] = Fixed
    saved_vec = gen_cf.vectors
    gen_cf.vectors = lambda d, c, r: [case.get("vector", [])]
    try:
        return analyse_batch((lang, tag, [("replay", [], [(0,)])]))
    finally:
        gen_cf.RENDERERS[lang] = saved
        gen_cf.vectors = saved_vec


if __name__ == "__main__":
    main()
