"""C12 — results are invariant under meaning-preserving edits of the input.

A relation between two REAL runs, no oracle: a base project P and its edited version P' (lib/edits.py: blank/comment
lines, consistent renaming of a local / parameter / function / class / method to a name that occurs nowhere, no-op
statements, reordering of independent top-level definitions, moving a function into another file and importing it;
1-3 edits per pair) are each analysed by the complete `lian run` (not -q, same settings, own forked child, own
workspace) and the normalised results are compared through the line map and the name map the editors produced:

  call edges   semantic_p3/call_paths_p3   {(caller qualified name, line of the call statement, callee qualified name)}
  bindings     semantic_p1/s2space_p1      {((file, line, name) of an occurrence, declaration it is bound to as
                                             (file, line, name) | unit | unresolved)}      source-level names only
  taint flows  taint/taint_data_flow.json  {(source file, source line, sink file, sink line)}

A qualified name is the chain of enclosing declarations, each identified by (file, line, name) — never a statement id.
Results of P' that stand on inserted lines are ignored. Each program is also RUN (CPython for Python, node for
JavaScript) by the child that analyses it; a pair whose runtime behaviour differs is a harness fault: dropped and
counted. The base is analysed twice (two workspaces); a base whose two runs differ is C14's business: dropped and
counted. A base whose analysis dies belongs to C03: skipped and counted.

Mechanism signature: `<edit kind(s)>:<result table>:<what changed>`; for a pair of several edits every single edit is
re-run alone on the base and the failing single edits are reported instead (the case of a violation is always the
smallest failing pair). The known mechanism `...+import-list:<table>:shifted-by-preprocessing` (lian reports lines of
its preprocessed text: `import a, b` is split into two lines) only explains differences that vanish when both results
are taken back through the line shift the preprocessing introduces; anything left is reported on its own."""
import json
import os
import random
import sys

from lib import common, forkpool, lianrun, edits, c12_programs as P

PROP = "C12"
TABLES = ("call-edges", "bindings", "taint-flow-lines")
DECL_OPS_SKIP = ("variable_decl", "parameter_decl")
LINE_MOVING = ("blank-lines", "noop-stmt", "reorder-defs", "move-to-file")
RENAMES = ("rename-local", "rename-param", "rename-function", "rename-class", "rename-method")


# ---------------------------------------------------------------------------------------------------
# child: one analysis (+ one execution of the analysed program)

def analyse(job):
    """job: {id, lang, files, settings, run: {kind, main, entry, argvecs} | None} -> plain result dict"""
    import resource
    import shutil
    if job.get("cpu"):
        resource.setrlimit(resource.RLIMIT_CPU, (int(job["cpu"]), int(job["cpu"]) + 2))    # SIGXCPU ends a runaway analysis
    root = os.path.join(common.scratch(), "c12_" + job["id"])
    try:
        return _analyse(job, root)
    finally:
        shutil.rmtree(root, ignore_errors=True)      # the workspace is read inside this child; nothing is needed afterwards


def _analyse(job, root):
    import time
    src = os.path.join(root, "in")
    os.makedirs(src, exist_ok=True)
    for rel, text in job["files"].items():
        p = os.path.join(src, rel)
        os.makedirs(os.path.dirname(p), exist_ok=True)
        with open(p, "w", encoding="utf-8") as f:
            f.write(text)
    res = {"id": job["id"], "runtime": None}
    run = job.get("run")
    if run:
        if run["kind"] == "python":
            res["runtime"] = P.run_py_project(job["files"], run["main"], run.get("entry"), [tuple(a) for a in run.get("argvecs", [])])
        elif run["kind"] == "node":
            rundir = os.path.join(root, "noderun")
            for rel, text in job["files"].items():
                p = os.path.join(rundir, rel)
                os.makedirs(os.path.dirname(p), exist_ok=True)
                with open(p, "w", encoding="utf-8") as f:
                    f.write(text)
            res["runtime"] = P.run_node_project(rundir, run["main"])
        elif run["kind"] == "java":
            res["runtime"] = P.run_java_project(os.path.join(root, "javarun"), job["files"], run["driver"])
    pre = install_preprocess_recorder()
    coll = install_taint_collision_recorder()
    pedges = install_param_edge_recorder()
    s = job["settings"]
    st = lianrun.write_settings(os.path.join(root, "st"), entry=s["entry"], source=s["source"], sink=s["sink"], propagation=s["propagation"])
    ws = os.path.join(root, "ws")
    try:
        lianrun.run_lian(lianrun.lian_argv("run", job["lang"], [src], ws, st))
    except SystemExit as e:
        res["died"] = f"SystemExit({e.code})"
        return res
    except BaseException as e:   # noqa
        import traceback
        tb = traceback.extract_tb(e.__traceback__)
        inner = next((f"{os.path.basename(fr.filename)}:{fr.name}" for fr in reversed(tb) if "/lian/" in fr.filename), "?")
        res["died"] = f"{type(e).__name__}@{inner}"
        res["died_msg"] = str(e)[:300]
        return res
    res.update(extract(lianrun.ws_dir(ws), "in", pedges))
    res["cpu_s"] = round(time.process_time(), 2)
    res["preprocess_events"] = pre["events"]
    res["taint_state_calls"] = coll["calls"]
    res["taint_state_id_in_symbol_table"] = coll["collisions"]
    res["backmap"] = {}
    for rel, text in job["files"].items():
        outs = pre["by_text"].get(text)
        if outs is not None and outs != text:
            back = line_backmap(text, outs)
            pl = outs.split("\n")
            if any(pl[j].strip() and back[j] != j + 1 for j in range(len(back))):     # some statement line stands elsewhere
                res["backmap"][rel] = back
    return res


def install_preprocess_recorder():
    """Recording wrapper on EventManager.notify: what lian's text preprocessing turned each source text into."""
    import lian.events.event_manager as em
    from lian.config.constants import EVENT_KIND
    rec = {"events": 0, "by_text": {}}
    orig = em.EventManager.notify

    def wrapped(self, data, *a, **k):
        before = data.in_data if getattr(data, "event", None) == EVENT_KIND.ORIGINAL_SOURCE_CODE_READY else None
        r = orig(self, data, *a, **k)
        try:
            if isinstance(before, str):
                rec["events"] += 1
                if isinstance(data.out_data, str):
                    rec["by_text"][before] = data.out_data
        except Exception:
            pass
        return r
    em.EventManager.notify = wrapped
    return rec


def install_taint_collision_recorder():
    """Recording wrapper on the taint path finder's _propagate_from_state: counts the events in which the tag of a
    predecessor STATE node (STATE_INCLUSION edge) is written into the SYMBOL tag table under the state's id — the
    mechanism by which a symbol whose declaration statement id happens to equal that state id becomes tainted. Only
    used to CLASSIFY a taint-flow difference that has already been observed."""
    rec = {"calls": 0, "collisions": 0}
    try:
        import lian.taint.taint_analysis as ta
        from lian.config.constants import SFG_NODE_KIND
        cls = next(v for v in vars(ta).values() if isinstance(v, type) and hasattr(v, "_propagate_from_state") and hasattr(v, "propagate_taint"))
        orig = cls._propagate_from_state
    except Exception:
        return rec

    def wrapped(self, u, u_tag, worklist, in_worklist):
        try:
            rec["calls"] += 1
            before = set(self.taint_manager.symbols_to_bv)
            preds = [v.node_id for v in self.sfg.predecessors(u) if v.node_type == SFG_NODE_KIND.STATE]
        except Exception:
            before, preds = None, []
        r = orig(self, u, u_tag, worklist, in_worklist)
        try:
            if before is not None:
                now = self.taint_manager.symbols_to_bv
                rec["collisions"] += sum(1 for x in preds if x in now and x not in before)
        except Exception:
            pass
        return r
    cls._propagate_from_state = wrapped
    return rec


def line_backmap(orig, pre):
    """[original line of preprocessed line 1, 2, ...] by aligning the two texts line-wise."""
    import difflib
    la, lb = orig.split("\n"), pre.split("\n")
    sm = difflib.SequenceMatcher(None, [x.strip() for x in la], [x.strip() for x in lb], autojunk=False)
    back = [0] * len(lb)
    for tag, i1, i2, j1, j2 in sm.get_opcodes():
        for j in range(j1, j2):
            if tag == "equal":
                back[j] = i1 + (j - j1) + 1
            elif tag == "replace":
                back[j] = min(i1 + (j - j1), i2 - 1) + 1
            else:       # insert: lines that exist only in the preprocessed text belong to the last original line before them
                back[j] = max(i1, 1)
    return back


def install_param_edge_recorder():
    """Recording wrapper on GlobalStmtStates.add_arg_to_param_edge (P3): which argument symbol -> callee parameter
    SYMBOL_FLOW edges the state-flow graph received. That method matches STATE nodes of the whole graph by their
    frame-local `index` and takes the first suitable parent of a set; the recorded edge set is only used to CLASSIFY a
    taint-flow difference that has already been observed (do P and P' differ in these edges?)."""
    rec = {"calls": 0, "edges": set()}
    try:
        import lian.core.global_stmt_states as gss
        cls = gss.GlobalStmtStates
        orig = cls.add_arg_to_param_edge
    except Exception:
        return rec

    def wrapped(self, each_pair, status, parameter_name_symbol):
        rec["calls"] += 1
        sfg = self.sfg
        real = sfg.add_edge
        added = []

        def spy(u, v, w=None):
            added.append((u, v))
            return real(u, v, w)
        try:
            sfg.add_edge = spy
        except Exception:
            return orig(self, each_pair, status, parameter_name_symbol)
        try:
            return orig(self, each_pair, status, parameter_name_symbol)
        finally:
            try:
                del sfg.add_edge
            except Exception:
                pass
            for u, v in added:
                try:
                    rec["edges"].add((int(u.def_stmt_id), str(u.name), int(v.def_stmt_id), str(v.name)))
                except Exception:
                    pass
    cls.add_arg_to_param_edge = wrapped
    return rec


def extract(wsd, in_name, pedges=None):
    import pandas as pd
    out = {"edges": [], "bindings": [], "flows": []}
    gir = lianrun.read_bundles(wsd, "frontend", "gir")
    ms_path = os.path.join(wsd, "frontend", "module_symbols")
    if gir is None or not os.path.exists(ms_path):
        out["died"] = "no-frontend-artefacts"
        return out
    ms = pd.read_feather(ms_path)
    src_prefix = os.path.join(wsd, "src", in_name) + os.sep

    def rel_of(path):
        if not isinstance(path, str):
            return "?"
        if path.startswith(src_prefix):
            return path[len(src_prefix):]
        if path.startswith(wsd + os.sep):
            return "@" + path[len(wsd) + 1:]
        return "@" + path
    unit_rel = {}
    for r in lianrun.rows_as_dicts(ms):
        if r.get("unit_id") is not None and r.get("unit_path"):
            unit_rel[int(r["unit_id"])] = rel_of(r["unit_path"])
    info = {}
    block_parent = {}
    cols = [c for c in ("stmt_id", "parent_stmt_id", "operation", "name", "start_row", "unit_id") if c in gir.columns]
    for tup in gir[cols].itertuples(index=False, name=None):
        d = dict(zip(cols, tup))
        sid = d.get("stmt_id")
        if lianrun.isnull(sid):
            continue
        sid = int(sid)
        op = d.get("operation")
        par = d.get("parent_stmt_id")
        par = int(par) if not lianrun.isnull(par) else 0
        if op == "block_start":
            block_parent[sid] = par
            continue
        if op == "block_end":
            continue
        row = d.get("start_row")
        name = d.get("name")
        info[sid] = (unit_rel.get(int(d["unit_id"]), "?") if not lianrun.isnull(d.get("unit_id")) else "?",
                     None if lianrun.isnull(row) else int(row) + 1, op, None if lianrun.isnull(name) else str(name), par)

    def loc(sid):
        i = info.get(sid)
        return None if i is None else [i[0], i[1]]

    def qual(sid):
        chain = []
        cur = sid
        guard = 0
        while cur and guard < 200:
            guard += 1
            if cur in info:
                rel, line, op, name, par = info[cur]
                if op.endswith("_decl") and op not in DECL_OPS_SKIP and name is not None:
                    chain.append([rel, line, name])
                cur = par
            elif cur in block_parent:
                cur = block_parent[cur]
            else:
                break
        chain.reverse()
        return chain or [["?", None, "?"]]

    # call edges
    cp_path = os.path.join(wsd, "semantic_p3", "call_paths_p3")
    edges = set()
    if os.path.exists(cp_path):
        cp = pd.read_feather(cp_path)
        for path in cp["call_path"]:
            for tr in path:
                try:
                    a, c, b = int(tr[0]), int(tr[1]), int(tr[2])
                except Exception:
                    continue
                edges.add((a, c, b))
        out["have_call_paths"] = True
    for (a, c, b) in sorted(edges):
        out["edges"].append([qual(a), loc(c) or ["?", None], qual(b)])
    # bindings
    s2 = lianrun.read_bundles(wsd, "semantic_p1", "s2space_p1")
    seen = set()
    if s2 is not None and "symbol_or_state" in s2.columns:
        sub = s2[s2["symbol_or_state"] == 0]
        for sid, sym, name in sub[["stmt_id", "symbol_id", "name"]].itertuples(index=False, name=None):
            if lianrun.isnull(sid) or lianrun.isnull(name):
                continue
            name = str(name)
            if name.startswith("%") or name.startswith("@"):
                continue
            sid = int(sid)
            i = info.get(sid)
            if i is None or i[0].startswith("@") or i[0] == "?":
                continue        # occurrences inside lian's own extern/mock units are not results about the input
            if lianrun.isnull(sym) or int(sym) < 0:
                decl = ["unres"]
            else:
                sym = int(sym)
                if sym in info:
                    di = info[sym]
                    dn = di[3] if di[3] is not None and di[2].endswith("_decl") or di[2].endswith("import_stmt") and di[3] is not None else name
                    decl = ["decl", di[0], di[1], name if dn is None else dn]
                elif sym in unit_rel:
                    decl = ["unit", unit_rel[sym]]
                else:
                    decl = ["?"]
            key = (i[0], i[1], name, tuple(decl))
            if key not in seen:
                seen.add(key)
                out["bindings"].append([[i[0], i[1], name], decl])
        out["have_bindings"] = True
    # taint flows
    tp = os.path.join(wsd, "taint", "taint_data_flow.json")
    fl = set()
    if os.path.exists(tp):
        with open(tp) as f:
            data = json.load(f)
        for x in data:
            fl.add((rel_of(x.get("source_file_path")), x.get("source_line"), rel_of(x.get("sink_file_path")), x.get("sink_line")))
    out["flows"] = [list(x) for x in sorted(fl, key=str)]
    out["n_stmts"] = len(info)
    # argument -> parameter edges seen by the recording wrapper, in (file, line, name) terms
    out["param_edge_calls"] = (pedges or {}).get("calls", 0)
    pe = set()
    for (a, an, b, bn) in (pedges or {}).get("edges", ()):
        ia, ib = info.get(a), info.get(b)
        if ia is None or ib is None or an.startswith("%") or bn.startswith("%"):
            continue
        pe.add((ia[0], ia[1], an, ib[0], ib[1], bn))
    out["param_edges"] = [list(x) for x in sorted(pe, key=str)]
    return out


# ---------------------------------------------------------------------------------------------------
# parent: normalisation through the maps, comparison, classification

def _shift_fns(res):
    """Per-file preprocessed-line -> original-line functions from the preprocessing the child observed."""
    out = {}
    for rel, back in (res.get("backmap") or {}).items():
        out[rel] = (lambda line, back=back: back[line - 1] if 1 <= line <= len(back) else line - (len(back) - (back[-1] if back else 0)))
    return out


def shift_feature(lang, files):
    """Which input feature triggers lian's line-shifting preprocessing (part of the mechanism signature)."""
    import re
    feats = []
    for rel, t in sorted(files.items()):
        if lang == "python" and edits.py_import_list_extra(t) and "import-list" not in feats:
            feats.append("import-list")
        if lang == "php":
            if re.search(r"^\s*namespace\s+[^;{]+;", t, re.M) and "php-namespace-stmt" not in feats:
                feats.append("php-namespace-stmt")
            if re.search(r"/\*[^*]*\n.*?\*/", t, re.S) and "php-block-comment" not in feats:
                feats.append("php-block-comment")
    return "+" + "+".join(feats) if feats else "+preprocessed-text"


def _unshift_loc(fns, rel, line):
    if line is None or rel not in fns:
        return line
    return fns[rel](line)


def normalise(res, fns):
    """Plain result -> hashable tables; with `fns` (per-file preprocessed->original line functions) lines are taken back."""
    def comp(c):
        return (c[0], _unshift_loc(fns, c[0], c[1]), c[2])
    edges = set()
    for q1, l, q2 in res.get("edges", []):
        edges.add((tuple(comp(c) for c in q1), (l[0], _unshift_loc(fns, l[0], l[1])), tuple(comp(c) for c in q2)))
    binds = set()
    for occ, decl in res.get("bindings", []):
        d = tuple(decl)
        if d[0] == "decl":
            d = ("decl", d[1], _unshift_loc(fns, d[1], d[2]), d[3])
        binds.add((comp(occ), d))
    flows = set()
    for a, b, c, d in res.get("flows", []):
        flows.add((a, _unshift_loc(fns, a, b), c, _unshift_loc(fns, c, d)))
    return {"call-edges": edges, "bindings": binds, "taint-flow-lines": flows}


class Unmapped(Exception):
    pass


def map_tables(tabs, mp):
    """Base tables -> the coordinates of the edited project."""
    def comp(c):
        rel, line, name = c
        if line is None or rel.startswith("@") or rel == "?":
            return c
        m = mp.name(rel, line, name)
        if m is None:
            raise Unmapped(f"{c}")
        return tuple(m)

    def loc(l):
        rel, line = l
        if line is None or rel.startswith("@") or rel == "?":
            return l
        m = mp.line(rel, line)
        if m is None:
            raise Unmapped(f"{l}")
        return tuple(m)
    edges = {(tuple(comp(c) for c in q1), loc(l), tuple(comp(c) for c in q2)) for q1, l, q2 in tabs["call-edges"]}
    binds = set()
    for occ, d in tabs["bindings"]:
        if d[0] == "decl":
            r = comp((d[1], d[2], d[3]))
            d = ("decl",) + tuple(r)
        binds.add((comp(occ), d))
    flows = set()
    for a, b, c, d in tabs["taint-flow-lines"]:
        x, y = loc((a, b)), loc((c, d))
        flows.add((x[0], x[1], y[0], y[1]))
    return {"call-edges": edges, "bindings": binds, "taint-flow-lines": flows}


def restrict_edited(tabs, mp):
    """Drop what stands on inserted lines of the edited project; fold declaration aliases."""
    img = mp.image()
    alias = {}
    for k, alts in mp.aliases().items():
        for a in alts:
            alias[tuple(a)] = tuple(k)

    def present(rel, line):
        return line is None or rel.startswith("@") or rel == "?" or (rel, line) in img
    edges = {e for e in tabs["call-edges"] if present(*e[1])}
    binds = set()
    for occ, d in tabs["bindings"]:
        if not present(occ[0], occ[1]):
            continue
        if d[0] == "decl" and (d[1], d[2], d[3]) in alias:
            d = ("decl",) + alias[(d[1], d[2], d[3])]
        binds.add((occ, d))
    flows = {f for f in tabs["taint-flow-lines"] if present(f[2], f[3])}
    return {"call-edges": edges, "bindings": binds, "taint-flow-lines": flows}


def classify(table, only_a, only_b):
    """-> [(what, witness)] mechanism classes of one table's difference."""
    out = []
    only_b = set(only_b)
    used_b = set()
    if table == "call-edges":
        for e in sorted(only_a, key=str):
            m = next((x for x in only_b if x[0] == e[0] and x[1] == e[1] and x not in used_b), None)
            if m is not None:
                used_b.add(m)
                out.append(("callee-changed", {"expected": e, "got": m}))
                continue
            m = next((x for x in only_b if x[1] == e[1] and x[2] == e[2] and x not in used_b), None)
            if m is not None:
                used_b.add(m)
                out.append(("caller-changed", {"expected": e, "got": m}))
                continue
            out.append(("edge-lost", {"expected": e}))
        for x in sorted(only_b - used_b, key=str):
            out.append(("edge-added", {"got": x}))
    elif table == "bindings":
        for (occ, d) in sorted(only_a, key=str):
            m = next((x for x in only_b if x[0] == occ and x not in used_b), None)
            if m is None:
                out.append(("binding-lost", {"expected": (occ, d)}))
                continue
            used_b.add(m)
            nd = m[1]
            if d[0] == "unres" and nd[0] != "unres":
                what = "became-resolved"
            elif d[0] != "unres" and nd[0] == "unres":
                what = "became-unresolved"
            elif d[0] == "decl" and nd[0] == "decl":
                if d[1] != nd[1]:
                    what = "bound-to-definition-in-other-file"
                elif (nd[2] or 0) > (d[2] or 0):
                    what = "bound-to-later-definition"
                elif (nd[2] or 0) < (d[2] or 0):
                    what = "bound-to-earlier-definition"
                else:
                    what = "bound-to-other-name"
            else:
                what = "bound-to-other-kind"
            out.append((what, {"occurrence": occ, "expected": d, "got": nd}))
        for x in sorted(only_b - used_b, key=str):
            out.append(("binding-added", {"got": x}))
    else:
        if only_a and only_b:
            out.append(("flow-lines-changed", {"expected": sorted(only_a, key=str)[:4], "got": sorted(only_b, key=str)[:4]}))
        elif only_a:
            out.append(("flow-lost", {"expected": sorted(only_a, key=str)[:4]}))
        else:
            out.append(("flow-added", {"got": sorted(only_b, key=str)[:4]}))
    return out


def compare_pair(lang, base_files, edited_files, res_a, res_b, mp, line_preserving=False):
    """-> (diffs [(table, what, witness, known_mechanism_suffix)], sizes of the base tables).
    line_preserving: the edit sequence consists of renames only — no line moves, so the results must agree in whatever
    line coordinates lian reports; the harness' name map is keyed by SOURCE lines, therefore such a pair is compared
    in source coordinates (lines taken back through the preprocessing shift the child observed) when the raw comparison
    differs. The absolute line error itself is C10's subject, not a non-invariance."""
    def diff(fa, fb):
        ta = normalise(res_a, fa)
        tb = restrict_edited(normalise(res_b, fb), mp)
        tm = map_tables(ta, mp)
        return {t: (tm[t] - tb[t], tb[t] - tm[t]) for t in TABLES}, ta
    try:
        raw, ta = diff({}, {})
    except Unmapped as e:
        raw, ta = None, normalise(res_a, {})
        unm = str(e)
    sizes = {t: len(ta[t]) for t in TABLES}
    fa, fb = _shift_fns(res_a), _shift_fns(res_b)
    suffix = shift_feature(lang, base_files)
    out = []
    if raw is not None and not any(raw[t][0] or raw[t][1] for t in TABLES):
        return out, sizes
    comp = None
    if fa or fb:
        try:
            comp, _ = diff(fa, fb)
        except Unmapped as e:
            comp = None
            unm = str(e)
    if raw is None and comp is None:
        out.append(("result-lines", "line-outside-the-program", {"item": unm}, ""))
        return out, sizes
    for t in TABLES:
        r = raw[t] if raw is not None else (set([1]), set())
        if not (r[0] or r[1]):
            continue
        if comp is not None and not (comp[t][0] or comp[t][1]):
            if line_preserving:
                continue
            wit = {"expected": sorted(r[0], key=str)[:3], "got": sorted(r[1], key=str)[:3]} if raw is not None else {}
            out.append((t, "shifted-by-preprocessing", wit, suffix))
            continue
        use, partly = r, False
        if comp is not None and raw is not None and len(comp[t][0]) + len(comp[t][1]) < len(r[0]) + len(r[1]):
            use, partly = comp[t], True
        elif raw is None:
            use = comp[t]
        for what, wit in classify(t, use[0], use[1]):
            out.append((t, what, wit, ""))
        if partly and not line_preserving:
            out.append((t, "shifted-by-preprocessing", {"note": "part of the difference vanishes when lines are taken back through the import-list shift"}, suffix))
    return out, sizes


# ---------------------------------------------------------------------------------------------------
# edit application

def edit_kinds_for(prog):
    lang, origin = prog["lang"], prog["origin"]
    if lang == "python":
        if origin in ("gen_py", "gen_flow", "gen_multi", "gen_alias", "gen_nested"):
            return list(edits.KINDS_PY)
        if origin == "corpus":
            return ["blank-lines", "noop-stmt", "rename-local", "rename-param", "rename-function", "rename-class", "reorder-defs"]
        return ["blank-lines", "noop-stmt", "rename-local", "rename-param"]
    if origin in ("gen_flow", "template", "gen_multi", "gen_nested"):
        ks = ["blank-lines", "noop-stmt", "reorder-defs"] + [k for k in RENAMES if prog.get("renamable", {}).get(k)]
        if lang == "javascript" and origin in ("gen_flow", "gen_multi"):
            ks.append("move-to-file")       # ES-module import (probed: `require` destructuring is not resolved by the frontend)
        return ks
    return ["blank-lines", "noop-stmt"]


def apply_edit(prog, files, kind, seed, first, prev=()):
    """One edit on the current text. `first` = nothing has been edited yet (author-declared line ranges still hold).
    A planned kind may carry a modifier:
      move-to-file@lib     move a function out of a library file that OTHER files import (it becomes a re-exporting module)
      move-to-file@again   move the function that the previous move-to-file step moved, once more (same effect)
      reorder-defs@reverse the blocks of the first author-declared group in reverse order (subclass before superclass)
      move-to-file@existing move a function of the main file into an EXISTING module of the project (prog["existing_modules"])
      rename-function@=N / rename-method@=N   rename exactly the module-level function N / the class member N (one of
                           several declarations that share the spelling N)"""
    rng = random.Random(seed)
    lang = prog["lang"]
    kind, _, mod = kind.partition("@")
    rel = prog["main"] if prog.get("main") in files and (prog["main"] is not None) else None
    if rel is None or (len(files) > 1 and prog["origin"] == "corpus-dir"):
        rels = sorted(r for r in files if r.endswith(P.EXT[lang]))
        if not rels:
            return None
        rel = rng.choice(rels)
    libs = [r for r in prog.get("lib_files", []) if r in files]
    only = mod[1:] if mod.startswith("=") else None
    into = None
    helper_mode = False
    if kind == "move-to-file" and mod.startswith("existing"):
        only = mod.split("=", 1)[1] if "=" in mod else None
        cands = [r for r in prog.get("existing_modules", []) if r in files]
        if not cands or lang != "python":
            return None
        into = rng.choice(cands)
    if kind == "move-to-file" and mod == "again":
        last = next((st for st in reversed(prev) if st.kind == "move-to-file"), None)
        if last is None:
            return None
        rel, only, helper_mode = last.detail["helper"], last.detail["function"], True
    elif kind == "move-to-file" and (mod == "lib" or (libs and rng.random() < 0.5)):
        if not libs:
            return None
        rel, helper_mode = rng.choice(libs), True
        only = prog.get("lib_functions", {}).get(rel)
    elif libs and kind in ("blank-lines", "noop-stmt", "rename-local", "rename-param") and rng.random() < 0.3:
        rel = rng.choice(libs)
    multi = prog["origin"] == "corpus-dir" or rel != prog.get("main")
    prot = P.PROTECTED
    st = None
    if lang == "python":
        if kind == "blank-lines":
            st = edits.py_blank_lines(files, rng, rel, dense=True if "import-list" in prog.get("features", ()) and rng.random() < 0.8 else None)
        elif kind == "noop-stmt":
            st = edits.py_noop(files, rng, rel)
        elif kind == "reorder-defs":
            st = edits.py_reorder(files, rng, rel)
        elif kind == "move-to-file":
            st = edits.py_move_to_file(files, rng, rel, protected=prot, only=only, into=into)
        else:
            st = edits.py_rename(files, rng, rel, kind, protected=prot, multi_file=multi, only=only)
    else:
        repo = common.REPO
        if kind == "blank-lines":
            st = edits.ts_blank_lines(lang, files, rng, rel, repo)
        elif kind == "noop-stmt":
            st = edits.ts_noop(lang, files, rng, rel, repo)
        elif kind == "reorder-defs":
            if not first or rel != prog.get("main"):
                return None
            st = edits.ts_reorder(lang, files, rng, rel, repo, prog.get("def_groups", []), reverse=(mod == "reverse"),
                                  hierarchy=prog.get("hierarchy") or ())
        elif kind == "move-to-file":
            if lang != "javascript":
                return None
            if helper_mode:
                st = edits.js_move_to_file(files, rng, rel, repo, None, protected=prot)
            elif first:
                st = edits.js_move_to_file(files, rng, rel, repo, prog.get("def_groups", []), protected=prot)
        elif only is not None:
            types = ("property_identifier",) if kind == "rename-method" else ("identifier",)
            st = edits.ts_rename_tokens(lang, files, rng, rel, repo, only, types, kind)
        else:
            names = [n for n in prog.get("renamable", {}).get(kind, []) if n not in prot]
            st = edits.ts_rename(lang, files, rng, rel, repo, names, kind)
    if st is not None:
        st.detail = dict(st.detail, planned=kind + ("@" + mod if mod else ""))
        if kind == "move-to-file" and mod == "again":
            st.detail["second_move_of_the_same_function"] = True
    return st


def build_pair(prog, kinds, seed):
    """-> (steps, files') or None. Non-Python reordering uses the author's line ranges, so it goes first."""
    if prog["lang"] != "python":
        # author-declared line ranges only hold for the unedited text: at most one of reorder / move out of the main
        # file, and it goes first (moves out of a library/helper module need no author ranges and stay where they are)
        needs_ranges = ("reorder-defs", "reorder-defs@reverse", "move-to-file")
        lead = next((k for k in kinds if k in needs_ranges), None)
        if lead:
            kinds = [lead] + [k for k in kinds if k not in needs_ranges]
    files = dict(prog["files"])
    steps = []
    index = []
    for i, k in enumerate(kinds):
        st = apply_edit(prog, files, k, seed * 31 + i, first=(not steps), prev=steps)
        if st is None:
            continue
        steps.append(st)
        index.append(i)
        files = st.files
    if not steps:
        return None
    return steps, files, index


def pack_steps(steps):
    return [{"kind": s.kind, "detail": s.detail,
             "line_map": [[a, b, c, d] for (a, b), (c, d) in sorted(s.line_map.items())],
             "name_map": [[a, b, c, d] for (a, b, c), d in sorted(s.name_map.items())],
             "decl_alias": [[list(k), [list(a) for a in v]] for k, v in sorted(s.decl_alias.items())]} for s in steps]


def unpack_steps(packed):
    out = []
    for p in packed:
        out.append(edits.Step(p["kind"], None, {(a, b): (c, d) for a, b, c, d in p["line_map"]},
                              {(a, b, c): d for a, b, c, d in p["name_map"]},
                              {tuple(k): [tuple(a) for a in v] for k, v in p["decl_alias"]}, p.get("detail")))
    return out


def run_spec(prog):
    if not prog.get("runnable"):
        return None
    if prog["lang"] == "python":
        return {"kind": "python", "main": prog["main"], "entry": prog.get("entry", "main"), "argvecs": [list(a) for a in prog.get("argvecs", [(1, 2, 3)])]}
    if prog["lang"] == "javascript":
        return {"kind": "node", "main": prog["main"]}
    if prog["lang"] == "java" and prog.get("java_driver"):
        return {"kind": "java", "driver": prog["java_driver"]}
    return None


# ---------------------------------------------------------------------------------------------------
# workload

def select_bases(tier, rng, repo):
    thorough = tier == "thorough"
    bases = []
    off = rng.randrange(1 << 20)
    n_flow_py, n_genpy, n_flow_js = (9, 6, 7) if not thorough else (230, 140, 140)
    n_multi = (3, 1, 2) if not thorough else (50, 16, 30)          # Python from-import, Python `import lib`, JavaScript
    for i in range(n_flow_py):
        bases.append(P.gen_flow(off + i, "python", import_list=(i % 4 == 0)))
    for i in range(n_genpy):
        bases.append(P.from_gen_py(off + i, import_list=(i % 4 == 1)))
    for i in range(n_flow_js):
        bases.append(P.gen_flow(off + i, "javascript"))
    for i, b in enumerate(bases):
        # every third single-file generated program also gets "the same function moved twice" as its first pair
        if b["origin"] == "gen_flow" and i % 3 == 0:
            b["forced"] = [["move-to-file", "move-to-file@again"]]
    for (lang, form), n in zip((("python", "from"), ("python", "module"), ("javascript", "from")), n_multi):
        for i in range(n):
            g = P.gen_flow_multi(off + i, lang, form, repo=repo)
            if g is not None:
                g["forced"] = [["move-to-file@lib"], ["move-to-file@lib", rng.choice(["blank-lines", "rename-local", "noop-stmt", "move-to-file@again"])]]
                bases.append(g)
    # a bystander file imports a module under an alias; the move targets that existing module
    combos = [("as", "before"), ("from-as", "before"), ("dotted", "before"), ("as", "after")]
    if thorough:
        combos = [(f, sd) for f in P.ALIAS_FORMS for sd in ("before", "after")] * 8
    for i, (form, side) in enumerate(combos):
        g = P.gen_alias(off + i, form, side)
        mv = "move-to-file@existing" + (f"={g['alias_move_fn']}" if g.get("alias_move_fn") else "")
        g["forced"] = [[mv], [mv, rng.choice(["blank-lines", "rename-local", "noop-stmt", "reorder-defs"])],
                       [rng.choice(["rename-param", "blank-lines"]), mv]]
        bases.append(g)
    # classes nested two levels with a name that is a module-level function AND a member of the outer / inner class
    for lang, n in zip(("python", "javascript", "typescript"), (2, 1, 1) if not thorough else (20, 12, 8)):
        for i in range(n):
            g = P.gen_nested(off + i, lang)
            hp, pr = g["collide_outer"], g["collide_inner"]
            g["forced"] = [[f"rename-function@={hp}"], [f"rename-method@={hp}"], [f"rename-function@={pr}"], [f"rename-method@={pr}", "blank-lines"]]
            bases.append(g)
    tpls = P.templates()
    for t in tpls:
        if "hierarchy" in t["features"]:
            t["forced"] = [["reorder-defs@reverse"], ["reorder-defs@reverse", rng.choice(["blank-lines", "rename-local", "noop-stmt"])], ["reorder-defs"]]
    bases += tpls
    corp = P.corpus_files(repo)
    rng.shuffle(corp)
    n_corp = 9 if not thorough else len(corp)
    picked = []
    by_lang = {}
    for lang, path in corp:
        by_lang.setdefault(lang, []).append(path)
    if thorough:
        picked = corp
    else:
        langs = sorted(by_lang)
        i = 0
        while len(picked) < n_corp and any(by_lang.values()):
            lang = langs[i % len(langs)] if i >= 4 else "python" if by_lang.get("python") else langs[i % len(langs)]
            i += 1
            if by_lang.get(lang):
                picked.append((lang, by_lang[lang].pop()))
    for lang, path in picked:
        p = P.corpus_program(lang, path, repo)
        if p is not None:
            bases.append(p)
    dirs = P.corpus_dir_projects(repo)
    if not thorough:
        rng.shuffle(dirs)
        dirs = dirs[:2]
    bases += dirs
    return bases


def plan(bases, tier, rng):
    """-> [(base index, [edit kinds], seed)]"""
    thorough = tier == "thorough"
    out = []
    for bi, prog in enumerate(bases):
        kinds = edit_kinds_for(prog)
        if prog["origin"] in ("gen_flow", "gen_py"):
            n = 4 if not thorough else 5
        elif prog["origin"] == "gen_multi":
            n = 4 if not thorough else 6
        elif prog["origin"] == "gen_alias":
            n = 3 if not thorough else 5
        elif prog["origin"] == "gen_nested":
            n = 4 if not thorough else 7
        elif prog["origin"] == "template":
            n = 4 if not thorough else 24
        elif prog["origin"] == "corpus":
            n = 2 if not thorough else 3
        else:
            n = 2 if not thorough else 6
        seqs = []
        # every base starts with one single edit of a kind rotating through the applicable ones
        for j in range(n):
            r = rng.random()
            ln = 1 if (j == 0 or r < 0.5) else 2 if r < 0.8 else 3
            if j == 0:
                seq = [kinds[(bi + rng.randrange(len(kinds))) % len(kinds)]]
            else:
                seq = [rng.choice(kinds) for _ in range(ln)]
            if "import-list" in prog.get("features", ()) and j == 1:
                seq = ["blank-lines"] + [k for k in seq if k != "blank-lines"][:1]
            # a second move-to-file of a sequence moves the SAME function once more (out of the module the first move made)
            seen_mv = False
            s2 = []
            for k in seq:
                if k == "move-to-file":
                    if seen_mv:
                        k = "move-to-file@again"
                    seen_mv = True
                s2.append(k)
            if j < len(prog.get("forced", ())):
                s2 = list(prog["forced"][j])
            seqs.append(s2)
        for s in seqs:
            out.append((bi, s, rng.randrange(1 << 30)))
    return out


# ---------------------------------------------------------------------------------------------------

def _job(jid, prog, files, cpu=None):
    return {"id": jid, "lang": prog["lang"], "files": files, "settings": P.settings(prog["lang"]), "run": run_spec(prog), "cpu": cpu}


def _res_equal(a, b):
    return all(a.get(k) == b.get(k) for k in ("edges", "bindings", "flows", "died"))


def label_of(steps, suffix=""):
    ks = []
    for s in steps:
        if s.kind not in ks:
            ks.append(s.kind)
    return "+".join(ks) + suffix


def _param_edges_differ(res_a, res_b, mp):
    if not res_a.get("param_edge_calls") or not res_b.get("param_edge_calls"):
        return False
    img = mp.image()
    a = set()
    for (r1, l1, n1, r2, l2, n2) in res_a.get("param_edges", []):
        x = mp.name(r1, l1, n1) if l1 is not None and not r1.startswith("@") else (r1, l1, n1)
        y = mp.name(r2, l2, n2) if l2 is not None and not r2.startswith("@") else (r2, l2, n2)
        if x is None or y is None:
            continue
        a.add((tuple(x), tuple(y)))
    b = set()
    for (r1, l1, n1, r2, l2, n2) in res_b.get("param_edges", []):
        if (l1 is None or r1.startswith("@") or (r1, l1) in img) and (l2 is None or r2.startswith("@") or (r2, l2) in img):
            b.add(((r1, l1, n1), (r2, l2, n2)))
    return a != b


def judge(chk, prog, steps, edited_files, res_a, res_b, reducible, case_extra=None):
    """Compares one pair. Returns list of (signature, description, case) — empty when invariant."""
    mp = edits.Mapping(steps)
    fails = []
    case = {"lang": prog["lang"], "name": prog["name"], "origin": prog["origin"], "base_files": prog["files"], "edited_files": edited_files,
            "steps": pack_steps(steps), "runnable": bool(prog.get("runnable")), "main": prog.get("main"), "entry": prog.get("entry"),
            "argvecs": [list(a) for a in prog.get("argvecs", [])]}
    if res_b.get("died") == "no-frontend-artefacts":
        lab = next((k for k in LINE_MOVING if any(s.kind == k for s in steps)), label_of(steps))
        sig = f"{lab}:all-results:empty-after-edit"
        fails.append((sig, f"{prog['name']}: the base project has results, the edited one leaves no GIR / no result at all (and no error)", case))
        return fails, None
    if res_b.get("died"):
        sig = f"{label_of(steps)}:analysis:died-after-edit:{res_b['died']}"
        fails.append((sig, f"{prog['name']}: the base project is analysed, the edited one dies: {res_b['died']} {res_b.get('died_msg', '')}", case))
        return fails, None
    diffs, sizes = compare_pair(prog["lang"], prog["files"], edited_files, res_a, res_b, mp,
                                line_preserving=all(s.kind in RENAMES for s in steps))
    seen = set()
    for table, what, wit, suffix in diffs:
        if what == "shifted-by-preprocessing":
            # the mechanism does not depend on WHICH line-moving edit exposes it: the label is the first line-moving
            # edit kind of the sequence in a fixed order
            lab = next((k for k in LINE_MOVING if any(s.kind == k for s in steps)), label_of(steps)) + suffix
        else:
            lab = label_of(steps, suffix)
        if table == "taint-flow-lines" and what != "shifted-by-preprocessing" and \
                ((res_a.get("taint_state_id_in_symbol_table") or 0) + (res_b.get("taint_state_id_in_symbol_table") or 0)) > 0:
            # known mechanism: during propagation a STATE's id was used as a key of the SYMBOL tag table in one of the
            # two runs, so which symbols are tainted depends on numeric coincidences between state ids and statement ids
            what = what + ":state-id-written-into-symbol-tags"
        if table == "taint-flow-lines" and what.startswith("flow-") and ":" not in what and _param_edges_differ(res_a, res_b, mp):
            # known mechanism: P3's add_arg_to_param_edge gave the two state-flow graphs different argument->parameter
            # edges (it matches STATE nodes of the whole graph by their frame-local index and takes the first parent
            # of a set), so the taint path finder walks different graphs
            what = what + ":arg-to-param-edges-differ"
        sig = f"{lab}:{table}:{what}"
        if sig in seen:
            continue
        seen.add(sig)
        fails.append((sig, f"{prog['name']} [{', '.join(json.dumps(s.detail, default=str)[:160] for s in steps)}]: {json.dumps(wit, default=str)[:600]}", case))
    return fails, sizes


def main():
    lianrun.prepare_zygote()
    chk = common.Check(PROP, rule=(
        "a pair (P, edit sequence) counts as non-trivial when P's own result has >= 1 call edge, >= 1 resolved source-level "
        "binding or >= 1 taint flow; distinct_nontrivial = distinct (language, edit-kind sequence, non-empty result tables) "
        "classes among the compared non-trivial pairs"))
    thorough = chk.tier == "thorough"
    timeout = 400 if not thorough else 900       # wall-clock watchdog (generous: the machine may be loaded); the CPU limit decides first
    rp = os.environ.get("VERIF_REPLAY")
    rng = random.Random(chk.seed)
    if rp:
        with open(rp) as f:
            case = json.load(f)["case"]
        prog = {"lang": case["lang"], "name": case["name"], "origin": case["origin"], "files": case["base_files"], "runnable": case.get("runnable"),
                "main": case.get("main"), "entry": case.get("entry"), "argvecs": case.get("argvecs") or [(1, 2, 3)], "features": []}
        steps = unpack_steps(case["steps"])
        jobs = [_job("replay_a", prog, prog["files"]), _job("replay_b", prog, case["edited_files"])]
        got = {}
        for r in forkpool.run_jobs(analyse, jobs, timeout=timeout, tag="c12r"):
            if r.status != "ok":
                chk.note_inconclusive(f"replay job {r.item['id']}: {r.status} {str(r.value)[:200]}")
            else:
                got[r.item["id"]] = r.value
        if len(got) == 2:
            chk.evaluated(1)
            chk.count("pairs compared", 1)
            if got["replay_a"].get("died"):
                chk.note_inconclusive("replay: the base analysis died: " + got["replay_a"]["died"])
            elif got["replay_a"].get("runtime") != got["replay_b"].get("runtime"):
                chk.note_inconclusive("replay: runtime behaviour of the two programs differs (harness fault)")
            else:
                fails, sizes = judge(chk, prog, steps, case["edited_files"], got["replay_a"], got["replay_b"], False)
                for sig, desc, c in fails:
                    chk.fail(sig, desc, c)
        chk.nontrivial_case("replay-a"); chk.nontrivial_case("replay-b")
        sys.exit(chk.finish())

    bases = select_bases(chk.tier, rng, common.REPO)
    pairs_plan = plan(bases, chk.tier, rng)
    # build the edited projects (in the parent: pure text work)
    pairs = []
    for (bi, kinds, seed) in pairs_plan:
        prog = bases[bi]
        try:
            built = build_pair(prog, kinds, seed)
        except RecursionError:
            built = None
        if built is None:
            chk.count("planned pairs whose edits were not applicable to the text", 1)
            continue
        steps, files, index = built
        pairs.append({"bi": bi, "steps": steps, "files": files, "kinds": kinds, "seed": seed, "step_index": index})
    chk.count("base programs selected", len(bases))
    chk.count("pairs built", len(pairs))
    used = sorted({p["bi"] for p in pairs})
    screen = 20 if not thorough else 40          # CPU seconds (load independent), not wall-clock
    results = {}
    walls = []
    cpus = []

    def run_all(jobs, to, tag):
        for r in forkpool.run_jobs(analyse, jobs, timeout=to, tag=tag):
            walls.append(round(r.wall, 1))
            if r.status == "ok":
                results[r.item["id"]] = r.value
                cpus.append(r.value.get("cpu_s") or 0)
            elif r.status == "timeout" or (r.status == "signal" and r.value == 24):
                results[r.item["id"]] = {"timeout": True}
            else:
                results[r.item["id"]] = {"died": f"{r.status}:{str(r.value)[:120]}"}
    # phase 1: every base twice (two workspaces). A base that needs more than `screen` seconds is not used as workload
    # (a workload screen, not a verdict: how long an analysis may take is C13's subject)
    jobs = []
    for bi in used:
        jobs.append(_job(f"b{bi}_x", bases[bi], bases[bi]["files"], cpu=screen))
        jobs.append(_job(f"b{bi}_y", bases[bi], bases[bi]["files"], cpu=screen))
    run_all(jobs, timeout, "c12b")
    n_runs = len(jobs)
    ok_bases = {bi for bi in used if not any(results.get(f"b{bi}_{s}", {}).get(k) for s in "xy" for k in ("timeout", "died"))}
    # phase 2: the edited versions
    jobs = [_job(f"p{pi}", bases[p["bi"]], p["files"], cpu=screen * 5) for pi, p in enumerate(pairs) if p["bi"] in ok_bases]
    run_all(jobs, timeout, "c12p")
    n_runs += len(jobs)
    chk.count("lian runs (complete `run`, own child, own workspace)", n_runs)
    walls.sort()
    cpus.sort()
    chk.extra["job_cpu_seconds"] = {"median": cpus[len(cpus) // 2] if cpus else None, "p95": cpus[int(len(cpus) * 0.95)] if cpus else None,
                                    "max": cpus[-1] if cpus else None}
    chk.extra["job_wall_seconds"] = {"median": walls[len(walls) // 2] if walls else None, "p95": walls[int(len(walls) * 0.95)] if walls else None,
                                     "max": walls[-1] if walls else None}

    # bases
    good_base = {}
    for bi in used:
        prog = bases[bi]
        x, y = results.get(f"b{bi}_x", {}), results.get(f"b{bi}_y", {})
        if x.get("timeout") or y.get("timeout"):
            chk.count(f"dropped: base analysis needs more than the workload screen ({screen} CPU s)", 1)
            chk.extra.setdefault("bases_slower_than_screen", []).append(prog["name"])
            continue
        if x.get("died") or y.get("died"):
            chk.count("dropped: base analysis died (C03's business)", 1)
            chk.extra.setdefault("bases_whose_analysis_died", []).append([prog["name"], x.get("died") or y.get("died")])
            continue
        if not _res_equal(x, y):
            chk.count("dropped: two identical runs of the base differ (C14's business)", 1)
            chk.extra.setdefault("nondeterministic_bases", []).append(prog["name"])
            continue
        if prog.get("runnable") and (x.get("runtime") is None or x["runtime"][0] != "ok" or x["runtime"] != y.get("runtime")):
            chk.count("dropped: base program does not run cleanly under its runtime", 1)
            continue
        good_base[bi] = x
        chk.count("source texts seen by the recording wrapper on lian's text preprocessing (ORIGINAL_SOURCE_CODE_READY)", x.get("preprocess_events") or 0)
        if x.get("backmap"):
            chk.count("base programs in which lian's preprocessing moved lines", 1)
    chk.count("base programs analysed twice with equal results", len(good_base))

    # pairs
    failing = []
    per_cell = {}
    for pi, p in enumerate(pairs):
        bi = p["bi"]
        if bi not in good_base:
            continue
        prog = bases[bi]
        ra, rb = good_base[bi], results.get(f"p{pi}", {})
        if rb.get("timeout"):
            chk.count("dropped: edited analysis hit the watchdog", 1)
            chk.note_inconclusive(f"watchdog fired on an edited version of {prog['name']}")
            continue
        if prog.get("runnable") and rb.get("runtime") != ra.get("runtime"):
            chk.count("dropped: runtime behaviour differs after the edit (harness fault)", 1)
            chk.extra.setdefault("harness_faults", []).append([prog["name"], [s.kind for s in p["steps"]], str(rb.get("runtime"))[:200]])
            continue
        fails, sizes = judge(chk, prog, p["steps"], p["files"], ra, rb, True)
        chk.evaluated(1)
        chk.count("pairs compared", 1)
        lab = label_of(p["steps"])
        for s in p["steps"]:
            cell = f"{prog['lang']}/{s.kind}"
            per_cell[cell] = per_cell.get(cell, 0) + 1
        chk.count(f"pairs compared: {prog['lang']}", 1)
        chk.count(f"pairs compared: origin {prog['origin']}", 1)
        chk.count(f"pairs compared with {len(p['steps'])} edit(s)", 1)
        if prog.get("runnable"):
            chk.count("pairs whose two programs were executed and behaved identically", 1)
        moves = [s for s in p["steps"] if s.kind == "move-to-file"]
        reexp = [s for s in moves if s.detail.get("imported_by")]
        if reexp:
            chk.count("pairs in which a function that another file imports was moved out (re-export chain)", 1)
            fns = {s.detail["function"] for s in reexp}
            if any(e[2] and e[2][-1][2] in fns for e in ra.get("edges", [])):
                chk.count("re-export pairs whose base call graph has an edge into the moved function", 1)
            forms = [f for f in prog.get("features", ()) if f.startswith("import-") and f != "import-list"]
            for f in forms:
                chk.count(f"re-export pairs: base uses {f}", 1)
        into = [s for s in moves if s.detail.get("into_existing_module") and s.detail.get("aliased_by")]
        if into:
            chk.count("pairs in which a function was moved into an existing module that a bystander file imports under an alias", 1)
            for f in prog.get("features", ()):
                if f.startswith("alias-") or f.startswith("aliaser-"):
                    chk.count(f"alias pairs: {f}", 1)
            fns = {s.detail["function"] for s in into}
            if any(e[2] and e[2][-1][2] in fns for e in ra.get("edges", [])):
                chk.count("alias pairs whose base call graph has an edge into the moved function", 1)
        if "nested-classes" in prog.get("features", ()):
            col = {prog.get("collide_outer"), prog.get("collide_inner")}
            ren = [s for s in p["steps"] if s.kind in RENAMES and s.detail.get("old") in col]
            if ren:
                chk.count("pairs renaming one of two declarations that share a name across a class body and the module level (nested classes)", 1)
                if any(s.detail.get("old") == prog.get("collide_outer") for s in ren):
                    chk.count("nested-class pairs: the colliding member belongs to the OUTER class", 1)
                if any(b[0][2] in col and b[1][0] == "decl" for b in ra.get("bindings", [])):
                    chk.count("nested-class pairs whose base binds the bare name used in the inner-class method to a declaration", 1)
        if any(s.detail.get("second_move_of_the_same_function") for s in moves):
            chk.count("pairs with two moves of the same function", 1)
        if any(s.kind == "reorder-defs" and s.detail.get("subclass_before_superclass") for s in p["steps"]):
            chk.count("pairs whose reordering put a subclass before its superclass", 1)
            if any(e[2] and e[2][-1][2] in ("run", "store") for e in ra.get("edges", [])):
                chk.count("subclass-first pairs whose base call graph has an edge into an inherited method", 1)
        if "hierarchy" in prog.get("features", ()) or "hierarchy-fixed-order" in prog.get("features", ()):
            chk.count("pairs on class hierarchies with calls to inherited methods", 1)
        if sizes is not None:
            ne = [t for t in TABLES if sizes[t] > 0]
            for t in ne:
                chk.count(f"pairs with non-empty base {t}", 1)
            if ne:
                chk.nontrivial_case((prog["lang"], lab, "+".join(ne)))
            chk.count("base call edges compared", sizes["call-edges"])
            chk.count("base bindings compared", sizes["bindings"])
            chk.count("base taint flows compared", sizes["taint-flow-lines"])
            if "import-list" in prog.get("features", ()):
                chk.count("pairs whose base has an `import a, b` statement", 1)
        if fails:
            failing.append((pi, fails))
        elif len(chk.samples) < 4 and sizes and sizes["call-edges"] and sizes["taint-flow-lines"]:
            chk.sample({"base": prog["name"], "lang": prog["lang"], "edits": [s.detail | {"kind": s.kind} for s in p["steps"]],
                        "base_result_sizes": sizes, "edited_text": p["files"].get(prog.get("main") or "", "")[:1500]})
    chk.extra["pairs_per_language_and_edit_kind"] = dict(sorted(per_cell.items()))

    # reduction: a failing pair of several edits -> the single edits alone
    red_jobs = []
    red_meta = {}
    for pi, fails in failing:
        p = pairs[pi]
        if len(p["steps"]) <= 1 or len(red_jobs) >= 48:
            continue
        prog = bases[p["bi"]]
        for k, st in enumerate(p["steps"]):
            if k == 0:
                built = ([st], st.files)          # the first edit alone is exactly the pair's first step
            else:
                try:
                    one = apply_edit(prog, dict(prog["files"]), st.detail.get("planned", st.kind), p["seed"] * 31 + p["step_index"][k], first=True)
                except RecursionError:
                    one = None
                built = ([one], one.files) if one is not None else None
            if built is None:
                continue
            jid = f"r{pi}_{k}"
            red_meta[jid] = (pi, built)
            red_jobs.append(_job(jid, prog, built[1]))
    reduced = {}
    if red_jobs:
        for r in forkpool.run_jobs(analyse, red_jobs, timeout=timeout, tag="c12red"):
            if r.status == "ok":
                pi, (steps, files) = red_meta[r.item["id"]]
                prog = bases[pairs[pi]["bi"]]
                ra = good_base[pairs[pi]["bi"]]
                if prog.get("runnable") and r.value.get("runtime") != ra.get("runtime"):
                    continue
                f2, _ = judge(chk, prog, steps, files, ra, r.value, False)
                if f2:
                    reduced.setdefault(pi, []).extend(f2)
        chk.count("reduction runs (single edits of failing multi-edit pairs)", len(red_jobs))
    for pi, fails in failing:
        chk.count("pairs whose results differ", 1)
        use = fails
        if pi in reduced:
            # the single-edit pairs explain the classes they reproduce; classes of the full pair that no single edit
            # reproduces stay reported with the full label
            single_classes = {s.split(":", 1)[1] for s, _, _ in reduced[pi]}
            use = reduced[pi] + [f for f in fails if f[0].split(":", 1)[1] not in single_classes]
        for sig, desc, case in use:
            chk.fail(sig, desc, case)

    q = 1 if not thorough else 20
    chk.require("pairs compared", 80 * q)
    chk.require("pairs compared: python", 40 * q)
    chk.require("pairs compared: javascript", 12 * q)
    for lang in ("java", "go", "c", "php", "typescript"):
        chk.require(f"pairs compared: {lang}", 1 if not thorough else 10)
    chk.require("pairs with non-empty base call-edges", 50 * q)
    chk.require("pairs with non-empty base bindings", 70 * q)
    chk.require("pairs with non-empty base taint-flow-lines", 30 * q)
    chk.require("pairs whose two programs were executed and behaved identically", 50 * q)
    chk.require("pairs whose base has an `import a, b` statement", 6 * q)
    chk.require("source texts seen by the recording wrapper on lian's text preprocessing (ORIGINAL_SOURCE_CODE_READY)", 30 * q)
    chk.require("pairs in which a function that another file imports was moved out (re-export chain)", 8 if not thorough else 150)
    chk.require("re-export pairs whose base call graph has an edge into the moved function", 4 if not thorough else 80)
    chk.require("pairs with two moves of the same function", 3 if not thorough else 60)
    chk.require("pairs whose reordering put a subclass before its superclass", 4 if not thorough else 12)
    chk.require("subclass-first pairs whose base call graph has an edge into an inherited method", 3 if not thorough else 10)
    chk.require("pairs on class hierarchies with calls to inherited methods", 10 if not thorough else 60)
    chk.require("pairs in which a function was moved into an existing module that a bystander file imports under an alias", 6 if not thorough else 120)
    chk.require("alias pairs whose base call graph has an edge into the moved function", 3 if not thorough else 60)
    chk.require("alias pairs: aliaser-before", 4 if not thorough else 60)
    for f in P.ALIAS_FORMS:
        chk.require(f"alias pairs: alias-{f}", 1 if not thorough else 25)
    chk.require("pairs renaming one of two declarations that share a name across a class body and the module level (nested classes)", 8 if not thorough else 100)
    chk.require("nested-class pairs: the colliding member belongs to the OUTER class", 4 if not thorough else 50)
    chk.require("nested-class pairs whose base binds the bare name used in the inner-class method to a declaration", 6 if not thorough else 80)
    chk.require("pairs compared: origin corpus", 6 * q)
    chk.require("pairs compared: origin template", 12 if not thorough else 60)
    chk.assumptions += [
        f"base programs whose own analysis needs more than {screen} CPU seconds are not used as workload (counted; analysis cost is C13's subject); "
        f"an edited version that exceeds {screen * 5} CPU s or the wall-clock watchdog makes the run inconclusive",
        "an edit counts as meaning-preserving when the editor's static proof holds (Python: ast equality modulo the edit + symtable "
        "agreement for renames; other languages: tree-sitter token sequence equal modulo the edit, inserted empty statement directly "
        "inside a block) AND, for generated Python/JavaScript programs, CPython/node produce identical out()/sink() records and return values",
        "the Java class-hierarchy templates are compiled and run (javac/java, sink/out redirected to a recorder) for the base and every "
        "edited version, so a permutation that puts a subclass before its superclass is confirmed valid and behaviour-preserving; the PHP "
        "hierarchy template relies on PHP's rule that a parentless class is hoisted (no php binary here); TypeScript/JavaScript classes are "
        "never permuted across an `extends` edge (class declarations are not hoisted there)",
        "the other Java/Go/C/PHP/TypeScript templates and corpus programs are not executed (no go/php/tsc here): reordering relies on the languages' "
        "declaration hoisting rules and on the template author's independence declaration",
        "taint rules name parameters/functions only (no file, no line); identifiers named in rules (main, tainted, sink, ...) are never renamed",
        "results standing on inserted lines (the no-op statement itself, the new import statement) are not part of the comparison",
    ]
    sys.exit(chk.finish())


if __name__ == "__main__":
    main()
