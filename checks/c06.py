"""C06 — reaching definitions are sound and flow-sensitive.

Observation: a recording wrapper on analyze_reachable_symbols captures, per analysis frame and statement, the union
over all visits of the (symbol, defining statement) pairs in in_symbol_bits, and the symbols each statement defines.
Oracles: (i) soundness — dynamic last-definition events of the reference executor (validated against CPython / node; for
PHP and Go against node on the JavaScript rendering of the same skeleton and decision vector) on decision vectors with
every loop taken 0 or 1 times; frontends: Python, JavaScript, TypeScript, PHP, Go; (ii) precision — a textbook reaching-definitions worklist solver
run on lian's own CFG with lian's own per-statement definition sets: equality on loop-free methods, containment
(lian's set inside the may-reach solution) on methods with loops."""
import json
import os
import random
import sys
import zlib

from lib import common, forkpool, lianrun
from checks import c04

PROP = "C06"
BATCH = 40
LANGS = ["python", "javascript", "typescript", "php", "go"]
# compensation switches of the reference executor per frontend (see checks/c04.py)
VM_SWITCHES = {"typescript": ("expression-stmt-rows",)}
N_PROGRAMS = {"python": (300, 4000), "javascript": (300, 4000), "typescript": (300, 3000), "php": (300, 3000), "go": (300, 3000)}
KINDS = ("s", "if", "while", "for", "forin", "dowhile", "break", "continue", "return")
LOOP_OPS = ("while_stmt", "for_stmt", "forin_stmt", "for_value_stmt", "dowhile_stmt")


def install_recorder():
    import lian.core.prelim_semantics as ps
    rec = {"frames": {}, "calls": 0}
    orig = ps.P2PrelimSemanticAnalysis.analyze_reachable_symbols

    def wrapped(self, stmt_id, stmt, frame):
        r = orig(self, stmt_id, stmt, frame)
        rec["calls"] += 1
        try:
            key = (int(self.analysis_phase_id), int(frame.method_id), id(frame))
            fr = rec["frames"].setdefault(key, {})
            ent = fr.setdefault(int(stmt_id), {"in": set(), "gen": set(), "visits": 0, "last_in": None})
            status = frame.stmt_id_to_status[stmt_id]
            cur = set()
            for node in status.in_symbol_bits:
                sym = frame.symbol_state_space[node.index]
                cur.add((int(node.symbol_id), int(node.stmt_id), getattr(sym, "name", None)))
            ent["in"] |= cur
            ent["last_in"] = cur
            ent["visits"] += 1
            for idx in [status.defined_symbol] + list(status.implicitly_defined_symbols):
                sym = frame.symbol_state_space[idx] if idx is not None and idx >= 0 else None
                if sym is not None and hasattr(sym, "symbol_id") and hasattr(sym, "name"):
                    ent["gen"].add((int(sym.symbol_id), sym.name))
        except Exception as e:           # the recorder must never disturb the analysis
            rec.setdefault("errors", []).append(repr(e))
        return r
    ps.P2PrelimSemanticAnalysis.analyze_reachable_symbols = wrapped
    return rec


def classical_rd(g, gen, nokill=()):
    """g: {src: set(dst)}; gen: {stmt: {symbol_id}}. Returns in-sets {stmt: {(symbol_id, def stmt)}} (may analysis).
    Statements in `nokill` (loop headers: the loop variable is not assigned when the loop exits) generate without killing."""
    nodes = set(g)
    preds = {}
    for a, ds in g.items():
        for b in ds:
            nodes.add(b)
            preds.setdefault(b, set()).add(a)
    ins = {n: set() for n in nodes}
    outs = {n: set() for n in nodes}
    work = sorted(nodes)
    while work:
        n = work.pop()
        i = set()
        for p in preds.get(n, ()):
            i |= outs[p]
        ins[n] = i
        gs = gen.get(n, set())
        o = {(s, d) for (s, d) in i if s not in gs or n in nokill} | {(s, n) for s in gs}
        if o != outs[n]:
            outs[n] = o
            for s in g.get(n, ()):
                work.append(s)
    return ins


def analyse_batch(job):
    import pandas as pd
    from lib import girvm, gen_cf
    lang, tag, skels, enable_p2 = job
    rec = install_recorder()
    sc = common.scratch()
    src_dir = os.path.join(sc, f"c06src_{tag}")
    os.makedirs(src_dir, exist_ok=True)
    case_rp = None
    if tag == "replay":
        with open(os.environ["VERIF_REPLAY"]) as f:
            case_rp = json.load(f)["case"]
    if case_rp is not None and "args" in case_rp:
        # a stored execution of a frontend whose ground truth comes from the JavaScript twin
        progs = [(f"s0000.{gen_cf.DU_RENDERERS[lang].ext}", "replay", case_rp["src"], [(case_rp["args"], case_rp["gt_vector"])], case_rp["gt_src"])]
    else:
        progs = c04.build_programs(lang, skels, renderers=gen_cf.DU_RENDERERS, cap=32)
    for name, label, text, runs, gt_text in progs:
        with open(os.path.join(src_dir, name), "w") as f:
            f.write(text)
    rcls = gen_cf.DU_RENDERERS[lang]
    entry_name = getattr(rcls, "entry", "main")
    ret_none = getattr(rcls, "ret_none", None)
    st = lianrun.write_settings(os.path.join(sc, f"c06st_{tag}"), entry=f"- method_list: ['{entry_name}']\n")
    ws = os.path.join(sc, f"c06ws_{tag}")
    lianrun.run_lian(lianrun.lian_argv("semantic", lang, [src_dir], ws, st, ["-q"] + (["--enable-p2"] if enable_p2 else [])))
    wsd = lianrun.ws_dir(ws)
    gir = lianrun.rows_as_dicts(lianrun.read_bundles(wsd, "frontend", "gir"))
    cfgdf = lianrun.read_bundles(wsd, "semantic_p1", "cfg")
    ms = lianrun.rows_as_dicts(pd.read_feather(os.path.join(wsd, "frontend", "module_symbols")))
    unit_of = {os.path.basename(r["unit_path"]): int(r["unit_id"]) for r in ms if r.get("unit_id") is not None and not r.get("is_extern")}
    rows_by_unit = {}
    for r in gir:
        rows_by_unit.setdefault(int(r.get("unit_id", -1)), []).append(r)
    cfg = {}
    if cfgdf is not None:
        for r in lianrun.rows_as_dicts(cfgdf):
            cfg.setdefault(int(r["method_id"]), {}).setdefault(int(r["src_stmt_id"]), set()).add(int(r["dst_stmt_id"]))
    frames_by_method = {}
    for (phase, mid, fid), fr in rec["frames"].items():
        frames_by_method.setdefault(mid, []).append((phase, fr))
    res = {"lang": lang, "p2": enable_p2, "fails": [], "recorder_calls": rec["calls"], "uses_checked": 0, "stmts_compared": 0,
           "loopfree_methods": 0, "loopy_methods": 0, "validated": 0, "unvalidated": 0, "programs": 0, "distinct_uses": 0,
           "methods_not_analysed": 0, "multi_visit_stmts": 0, "recorder_errors": rec.get("errors", [])[:3]}
    node_gt = None
    if lang != "python":
        got = c04.node_ground_truth_batch([(gt_text, [g for _, g in runs]) for _, _, _, runs, gt_text in progs])
        if got is not None:
            node_gt = {name: g for (name, _, _, _, _), g in zip(progs, got)}
    for name, label, text, runs, gt_text in progs:
        u = unit_of.get(name)
        rows = rows_by_unit.get(u)
        if rows is None:
            continue
        res["programs"] += 1
        vecs = [g for _, g in runs]
        unit_probe = girvm.Unit(u, rows, lang)
        mrow = next((r for r in rows if r.get("operation") == "method_decl" and r.get("name") == entry_name), None)
        if mrow is None:
            continue
        mid = mrow["stmt_id"]
        frs = frames_by_method.get(mid)
        if not frs:
            res["methods_not_analysed"] += 1
            continue
        own, _ = c04.owned_rows(unit_probe, mrow)
        n_loops = sum(1 for s in own if unit_probe.row_by_id.get(s, {}).get("operation") in LOOP_OPS)
        loopy = n_loops > 0
        res["loopy_methods" if loopy else "loopfree_methods"] += 1
        g = cfg.get(mid, {})
        case = {"lang": lang, "src": text, "label": label, "enable_p2": enable_p2}
        # (ii) precision / exactness against the textbook solution on lian's own CFG and gen sets
        for phase, fr in frs:
            gen = {s: {sym for sym, _ in e["gen"]} for s, e in fr.items()}
            headers = {s for s in g if unit_probe.row_by_id.get(s, {}).get("operation") in LOOP_OPS}
            rd = classical_rd(g, gen, nokill=headers)
            res["multi_visit_stmts"] += sum(1 for e in fr.values() if e["visits"] > 1)
            reported = set()
            for s, e in fr.items():
                if s not in rd:
                    continue
                res["stmts_compared"] += 1
                lian_in = {(sym, d) for sym, d, _ in e["in"]}
                extra = lian_in - rd[s]
                missing = rd[s] - lian_in
                op = unit_probe.row_by_id.get(s, {}).get("operation")
                if extra and "extra" not in reported:
                    reported.add("extra")
                    nm = [n for sym, d, n in e["in"] if (sym, d) in extra][:3]
                    res["fails"].append((f"killed-definition-retained:phase{phase}" + (":loopy" if loopy else ""),
                                         f"{lang} stmt {s} ({op}): in-set holds definitions {sorted(extra)[:3]} of {nm} that are overwritten on every CFG path",
                                         dict(case, stmt=s)))
                if missing and not loopy and "missing" not in reported:
                    reported.add("missing")
                    res["fails"].append((f"loop-free-in-set-smaller-than-classical-solution:phase{phase}",
                                         f"{lang} stmt {s} ({op}): classical reaching definitions {sorted(missing)[:3]} absent from the in-set",
                                         dict(case, stmt=s)))
        # (i) soundness against dynamic last-definition events
        if lang == "python":
            gts = c04.py_ground_truth(text, vecs)
        elif node_gt is not None:
            gts = node_gt.get(name)
        else:
            gts = c04.node_ground_truth(gt_text, vecs)
        if gts is None:
            gts = [None] * len(vecs)
        seen_uses = set()
        reported = set()
        for (args, v), gt in zip(runs, gts):
            vm = girvm.VM([girvm.Unit(u, rows, lang)], lang, budget=20000, record_events=True, switches=VM_SWITCHES.get(lang, ()))
            status, ret = "ok", None
            exec_case = dict(case, vector=v) if gt_text == text else dict(case, vector=v, args=args, gt_src=gt_text, gt_vector=v)
            try:
                ret = vm.run_entry(vm.units[0], entry_name, list(args))
            except girvm.GirThrow:
                status = "throw"
            except girvm.VMError:
                res["unvalidated"] += 1
                continue
            outs = []
            for o in (vm.outputs if lang in ("python", "javascript", "typescript") else [(x,) for x in vm.raw_outputs]):
                try:
                    outs.append(int(o[0]))
                except Exception:
                    outs.append(o[0])
            if gt is None or gt["status"] != status or gt["outputs"] != outs or \
               (status == "ok" and (ret_none if gt["ret"] is None else gt["ret"]) != ret):
                res["unvalidated"] += 1
                continue
            res["validated"] += 1
            for frm in vm.activations:
                if frm.method_id != mid:
                    continue
                scopes_of_frame = set()
                defs_in_frame = {}
                for ev in frm.events:
                    if ev[0] == "def":
                        scopes_of_frame.add(ev[4])
                for ev in frm.events:
                    if ev[0] != "use":
                        continue
                    _, s, nm, dstmt, scope_id = ev
                    if dstmt is None or scope_id not in scopes_of_frame:
                        continue            # not a local of this activation (global / closure / external)
                    if (s, nm, dstmt) in seen_uses:
                        continue
                    seen_uses.add((s, nm, dstmt))
                    res["uses_checked"] += 1
                    for phase, fr in frs:
                        e = fr.get(s)
                        if e is None:
                            sig = f"use-statement-never-analysed:phase{phase}"
                            if sig not in reported:
                                reported.add(sig)
                                res["fails"].append((sig, f"{lang} stmt {s} executes and reads {nm} but analyze_reachable_symbols never visited it",
                                                     dict(exec_case, stmt=s)))
                            continue
                        if not any(d == dstmt and n == nm for _, d, n in e["in"]):
                            op = unit_probe.row_by_id.get(s, {}).get("operation")
                            dop = unit_probe.row_by_id.get(dstmt, {}).get("operation")
                            def_in_loop = c04.enclosing_loop(unit_probe, dstmt, *parents(unit_probe, rows)) is not None or dop in LOOP_OPS
                            if redeclared_between(frm.trace, unit_probe.row_by_id, dstmt, s, nm):
                                # the frontend emitted another variable_decl for a variable that is already declared (PHP: one in
                                # front of every plain assignment); lian counts it as a definition, so it kills the real one
                                sig = f"reaching-definition-missed:phase{phase}:definition-killed-by-redeclaration"
                            elif not def_in_loop:
                                sig = f"reaching-definition-missed:phase{phase}:definition-outside-any-loop"
                            else:
                                sig = f"reaching-definition-missed:phase{phase}:definition-in-loop"
                                # The open finding is "the bounded number of rounds is used up before a loop-body definition has
                                # propagated". It explains a miss only where the bound was actually reached: calibrated on the healthy
                                # tree, in every method with such a miss some statement had been analysed ROUNDS_REACHED times in that
                                # phase. A miss in a method whose statements were all analysed fewer times has another cause.
                                maxv = max([fr[x]["visits"] for x in own if x in fr] or [0])
                                if maxv < ROUNDS_REACHED[(phase, bool(enable_p2))]:
                                    sig += ":round-budget-not-reached"
                            if sig not in reported:
                                reported.add(sig)
                                res["fails"].append((sig, f"{lang} stmt {s} ({op}) read {nm} last defined at {dstmt} ({dop}) in a real execution, "
                                                          f"but the in-set over all {e['visits']} visits has only definitions at "
                                                          f"{sorted(d for _, d, n in e['in'] if n == nm)}",
                                                     dict(exec_case, stmt=s, name=nm, def_stmt=dstmt)))
        res["distinct_uses"] += len(seen_uses)
    import shutil
    for d in (src_dir, ws, os.path.join(sc, f"c06st_{tag}")):
        shutil.rmtree(d, ignore_errors=True)
    return res


# visits of the most-analysed statement of a method in which the healthy tree misses a loop-body definition, per (phase, --enable-p2)
ROUNDS_REACHED = {(2, True): 2, (2, False): 2, (3, True): 2, (3, False): 3}


def redeclared_between(trace, row_by_id, dstmt, use_stmt, name):
    """Did a variable_decl row for `name` execute between an execution of the definition dstmt and a later execution of
    use_stmt with no other execution of dstmt in between?"""
    for i, sid in enumerate(trace):
        if sid != use_stmt:
            continue
        seen_decl = False
        for j in range(i - 1, -1, -1):
            t = trace[j]
            if t == dstmt:
                if seen_decl:
                    return True
                break
            r = row_by_id.get(t, {})
            if r.get("operation") == "variable_decl" and r.get("name") == name:
                seen_decl = True
    return False


def parents(unit, rows):
    cached = getattr(unit, "_verif_parents", None)
    if cached is None:
        parent_of = {}
        for r in rows:
            if r.get("operation") == "block_start":
                parent_of[("b", r["stmt_id"])] = r.get("parent_stmt_id")
        for r in rows:
            if r.get("operation") in ("block_start", "block_end"):
                continue
            blk = r.get("parent_stmt_id")
            parent_of[r["stmt_id"]] = parent_of.get(("b", blk), blk) if blk else None
        cached = (parent_of, dict(unit.row_by_id))
        unit._verif_parents = cached
    return cached


def replay_batch(job):
    lang, tag, _, enable_p2 = job
    with open(os.environ["VERIF_REPLAY"]) as f:
        case = json.load(f)["case"]
    from lib import gen_cf

    class Fixed:
        ext = gen_cf.DU_RENDERERS[lang].ext
        entry = getattr(gen_cf.DU_RENDERERS[lang], "entry", "main")
        ret_none = getattr(gen_cf.DU_RENDERERS[lang], "ret_none", None)

        def render(self, sk):
            return case["src"]

        def conv_vector(self, v, sk):
            return v
    gen_cf.DU_RENDERERS[lang] = Fixed
    if "vector" in case:
        gen_cf.vectors = lambda d, c, r: [case["vector"]]
        return analyse_batch((lang, tag, [("replay", [], [(0,)])], enable_p2))
    # no stored vector: derive the decision count from the source text
    n = case["src"].count("d[")
    doms = [(0, 1)] * max(n, 1)
    real = gen_cf.DU_RENDERERS[lang]
    return analyse_batch((lang, tag, [("replay", [], doms)], enable_p2))


def main():
    lianrun.prepare_zygote(warm=False)
    from lib import gen_cf
    chk = common.Check(PROP, rule=(
        "intraprocedural def/use skeletons (assignments and uses over 3 variables inside every nesting of if/else, while, "
        "counted for, for-in, do-while, break, continue, early return), Python, JavaScript, TypeScript, PHP and Go, with and without --enable-p2; "
        "decision vectors enumerated with loops taken 0 or 1 times; distinct_nontrivial = distinct (statement, variable, "
        "defining statement) use events of real executions that were looked up in the recorded in-sets"))
    thorough = chk.tier == "thorough"
    rp = os.environ.get("VERIF_REPLAY")
    global LANGS
    if os.environ.get("VERIF_C06_LANGS") and not rp:
        # development aid: a run restricted to some frontends can fail, never hold
        LANGS = [x for x in LANGS if x in os.environ["VERIF_C06_LANGS"].split(",")]
        chk.note_inconclusive(f"restricted to {LANGS} by VERIF_C06_LANGS")
    jobs = []
    rng = random.Random(chk.seed)
    samples = []
    if rp:
        with open(rp) as f:
            case = json.load(f)["case"]
        jobs.append((case["lang"], "replay", None, bool(case.get("enable_p2"))))
    else:
        for lang in LANGS:
            only = tuple(k for k in KINDS if not (lang == "python" and k == "dowhile") and k in (gen_cf.LANG_KINDS.get(lang) or KINDS))
            n = N_PROGRAMS[lang][1 if thorough else 0]
            base = rng.randrange(1 << 30)
            sks = []
            for i in range(n):
                depth = rng.choice([1, 2, 2, 3])
                s, _ = gen_cf.random_skeleton(base + i, lang, max_depth=depth, only=only if i % 4 else ("s", "if", "return"), loop_dom=(0, 1))
                sks.append(s)
            items = [(s.label, s.body, s.domains) for s in sks]
            for k in range(0, len(items), BATCH):
                jobs.append((lang, f"{lang}{k // BATCH}", items[k:k + BATCH], (k // BATCH) % 3 == 2))
            samples.append({"lang": lang, "program": gen_cf.DU_RENDERERS[lang]().render(sks[1]), "decision_domains": sks[1].domains})
    for r in forkpool.run_jobs(analyse_batch if not rp else replay_batch, jobs, timeout=1800, tag="c06"):
        if r.status != "ok":
            if r.status in ("exception", "exit", "signal"):
                chk.fail(f"analysis-died:{r.item[0]}:{r.value[0] if r.status == 'exception' else r.status}",
                         f"semantic run over generated {r.item[0]} programs ended with {r.status}: {str(r.value)[:400]} {r.log_text(600)}",
                         {"lang": r.item[0], "batch": r.item[1]})
            else:
                chk.note_inconclusive(f"batch {r.item[1]}: {r.status}")
            continue
        v = r.value
        lang = v["lang"]
        chk.evaluated(v["validated"])
        chk.count("analyze_reachable_symbols calls recorded", v["recorder_calls"])
        chk.count("dynamic use events looked up in recorded in-sets", v["uses_checked"])
        chk.count("statements whose in-set was compared with the textbook solution", v["stmts_compared"])
        chk.count("loop-free methods (equality demanded)", v["loopfree_methods"])
        chk.count("methods with loops (containment + dynamic soundness)", v["loopy_methods"])
        chk.count("statements visited more than once by the analysis", v["multi_visit_stmts"])
        chk.count(f"{lang}: executions validated against ground truth", v["validated"])
        chk.count(f"{lang}: dynamic use events looked up", v["uses_checked"])
        chk.count(f"{lang}: programs analysed", v["programs"])
        chk.count(f"{lang}: executions not used", v["unvalidated"])
        chk.count("methods the analysis never reached", v["methods_not_analysed"])
        if v["p2"]:
            chk.count("batches run with --enable-p2", 1)
        if v["recorder_errors"]:
            chk.note_inconclusive(f"recorder raised: {v['recorder_errors']}")
        for i in range(v["distinct_uses"]):
            chk.nontrivial_case((r.item[1], i))
        for sig, desc, case in v["fails"]:
            chk.fail(sig, desc, case)
    if not rp:
        chk.require("analyze_reachable_symbols calls recorded", 5000)
        chk.require("dynamic use events looked up in recorded in-sets", 3000)
        chk.require("loop-free methods (equality demanded)", 50)
        chk.require("methods with loops (containment + dynamic soundness)", 100)
        chk.require("statements visited more than once by the analysis", 100)
        for lang in LANGS:
            chk.require(f"{lang}: executions validated against ground truth", 500)
            chk.require(f"{lang}: dynamic use events looked up", 800)
    else:
        chk.nontrivial_case("replay-a"); chk.nontrivial_case("replay-b")
    for s in samples:
        chk.sample(s)
    chk.assumptions += [
        "the set 'treated as reaching' at a statement is the union over all visits of in_symbol_bits (the persisted table keeps only the last visit)",
        "definition sites are lian's own (variable_decl, parameter_decl and loop variables count as definitions)",
        "precision is judged on lian's own CFG and definition sets, so CFG or def-use extraction faults are C04/C05's business, not this check's",
        "executions are used only when the ground-truth engine agrees with the reference executor on outputs and return value "
        "(CPython for Python; node on the analysed text for JavaScript and TypeScript; node on the JavaScript rendering of the same "
        "skeleton and decision vector for PHP and Go, which have no runtime here)",
    ]
    sys.exit(chk.finish())


if __name__ == "__main__":
    main()
