"""C13 — analysis terminates within bounded (polynomial) logical work.

Deciding step: the real `lian run` pipeline (lang + P1 [+ P2] + P3 + taint) is executed on parameterised
adversarial families F(n) (lib/gen_adv.py), n swept, with and without --enable-p2, while the logical-work monitor
(lib/monitors/workcount.py) counts frames, transfer-function calls, worklist pops, state-space / SFG / call-path
sizes, constant-folding sizes and Python function activations per analysis package.  The oracle is on those
counters only:

  envelope   every deciding counter stays below a committed polynomial envelope a*(n+1)^d, d <= 4, calibrated with
             >= 10x head-room (ENVELOPES at the end of this file; never computed from the tree under test); the
             comparison is made synchronously inside the child, which is stopped by the first counter that crosses
  growth     no counter shows three consecutive growth ratios w(n+1)/w(n) >= 1.8 at n >= 8 (a polynomial of
             degree <= 4 has ratio <= (9/8)^4 = 1.6 there and falling; exponential growth keeps its base)
  constants  no constant folding produces - or ENTERS the computation of, whatever becomes of it (MemoryError
             swallowed, child never back) - a value larger than lian's own bound config.MAX_FOLDED_CONSTANT_BITS
             (read from the tree under test, never above the committed ceiling of 10^6 bits).  Observed at
             const_fold.fold_constants (every value produced), at the entries of const_fold.FOLD_OPERATORS (the
             decision to compute; size predicted from the decoded operands by a lower estimate that covers both
             operand orders; the child is stopped there, before the allocation) and at util.strict_eval (old trees,
             frontends).  Nothing stored in the P2 / P3 state spaces is larger than 4 x that bound or than the
             program text; the peak RSS of a hostile-constant family stays flat along its ladder of literals
  cells      no statement adds more cells to the element list of an array state than lian's own bound
             config.MAX_ARRAY_GROWTH_PER_WRITE (read from the tree under test, never above the committed ceiling of
             16384 cells), and no element list - while it is built or in a saved state space - is longer than that
             ceiling or than the program text: the length of a list must not follow the VALUE of an index constant.
             Measured at util.add_to_list_with_default_set (real growth per call; the child is stopped there) and after
             every array / slice statement handler
  crash      the run is not killed by a signal and does not die of resource exhaustion (RecursionError,
             MemoryError, OverflowError, the int->str digit limit); other exception types are functional defects
             (C03's business): recorded, not judged here
  watchdog   a child that has used up its CPU-time watchdog while its counters (dumped every second) are still
             growing is a non-terminating analysis; a watchdog without counter evidence is inconclusive

Wall-clock time is recorded and never decides.
"""
import json
import os
import sys
import time
import traceback

from lib import common, forkpool, lianrun, gen_adv
from lib.monitors import workcount

PROP = "C13"

# counters that decide (envelope + growth).  Every one of them must be non-zero on >= 80 % of the runs in which
# the phase it belongs to ran (checked through `require`).
DECIDING = (
    "gir_stmts", "calls_lang", "calls_basics", "calls_core", "calls_taint", "calls_structs",
    "p3_frames", "stmt_transfers_p3", "handler_runs", "space_adds", "states_created",
    "p3_space_len", "sfg_nodes", "sfg_edges", "sfg_add_edge_calls", "call_paths", "call_resolutions_p3",
    "taint_pops", "taint_propagations", "taint_enqueue_calls",
    "strict_eval_calls", "strict_eval_bytes", "strict_eval_max_bytes",
    "strict_eval_max_result_bits",
    "fold_attempts", "fold_operand_bytes", "fold_max_compute_bits", "fold_max_result_bits",
    "p3_max_const_bits", "p2_max_const_bits",
    "array_max_gap", "array_max_len", "space_max_array_len",
    "p2_frames", "p2_methods", "stmt_transfers_p2", "call_resolutions_p2", "prep_files",
)
# counters that must be reached for the run to count as observed at all
FLOOR_ALWAYS = ("gir_stmts", "calls_lang", "calls_basics", "calls_core", "p3_frames", "stmt_transfers_p3",
                "handler_runs", "space_adds", "p3_space_len", "sfg_edges", "prep_files", "calls_structs")
FLOOR_P2 = ("p2_frames", "p2_methods", "stmt_transfers_p2")
FLOOR_TAINT = ("taint_pops", "taint_propagations", "calls_taint")
# fold hooks: every hostile-constant run must reach const_fold.fold_constants (when the tree has it), and the families
# that contain small folds must reach the operator table (the place where the decision to compute is observed)
FLOOR_FOLD = ("fold_attempts", "fold_computes", "p3_max_const_bits", "maxrss_kb", "array_stmts")
FOLD_COMPUTE_FAMILIES = ("hostile_orders", "js_hostile_orders", "fold_double", "fold_square", "hostile_concat", "binop_chain")

# Mechanism signatures name the GROUP of the counter (correlated counters cross their envelopes together and which of
# them is first differs with n); the description names the exact counter.
GROUPS = {
    "frontend": ("gir_stmts", "calls_lang", "prep_files"),
    "frames": ("p3_frames", "p2_frames", "p2_methods", "call_paths", "call_resolutions_p3", "call_resolutions_p2"),
    "transfers": ("stmt_transfers_p3", "stmt_transfers_p2", "handler_runs", "calls_core", "calls_basics", "calls_structs"),
    "values": ("space_adds", "states_created", "p3_space_len", "strict_eval_calls", "strict_eval_bytes",
               "strict_eval_max_bytes", "strict_eval_max_result_bits", "fold_attempts", "fold_operand_bytes"),
    "result_bits": ("fold_max_compute_bits", "fold_max_result_bits"),
    "stored": ("p3_max_const_bits", "p2_max_const_bits"),
    "rss": ("maxrss_kb",),
    "cells": ("array_max_gap", "array_max_len", "space_max_array_len"),
    "sfg": ("sfg_nodes", "sfg_edges", "sfg_add_edge_calls"),
    "taint": ("taint_pops", "taint_propagations", "taint_enqueue_calls", "calls_taint"),
}
GROUP_OF = {k: g for g, ks in GROUPS.items() for k in ks}
GROUP_OF["run"] = "run"
MAX_FOLD_BITS = 10 ** 6
RESOURCE_CRASHES = ("RecursionError", "MemoryError", "OverflowError")
GROWTH_RATIO = 1.8
GROWTH_MIN_N = 8
GROWTH_MIN_VALUE = 40       # ratios of tiny counts (1, 2, 4 ...) are not evidence of anything
# sizes of ONE folded constant are bounded absolutely (MAX_FOLD_BITS / envelope), a cap makes them saturate: the ratio
# test is for work, i.e. for sums
NO_GROWTH_TEST = ("strict_eval_max_bytes", "strict_eval_max_result_bits", "fold_max_compute_bits", "fold_max_result_bits",
                  "p3_max_const_bits", "p2_max_const_bits", "array_max_gap", "array_max_len", "space_max_array_len")
# counters of the const_fold hooks share the committed envelopes of the strict_eval counters they replace (one fold
# attempt = one former strict_eval call, operand bytes = former text bytes), with 4x extra room: on the healthy tree
# they stay below 0.3 x the old envelope, i.e. >= 13x head-room
ENVELOPE_ALIAS = {"fold_attempts": ("strict_eval_calls", 4.0), "fold_operand_bytes": ("strict_eval_bytes", 4.0)}
STORED_CONSTANT_FACTOR = 4          # a B-bit integer is stored as decimal text: 2.41 x B bits of characters
ARRAY_CELLS_CEILING = 16384         # committed ceiling: cells one statement may add to an element list / length of a list
RSS_GROWTH_KB = 128 * 1024          # peak RSS of a hostile-constant family may not grow by more than this along its ladder

ENVELOPES = {}              # replaced by the committed table at the end of this file


# =============================================================================================================
# child side
def innermost_lian_function(tb_text):
    """'<file>:<function>' of the innermost traceback frame that lies inside lian's sources."""
    last = None
    for line in tb_text.splitlines():
        line = line.strip()
        if line.startswith("File \"") and "/lian/" in line and ", in " in line:
            path = line.split('"')[1]
            fn = line.rsplit(", in ", 1)[1].strip()
            last = f"{os.path.basename(path)[:-3] if path.endswith('.py') else os.path.basename(path)}.{fn}"
    return last or "?"


def recursing_lian_function(tb):
    """For a RecursionError: the lian function that occurs most often on the stack (the body of the recursion)."""
    count = {}
    for fs in traceback.extract_tb(tb):
        if "/lian/" in fs.filename:
            k = f"{os.path.basename(fs.filename)[:-3]}.{fs.name}"
            count[k] = count.get(k, 0) + 1
    if not count:
        return "?"
    return sorted(count.items(), key=lambda kv: (-kv[1], kv[0]))[0][0]


def run_case(case):
    """Forked child: generate the program, install the monitor, run the complete pipeline, return counters."""
    import resource
    fam = gen_adv.FAMILIES[case["family"]]
    prog = fam.make(case["n"], case.get("variant", 0))
    root = case["dir"]
    src = os.path.join(root, "proj")
    for rel, text in prog.files.items():
        p = os.path.join(src, rel)
        os.makedirs(os.path.dirname(p), exist_ok=True)
        with open(p, "w") as f:
            f.write(text)
    st = lianrun.write_settings(os.path.join(root, "settings"), **gen_adv.SETTINGS)
    ws = os.path.join(root, "ws")
    if case.get("rlimit_mb"):
        lim = case["rlimit_mb"] * 1024 * 1024
        try:
            resource.setrlimit(resource.RLIMIT_AS, (lim, lim))
        except (ValueError, OSError):
            pass
    try:
        resource.setrlimit(resource.RLIMIT_CORE, (0, 0))
    except (ValueError, OSError):
        pass
    try:                                   # one analysis per core: no per-child thread pools (harness resource choice)
        import pyarrow
        pyarrow.set_cpu_count(1)
        pyarrow.set_io_thread_count(1)
    except Exception:
        pass
    wc = workcount.install(dump_path=case["dump"], interval=case.get("interval", 1.0), limits=case.get("limits"))
    extra = ["--enable-p2"] if case["p2"] else []
    argv = lianrun.lian_argv("run", prog.lang, [src], ws, st, extra)
    outcome, detail = "ok", None
    t0 = time.time()
    try:
        lianrun.run_lian(argv)
    except SystemExit as e:
        outcome, detail = "exit", repr(e.code)
    except BaseException as e:    # noqa
        tb = traceback.format_exc()
        outcome = "exception"
        where = recursing_lian_function(e.__traceback__) if isinstance(e, RecursionError) else innermost_lian_function(tb)
        detail = {"type": type(e).__name__, "msg": str(e)[:300], "where": where,
                  "traceback": tb[-3000:]}
    wall = time.time() - t0
    wc.stop_timer()
    wc.dump(final=True)
    return {"counters": wc.snapshot(), "evals": wc.evals, "info": wc.info, "outcome": outcome, "detail": detail, "wall": round(wall, 3),
            "size": prog.size, "lines": prog.lines, "lang": prog.lang}


# =============================================================================================================
# parent side
_FOLD_BOUND = []


def fold_bound():
    """The size bound of constant folding as configured in the tree under test (config.MAX_FOLDED_CONSTANT_BITS), never
    above the committed absolute ceiling MAX_FOLD_BITS; MAX_FOLD_BITS when the tree has no such setting."""
    if not _FOLD_BOUND:
        b = 0
        try:
            from lian.config import config as lian_config
            b = int(getattr(lian_config, "MAX_FOLDED_CONSTANT_BITS", 0) or 0)
        except Exception:
            b = 0
        _FOLD_BOUND.append(min(b, MAX_FOLD_BITS) if b > 0 else MAX_FOLD_BITS)
    return _FOLD_BOUND[0]


_ARRAY_BOUND = []


def array_gap_bound():
    """Cells one write may add to an element list: config.MAX_ARRAY_GROWTH_PER_WRITE of the tree under test when it has
    one, never above the committed ceiling ARRAY_CELLS_CEILING."""
    if not _ARRAY_BOUND:
        b = 0
        try:
            from lian.config import config as lian_config
            b = int(getattr(lian_config, "MAX_ARRAY_GROWTH_PER_WRITE", 0) or 0)
        except Exception:
            b = 0
        _ARRAY_BOUND.append(min(b + 1, ARRAY_CELLS_CEILING) if b > 0 else ARRAY_CELLS_CEILING)
    return _ARRAY_BOUND[0]


def envelope_limit(family, counter, n, size=0):
    if counter == "array_max_gap":
        return array_gap_bound()
    if counter in ("array_max_len", "space_max_array_len"):
        # no element list is longer than the ceiling or than the program text (a literal list has < 1 cell per byte)
        return max(ARRAY_CELLS_CEILING, size)
    if counter in ("fold_max_compute_bits", "fold_max_result_bits"):
        return fold_bound()
    if counter in ("p3_max_const_bits", "p2_max_const_bits"):
        # nothing stored is larger than the bound of folding or than the program text itself
        return max(STORED_CONSTANT_FACTOR * fold_bound(), 8 * size + 64)
    factor = 1.0
    if counter in ENVELOPE_ALIAS:
        counter, factor = ENVELOPE_ALIAS[counter]
    e = ENVELOPES.get(family, {}).get(counter)
    if e is None:
        return None
    a, d = e
    return int(factor * a * (n + 1) ** d) + 1


def limits_for(family, n, size=0):
    out = {}
    for k in DECIDING:
        if k.startswith("fold_max_") and os.environ.get("VERIF_C13_LET_FOLDS_RUN"):
            continue     # developer switch: do not stop the child at the decision, let the size / stored / RSS oracles see it
        lim = envelope_limit(family, k, n, size)
        if lim is not None:
            out[k] = lim
    return out


def make_case(chk_dir, family, n, p2, variant, tier):
    fam = gen_adv.FAMILIES[family]
    d = os.path.join(chk_dir, f"{family}_{n}_{int(p2)}")
    os.makedirs(d, exist_ok=True)
    hostile = fam.hostile
    wd = (20.0 if hostile else 45.0) if tier == "quick" else (45.0 if hostile else 240.0)     # CPU seconds
    size = fam.make(n, variant).size
    return {"family": family, "n": n, "p2": bool(p2), "variant": variant, "dir": d,
            "dump": os.path.join(d, "series.jsonl"), "watchdog": wd, "size": size,
            "rlimit_mb": 4096 if hostile else 16384, "limits": limits_for(family, n, size), "interval": 1.0}


def case_key(case):
    return {"family": case["family"], "n": case["n"], "p2": case["p2"], "variant": case["variant"]}


def sig(family, counter, kind, p2_only):
    group = GROUP_OF.get(counter, counter)
    if group == "cells":
        family = "array_index"            # the length of an element list follows the VALUE of an index constant
    elif family in gen_adv.FAMILIES and gen_adv.FAMILIES[family].hostile and group in ("values", "result_bits", "stored", "rss"):
        family = gen_adv.FAMILIES[family].mechanism   # the hostile families exist to exercise exactly this mechanism
    return f"{family}:{group}:{kind}" + (":p2" if p2_only else "")


def fold_label(e):
    """Mechanism of a fold witness: operator and, when the operands were seen decoded, their types in source order."""
    shape = e.get("shape") or ""
    if e.get("via") == "FOLD_OPERATORS" and shape:
        for sym in ("**", "<<", ">>", "//", "*", "+", "-", "/", "%", "&", "|", "^"):
            if sym in shape:
                a, b = shape.split(sym, 1)
                return f"{e['op']}:{a},{b}"
    return str(e.get("op"))


def growing_counter(series):
    """From the snapshots of a killed child: the deciding counter that was still increasing over the last three
    snapshots (largest relative increase), or None."""
    snaps = [s for s in series if "c" in s]
    if len(snaps) < 4:
        return None
    a, b, c3 = snaps[-3]["c"], snaps[-2]["c"], snaps[-1]["c"]
    best = None
    for k in DECIDING:
        x, y, z = a.get(k, 0), b.get(k, 0), c3.get(k, 0)
        if x < y < z:
            inc = (z - x) / max(1, x)
            if best is None or inc > best[1]:
                best = (k, inc, [s["c"].get(k, 0) for s in snaps[-8:]])
    return best


class Judge:
    def __init__(self, chk):
        self.chk = chk
        self.table = {}        # (family, p2) -> {n: counters}
        self.walls = {}
        self.fails = []        # (family, counter, kind, p2, description, case)
        self.nonzero = {}      # counter -> runs with non-zero value
        self.applicable = {}   # counter -> runs in which it could have been non-zero
        self.max_ratio = {}    # family -> (ratio, counter, n)
        self.runs = 0
        self.fold_hooks = set()
        self.hostile_runs = 0
        self.other_crashes = []   # exceptions that are not resource exhaustion: recorded, not judged (C03's business)

    def fail(self, family, counter, kind, p2, desc, case, extra=None):
        c = dict(case_key(case))
        if extra:
            c["witness"] = extra
        self.fails.append((family, counter, kind, bool(p2), desc, c))

    def judge_folds(self, evals, fam, n, p2, case):
        """The witnesses the fold hooks left behind: a value larger than the bound was produced, or lian entered the
        computation of one (whatever became of it: MemoryError swallowed, child stopped by the monitor ...)."""
        for e in evals:
            b = e.get("bound") or 0
            bound = min(b, MAX_FOLD_BITS) if b > 0 else MAX_FOLD_BITS
            produced = e.get("evaluated") and e.get("result_bits", 0) > bound
            entered = e.get("entered") and e.get("predicted_bits", 0) > bound
            blew = e.get("raised") in ("MemoryError", "OverflowError") and e.get("predicted_bits", 0) > bound
            if produced or entered or blew:
                what = (f"produced {e.get('result_bits')} bits" if produced else
                        f"entered the computation (raised={e.get('raised')}, stopped by the monitor or swallowed)")
                self.fail(f"constant_folding[{fold_label(e)}]", "result_bits", "envelope", p2,
                          f"{fam}(n={n}): unbounded constant folding: `{e['text']}` ({e.get('predicted_bits', 0):.3g} bits "
                          f"predicted from the operands, bound {bound} bits): lian {what}, {e.get('wall_s')} s",
                          case, {"fold": e})
                return True
        return False

    def note_floor(self, counters, p2, taint_possible, fam=None, info=None):
        hooks = (info or {}).get("fold_hooks", [])
        hostile = fam in gen_adv.FAMILIES and gen_adv.FAMILIES[fam].hostile
        groups = [(FLOOR_ALWAYS, True), (FLOOR_P2, p2), (FLOOR_TAINT, taint_possible),
                  (("fold_attempts",), hostile and "fold_constants" in hooks
                   and gen_adv.FAMILIES[fam].mechanism == "constant_folding"),
                  (("fold_computes",), fam in FOLD_COMPUTE_FAMILIES and "FOLD_OPERATORS" in hooks),
                  (("p3_max_const_bits", "maxrss_kb"), True),
                  (("array_stmts",), hostile and gen_adv.FAMILIES[fam].mechanism == "array_index")]
        for keys, applies in groups:
            if not applies:
                continue
            for k in keys:
                self.applicable[k] = self.applicable.get(k, 0) + 1
                if counters.get(k, 0) > 0:
                    self.nonzero[k] = self.nonzero.get(k, 0) + 1
        if hostile and gen_adv.FAMILIES[fam].mechanism == "constant_folding":   # whatever the tree folds with, the hostile-constant runs must have been seen folding
            k = "a fold hook (fold_constants or strict_eval)"
            self.applicable[k] = self.applicable.get(k, 0) + 1
            if counters.get("fold_attempts", 0) > 0 or counters.get("strict_eval_calls", 0) > 0:
                self.nonzero[k] = self.nonzero.get(k, 0) + 1

    def result(self, r):
        chk, case = self.chk, r.item
        fam, n, p2 = case["family"], case["n"], case["p2"]
        self.runs += 1
        chk.evaluated(1)
        series = workcount.read_series(case["dump"])
        if r.status == "ok":
            v = r.value
            cnt = v["counters"]
            chk.count("runs completed with counters", 1)
            for k in ("p3_frames", "stmt_transfers_p3", "stmt_transfers_p2", "handler_runs", "taint_pops",
                      "space_adds", "strict_eval_calls", "calls_core", "calls_lang", "calls_taint", "sfg_edges"):
                chk.count("sum " + k, cnt.get(k, 0))
            if cnt.get("p3_frames", 0) > 0 and cnt.get("stmt_transfers_p3", 0) > 0:
                chk.nontrivial_case((fam, n, p2))
            self.note_floor(cnt, p2, cnt.get("taint_sources", 0) > 0, fam, v.get("info"))
            # crashes
            if v["outcome"] == "exception":
                d = v["detail"]
                chk.count("runs ended by an exception", 1)
                sfam, kind = fam, f"crash:{d['type']}@{d['where']}"
                intstr = d["type"] == "ValueError" and "integer string conversion" in d["msg"]
                if intstr and max(cnt.get("strict_eval_max_result_bits", 0), cnt.get("fold_max_result_bits", 0)) > 14000:
                    # a folded constant too large for int -> str (raised wherever the value is first printed)
                    sfam, kind = "constant_folding", "crash:ValueError[int-to-str-limit]"
                if d["type"] in RESOURCE_CRASHES or intstr:
                    self.fail(sfam, "run", kind, p2,
                              f"{fam}(n={n}, p2={p2}): pipeline died with {d['type']} in {d['where']}: {d['msg'][:120]}",
                              case, {"traceback": d["traceback"][-1500:]})
                else:
                    self.other_crashes.append({"family": fam, "n": n, "p2": p2, "type": d["type"], "where": d["where"],
                                               "msg": d["msg"][:160]})
            elif v["outcome"] == "exit":
                chk.count("runs ended by SystemExit", 1)
                self.other_crashes.append({"family": fam, "n": n, "p2": p2, "type": "SystemExit",
                                           "where": self.exit_reason(r), "msg": self.exit_line(r)[:160]})
            if v["outcome"] == "ok":
                self.table.setdefault((fam, p2), {})[n] = cnt
                self.walls.setdefault((fam, p2), {})[n] = v["wall"]
            # constants: what the evaluation actually did
            cnt["program_bytes"] = v.get("size", 0)
            self.fold_hooks.update((v.get("info") or {}).get("fold_hooks", []))
            fold_failed = self.judge_folds(v["evals"], fam, n, p2, case)
            # envelope
            for k in DECIDING:
                lim = envelope_limit(fam, k, n, v.get("size", 0))
                if lim is not None and cnt.get(k, 0) > lim:
                    if (k.startswith("strict_eval_") or k.startswith("fold_max_")) and fold_failed:
                        continue
                    extra = {"value": cnt.get(k, 0), "limit": lim}
                    if k.endswith("_max_const_bits"):
                        extra["largest_constant"] = (v.get("info") or {}).get(k[:2] + "_largest_constant")
                    self.fail(fam, k, "envelope", p2,
                              f"{fam}(n={n}, p2={p2}): {k} = {cnt.get(k, 0)} exceeds its "
                              f"{'bound' if GROUP_OF.get(k) in ('result_bits', 'stored') else 'polynomial envelope'} {lim}",
                              case, extra)
            return
        # ---- the child did not deliver a result --------------------------------------------------------
        last = series[-1] if series else {}
        note = last.get("note") if isinstance(last.get("note"), dict) else None
        if r.status in ("abort", "lost") and note and note.get("abort") == "envelope":
            chk.count("runs stopped by the in-child envelope", 1)
            chk.nontrivial_case((fam, n, p2))
            if self.judge_folds(note.get("evals", []), fam, n, p2, case) and (
                    note["counter"].startswith("strict_eval_") or note["counter"].startswith("fold_max_")):
                return
            wit = (note.get("info") or {}).get("array_witness") if GROUP_OF.get(note["counter"]) == "cells" else None
            self.fail(fam, note["counter"], "envelope", p2,
                      f"{fam}(n={n}, p2={p2}): {note['counter']} reached {note['value']} > "
                      f"{'bound' if GROUP_OF.get(note['counter']) in ('cells', 'result_bits', 'stored') else 'envelope'} "
                      f"{note['limit']} after {last.get('t')} s and was still running (analysis stopped by the monitor)"
                      + (f": {wit}" if wit else ""), case,
                      {"series_tail": [{"t": s.get("t"), note["counter"]: s.get("c", {}).get(note["counter"], 0)}
                                       for s in series[-6:]]})
            return
        if r.status == "signal":
            chk.count("runs killed by a signal", 1)
            self.fail(fam, "run", f"crash:signal{r.value}@{self.fault_function(r)}", p2,
                      f"{fam}(n={n}, p2={p2}): the analysing process was killed by signal {r.value}", case,
                      {"log_tail": r.log_text(1500)})
            return
        if r.status == "timeout":
            chk.count("runs that reached the watchdog", 1)
            pend = last.get("in_strict_eval")
            used = r.value or 0.0
            if used < 0.8 * case["watchdog"]:
                chk.note_inconclusive(f"{fam}(n={n}, p2={p2}): given up after {r.wall:.0f} s of wall-clock time in which the "
                                      f"child got only {used:.0f} s of CPU (machine overloaded)")
                return
            if pend:
                self.fail(f"constant_folding[{fold_label(pend)}]", "result_bits", "watchdog", p2,
                          f"{fam}(n={n}): unbounded constant folding: still computing `{pend['text']}`, predicted "
                          f"result {pend['predicted_bits']:.3g} bits, when the {case['watchdog']:.0f} CPU-s watchdog fired",
                          case, {"fold": pend, "last_snapshot_t": last.get("t")})
                return
            g = growing_counter(series)
            cpu = used
            if g:
                self.fail(fam, g[0], "watchdog", p2,
                          f"{fam}(n={n}, p2={p2}): still running after {cpu:.0f} s of CPU (watchdog {case['watchdog']:.0f} CPU-s) with "
                          f"{g[0]} growing: {g[2]}", case, {"series_tail": g[2], "cpu_s": cpu})
                return
            chk.note_inconclusive(f"{fam}(n={n}, p2={p2}): watchdog fired without counter evidence "
                                  f"({len(series)} snapshots)")
            return
        if r.status == "exception":
            # raised outside run_lian's try (generator / monitor installation): a harness fault
            chk.note_inconclusive(f"{fam}(n={n}, p2={p2}): harness exception {r.value[0]}: {r.value[1][:200]}")
            return
        chk.note_inconclusive(f"{fam}(n={n}, p2={p2}): child {r.status} {r.value} {r.log_text(300)}")

    @staticmethod
    def exit_line(r):
        for line in reversed(r.log_text(3000).splitlines()):
            if "[ERROR]" in line:
                return line.strip()[:200]
        return ""

    def exit_reason(self, r):
        line = self.exit_line(r)
        if "dangerous content" in line:
            return "strict_eval"
        if "No target file" in line or "No files found" in line:
            return "preparation"
        return "error_and_quit"

    @staticmethod
    def fault_function(r):
        for line in r.log_text(3000).splitlines():
            if line.strip().startswith("File \"") and "/lian/" in line and " in " in line:
                return line.rsplit(" in ", 1)[1].strip()
        return "?"

    # ---- growth test over the completed table ---------------------------------------------------------
    def rss_growth(self):
        """Hostile-constant families: the peak RSS of the child must stay flat along the ladder (the program text grows by
        a digit per step); growth beyond RSS_GROWTH_KB + 16 x the growth of the text is memory that depends on the VALUE
        of a literal."""
        for (fam, p2), rows in sorted(self.table.items()):
            if not gen_adv.FAMILIES[fam].hostile:
                continue
            ns = sorted(n for n in rows if rows[n].get("maxrss_kb", 0) > 0)
            if len(ns) < 2:
                continue
            base = min(ns, key=lambda n: rows[n]["maxrss_kb"])
            for n in ns:
                grow = rows[n]["maxrss_kb"] - rows[base]["maxrss_kb"]
                allowed = RSS_GROWTH_KB + 16 * max(0, rows[n].get("program_bytes", 0) - rows[base].get("program_bytes", 0)) // 1024
                if grow > allowed:
                    seq = {m: rows[m]["maxrss_kb"] for m in ns}
                    case = {"family": fam, "n": n, "p2": p2, "variant": self.variant, "dir": "", "dump": "", "watchdog": 0}
                    self.fail(fam, "maxrss_kb", "growth", p2,
                              f"{fam}(p2={p2}): peak RSS grows with the value of the literal: +{grow // 1024} MB between n={base} "
                              f"and n={n} (allowed {allowed // 1024} MB): {seq}", case,
                              {"sequence": seq, "sweep": sorted({base, n})})
                    break

    def growth(self):
        self.rss_growth()
        for (fam, p2), rows in sorted(self.table.items()):
            if not gen_adv.FAMILIES[fam].growth:
                continue
            ns = sorted(rows)
            for k in DECIDING:
                if k in NO_GROWTH_TEST:
                    continue
                run = []
                for a, b in zip(ns, ns[1:]):
                    if b != a + 1 or a < GROWTH_MIN_N:
                        run = []
                        continue
                    wa, wb = rows[a].get(k, 0), rows[b].get(k, 0)
                    ratio = (wb / wa) if wa > 0 else 0.0
                    if wa > 0:
                        cur = self.max_ratio.get(fam)
                        if wb >= GROWTH_MIN_VALUE and (cur is None or ratio > cur[0]):
                            self.max_ratio[fam] = (round(ratio, 3), k, a, p2)
                    if ratio >= GROWTH_RATIO and wb >= GROWTH_MIN_VALUE:
                        run.append((a, b, round(ratio, 2)))
                        if len(run) >= 3:
                            seq = {n: rows[n].get(k, 0) for n in ns if n >= run[0][0]}
                            case = {"family": fam, "n": run[-1][1], "p2": p2,
                                    "variant": self.variant, "dir": "", "dump": "", "watchdog": 0}
                            self.fail(fam, k, "growth", p2,
                                      f"{fam}(p2={p2}): {k} grows exponentially: ratios {[x[2] for x in run]} at n="
                                      f"{run[0][0]}..{run[-1][1]}: {seq}", case,
                                      {"sequence": seq, "sweep": [n for n in ns if run[0][0] <= n <= run[-1][1]]})
                            break
                    else:
                        run = []

    def report(self, p2_only=None):
        """p2-only classification (given by the stored signature in a replay, where one mode is run), then hand the
        failures to the Check."""
        chk = self.chk
        by = {}
        for fam, counter, kind, p2, desc, case in self.fails:
            by.setdefault(sig(fam, counter, kind, False), set()).add(p2)
        seen = set()
        for fam, counter, kind, p2, desc, case in self.fails:
            base = sig(fam, counter, kind, False)
            key = (base, case["family"], case["n"], case["p2"])
            if key in seen:              # one report per (signature, run)
                continue
            seen.add(key)
            only_p2 = (by[base] == {True}) if p2_only is None else p2_only
            chk.fail(base + (":p2" if only_p2 else ""), desc, case)


def compact_table(table, walls):
    keys = ("gir_stmts", "p3_frames", "stmt_transfers_p3", "stmt_transfers_p2", "handler_runs", "space_adds",
            "p3_space_len", "sfg_edges", "call_paths", "taint_pops", "strict_eval_calls", "strict_eval_bytes",
            "strict_eval_max_result_bits", "fold_calls", "fold_attempts", "fold_computes", "fold_operand_bytes",
            "fold_max_compute_bits", "fold_max_result_bits", "p3_max_const_bits", "array_stmts", "array_max_gap",
            "array_max_len", "maxrss_kb", "calls_core", "calls_taint")
    out = {}
    for (fam, p2), rows in sorted(table.items()):
        out[f"{fam}{'+p2' if p2 else ''}"] = {
            "columns": ["n"] + list(keys) + ["wall_s"],
            "rows": [[n] + [rows[n].get(k, 0) for k in keys] + [walls[(fam, p2)].get(n)] for n in sorted(rows)]}
    return out


def plan(tier, only=None):
    cases = []
    for name, fam in gen_adv.FAMILIES.items():
        if only and name not in only:
            continue
        ns = fam.quick if tier == "quick" else fam.thorough
        for n in ns:
            for p2 in (False, True):
                cases.append((name, n, p2))
        for n in fam.big:
            cases.append((name, n, False))
    return cases


def run_all(chk, judge, cases, variant, workers=None):
    root = os.path.join(common.scratch(), "c13")
    os.makedirs(root, exist_ok=True)
    items = [make_case(root, f, n, p2, variant, chk.tier) for f, n, p2 in cases]
    # the potentially long ones first
    items.sort(key=lambda c: (not gen_adv.FAMILIES[c["family"]].hostile, -c["n"]))
    for r in pool(items, workers):
        judge.result(r)


_TICK = os.sysconf("SC_CLK_TCK") if hasattr(os, "sysconf") else 100


def cpu_seconds(pid):
    """user + system CPU time consumed so far by process `pid` (Linux /proc); 0.0 when unreadable."""
    try:
        with open(f"/proc/{pid}/stat", "rb") as f:
            rest = f.read().rsplit(b")", 1)[1].split()
        return (int(rest[11]) + int(rest[12])) / _TICK
    except Exception:
        return 0.0


def pool(items, workers=None):
    """forkpool.run_jobs with a watchdog per job (item['watchdog']) and the child's exit status kept: same child
    protocol (forkpool._child), every killed child is reaped."""
    import pickle
    import signal
    workers = workers or min(16, os.cpu_count() or 4)
    root = os.path.join(common.scratch(), f"pool_c13_{os.getpid()}_{int(time.time() * 1000) % 100000}")
    os.makedirs(root, exist_ok=True)
    pending = list(enumerate(items))
    pending.reverse()
    running = {}
    while pending or running:
        while pending and len(running) < workers:
            idx, item = pending.pop()
            out, log = os.path.join(root, f"{idx}.pkl"), os.path.join(root, f"{idx}.log")
            sys.stdout.flush(); sys.stderr.flush()
            pid = os.fork()
            if pid == 0:
                forkpool._child(run_case, item, out, log)
            running[pid] = (item, out, log, time.time())
        reaped = False
        for pid in list(running):
            item, out, log, t0 = running[pid]
            try:
                rpid, st = os.waitpid(pid, os.WNOHANG)
            except ChildProcessError:
                rpid, st = pid, 0
            if rpid == 0:
                # the watchdog counts the child's own CPU seconds (load on the machine must not turn into a verdict);
                # a child that does not even get CPU is given up after 15 x that much wall-clock time
                used = cpu_seconds(pid)
                if used > item["watchdog"] or time.time() - t0 > 15 * item["watchdog"]:
                    try:
                        os.kill(pid, signal.SIGKILL)
                    except ProcessLookupError:
                        pass
                    try:
                        os.waitpid(pid, 0)
                    except ChildProcessError:
                        pass
                    del running[pid]
                    reaped = True
                    yield forkpool.JobResult(item, "timeout", used, log, time.time() - t0)
                continue
            del running[pid]
            reaped = True
            wall = time.time() - t0
            if os.WIFSIGNALED(st):
                yield forkpool.JobResult(item, "signal", os.WTERMSIG(st), log, wall)
                continue
            if os.WIFEXITED(st) and os.WEXITSTATUS(st) == workcount.ABORT_CODE:
                yield forkpool.JobResult(item, "abort", None, log, wall)
                continue
            try:
                with open(out, "rb") as f:
                    status, value = pickle.load(f)
                os.unlink(out)
            except Exception:
                yield forkpool.JobResult(item, "lost", None, log, wall)
                continue
            yield forkpool.JobResult(item, status, value, log, wall)
        if not reaped:
            time.sleep(0.01)


def replay(chk, path):
    with open(path) as f:
        stored = json.load(f)
    case = stored["case"]
    fam, n, p2, variant = case["family"], case["n"], case["p2"], case.get("variant", 0)
    if stored.get("tier") in ("quick", "thorough"):
        chk.tier = stored["tier"]            # same watchdogs as in the run that produced the case
    judge = Judge(chk)
    judge.variant = variant
    ns = [n]
    w = case.get("witness") or {}
    if w.get("sweep"):                       # a growth finding is a property of the sweep, re-run all of it
        ns = list(w["sweep"])
    cases = [(fam, m, p2) for m in ns]
    run_all(chk, judge, cases, variant)
    judge.growth()
    judge.report(p2_only=str(stored.get("signature", "")).endswith(":p2"))
    chk.nontrivial_case("replay-a"); chk.nontrivial_case("replay-b")
    chk.sample({"replayed": case_key(case), "signature": stored.get("signature")})
    chk.extra["tables"] = compact_table(judge.table, judge.walls)
    chk.extra["other_crashes_not_judged"] = judge.other_crashes[:20]


def main():
    lianrun.prepare_zygote()
    chk = common.Check(PROP, rule=(
        "one evaluation = one complete `lian run` (lang, P1, [P2], P3, taint) on a generated member F(n) of an adversarial "
        "family under the logical-work monitor; distinct_nontrivial = distinct (family, n, enable_p2) triples whose run "
        "initialised >= 1 P3 frame and executed >= 1 statement transfer"))
    if os.environ.get("VERIF_REPLAY"):
        replay(chk, os.environ["VERIF_REPLAY"])
        sys.exit(chk.finish())
    variant = chk.seed
    only = set(os.environ["VERIF_C13_ONLY"].split(",")) if os.environ.get("VERIF_C13_ONLY") else None
    judge = Judge(chk)
    judge.variant = variant
    cases = plan(chk.tier, only)
    run_all(chk, judge, cases, variant)
    judge.growth()
    judge.report()
    # floors: every deciding counter non-zero on >= 80 % of the runs it applies to
    for k in FLOOR_ALWAYS + FLOOR_P2 + FLOOR_TAINT + FLOOR_FOLD + ("a fold hook (fold_constants or strict_eval)",):
        app = judge.applicable.get(k, 0)
        chk.counters[f"runs with non-zero {k}"] = judge.nonzero.get(k, 0)
        if only is None and not (k in FLOOR_FOLD and app == 0):     # app == 0: the tree has no such hook point
            chk.require(f"runs with non-zero {k}", max(1, int(0.8 * app)))
    chk.extra["fold_observation"] = {"hooks_seen": sorted(judge.fold_hooks), "bound_bits_from_lian_config": fold_bound()}
    if only is None:
        chk.require("runs completed with counters", int(0.8 * len(cases)))
    chk.extra["tables"] = compact_table(judge.table, judge.walls)
    chk.extra["families"] = {n: f.doc for n, f in gen_adv.FAMILIES.items()}
    chk.extra["max_growth_ratio_at_n>=8"] = {f: {"ratio": v[0], "counter": v[1], "n": v[2], "p2": v[3]}
                                             for f, v in sorted(judge.max_ratio.items())}
    chk.extra["runs"] = judge.runs
    chk.extra["other_crashes_not_judged"] = judge.other_crashes[:40]
    chk.counters["runs ended by an exception that is not resource exhaustion (recorded, not judged)"] = len(judge.other_crashes)
    if os.environ.get("VERIF_C13_CALIBRATE"):
        dump_raw(judge, chk, os.environ["VERIF_C13_CALIBRATE"])
    for fam in ("chain_k2", "mutual_ring", "hostile_pow_tower"):
        if fam in gen_adv.FAMILIES:
            p = gen_adv.FAMILIES[fam].make(3, variant)
            chk.sample({"family": fam, "n": 3, "variant": variant, "files": p.files})
    chk.assumptions += [
        "termination on every program is restated as: bounded logical work on the generated families + growth-ratio test",
        "envelopes are committed constants (>= 10x head-room), calibrated on the tree with the proposed C13 repairs applied",
        "exceptions other than resource exhaustion end a run without a C13 verdict (listed under other_crashes_not_judged)",
        "wall-clock time never decides; a watchdog without counter evidence is inconclusive",
        "the bound on folded constants is the one configured in the tree under test (config.MAX_FOLDED_CONSTANT_BITS), capped by "
        "the committed ceiling of 10^6 bits; the peak-RSS line allows 128 MB + 16 x the growth of the program text",
        "the maxima over 'all programs of the other generators' are not included (those generators belong to other checks)",
    ]
    sys.exit(chk.finish())


# =============================================================================================================
# calibration (developer aid, never used by a registered command):
#   VERIF_C13_CALIBRATE=<dir> ./check C13 --tier thorough --seed S      dumps the raw counter tables into <dir>
#   /venv/bin/python -m checks.c13 merge <dir> <out.py>                 fits a*(n+1)^d per (family, counter) over all
#                                                                       dumps, a = 10 x the largest normalised value
# The result is pasted into ENVELOPES below as a committed constant.
def dump_raw(judge, chk, out_dir):
    os.makedirs(out_dir, exist_ok=True)
    raw = {}
    for (fam, p2), rows in judge.table.items():
        raw.setdefault(fam, {})[str(int(p2))] = {str(n): c for n, c in rows.items()}
    with open(os.path.join(out_dir, f"raw_{chk.tier}_{chk.seed}.json"), "w") as f:
        json.dump(raw, f)


def fit(points):
    """points: [(n, value)] -> (a, d): smallest d in 1..4 whose normalised values do not keep rising with n."""
    pts = sorted(points)
    top_ns = sorted({n for n, _ in pts})[-3:]
    best = {}
    for n, v in pts:
        if n in top_ns:
            best[n] = max(best.get(n, 0), v)
    top = sorted(best.items())
    for d in (1, 2, 3, 4):
        norm = [v / (n + 1) ** d for n, v in pts]
        a = max(norm)
        tnorm = [v / (n + 1) ** d for n, v in top]
        rising = len(tnorm) >= 2 and tnorm[-1] > 1.15 * min(tnorm) and tnorm[-1] >= 0.8 * a
        if not rising or d == 4:
            return max(10.0 * a, 10.0), d


def merge(in_dir, out_path):
    pts = {}
    for name in sorted(os.listdir(in_dir)):
        if not (name.startswith("raw_") and name.endswith(".json")):
            continue
        with open(os.path.join(in_dir, name)) as f:
            raw = json.load(f)
        for fam, modes in raw.items():
            for p2, rows in modes.items():
                for n, cnt in rows.items():
                    for k in DECIDING:
                        pts.setdefault(fam, {}).setdefault(k, []).append((int(n), cnt.get(k, 0)))
    with open(out_path, "w") as f:
        f.write("ENVELOPES = {\n")
        for fam in sorted(pts):
            f.write(f"    {fam!r}: {{\n")
            line = "        "
            for k in DECIDING:
                a, d = fit(pts[fam][k])
                a = float(f"{a:.3g}") if a >= 1000 else round(a + 0.5, 0)
                piece = f"{k!r}: ({a:g}, {d}), "
                if len(line) + len(piece) > 118:
                    f.write(line.rstrip() + "\n")
                    line = "        "
                line += piece
            f.write(line.rstrip() + "\n    },\n")
        f.write("}\n")
    print("envelopes written to", out_path)


# =============================================================================================================
# Committed calibration constants: (a, d) means counter <= a * (n + 1) ** d.  Fitted (see `merge`) on the tree with the
# four proposed C13 repairs applied (the unrepaired tree violates the property on the fold/hostile families, so it
# cannot supply their envelopes), seeds 0,1,2,5 thorough + 3,4 quick, both --enable-p2 modes, a = 10 x the largest
# normalised value observed.  Not recomputed at run time.
ENVELOPES = {
    'aliases_n': {
        'gir_stmts': (140, 1), 'calls_lang': (3560, 1), 'calls_basics': (1620, 1), 'calls_core': (6300, 1),
        'calls_taint': (5400, 1), 'calls_structs': (62500, 1), 'p3_frames': (26, 1), 'stmt_transfers_p3': (150, 1),
        'handler_runs': (220, 1), 'space_adds': (1700, 1), 'states_created': (66, 1), 'p3_space_len': (540, 1),
        'sfg_nodes': (500, 1), 'sfg_edges': (530, 1), 'sfg_add_edge_calls': (1120, 1), 'call_paths': (10, 1),
        'call_resolutions_p3': (40, 1), 'taint_pops': (156, 1), 'taint_propagations': (10, 1),
        'taint_enqueue_calls': (164, 1), 'strict_eval_calls': (10, 1), 'strict_eval_bytes': (10, 1),
        'strict_eval_max_bytes': (10, 1), 'strict_eval_max_result_bits': (10, 1), 'p2_frames': (26, 1),
        'p2_methods': (26, 1), 'stmt_transfers_p2': (90, 1), 'call_resolutions_p2': (20, 1), 'prep_files': (16, 1),
    },
    'array_n': {
        'gir_stmts': (156, 1), 'calls_lang': (4260, 1), 'calls_basics': (1880, 1), 'calls_core': (9250, 1),
        'calls_taint': (7960, 1), 'calls_structs': (89300, 1), 'p3_frames': (16, 1), 'stmt_transfers_p3': (230, 1),
        'handler_runs': (336, 1), 'space_adds': (2340, 1), 'states_created': (130, 1), 'p3_space_len': (856, 1),
        'sfg_nodes': (670, 1), 'sfg_edges': (1210, 1), 'sfg_add_edge_calls': (2430, 1), 'call_paths': (10, 1),
        'call_resolutions_p3': (30, 1), 'taint_pops': (256, 1), 'taint_propagations': (10, 1),
        'taint_enqueue_calls': (266, 1), 'strict_eval_calls': (70, 1), 'strict_eval_bytes': (190, 1),
        'strict_eval_max_bytes': (26, 1), 'strict_eval_max_result_bits': (10, 1), 'p2_frames': (20, 1),
        'p2_methods': (20, 1), 'stmt_transfers_p2': (130, 1), 'call_resolutions_p2': (20, 1), 'prep_files': (16, 1),
    },
    'binop_chain': {
        'gir_stmts': (116, 1), 'calls_lang': (4140, 1), 'calls_basics': (1580, 1), 'calls_core': (6330, 1),
        'calls_taint': (4220, 1), 'calls_structs': (153000, 1), 'p3_frames': (16, 1), 'stmt_transfers_p3': (160, 1),
        'handler_runs': (246, 1), 'space_adds': (1990, 1), 'states_created': (233, 1), 'p3_space_len': (784, 1),
        'sfg_nodes': (715, 1), 'sfg_edges': (872, 1), 'sfg_add_edge_calls': (1740, 1), 'call_paths': (10, 1),
        'call_resolutions_p3': (20, 1), 'taint_pops': (76, 1), 'taint_propagations': (10, 1),
        'taint_enqueue_calls': (76, 1), 'strict_eval_calls': (303, 1), 'strict_eval_bytes': (44800, 1),
        'strict_eval_max_bytes': (244, 1), 'strict_eval_max_result_bits': (1920, 1), 'p2_frames': (20, 1),
        'p2_methods': (20, 1), 'stmt_transfers_p2': (96, 1), 'call_resolutions_p2': (16, 1), 'prep_files': (16, 1),
    },
    'branch_fold': {
        'gir_stmts': (116, 1), 'calls_lang': (3180, 1), 'calls_basics': (1420, 1), 'calls_core': (5430, 1),
        'calls_taint': (3910, 1), 'calls_structs': (58000, 1), 'p3_frames': (16, 1), 'stmt_transfers_p3': (140, 1),
        'handler_runs': (216, 1), 'space_adds': (1720, 1), 'states_created': (296, 1), 'p3_space_len': (650, 1),
        'sfg_nodes': (454, 1), 'sfg_edges': (534, 1), 'sfg_add_edge_calls': (1280, 1), 'call_paths': (10, 1),
        'call_resolutions_p3': (27, 1), 'taint_pops': (90, 1), 'taint_propagations': (10, 1),
        'taint_enqueue_calls': (104, 1), 'strict_eval_calls': (276, 1), 'strict_eval_bytes': (1290, 1),
        'strict_eval_max_bytes': (30, 1), 'strict_eval_max_result_bits': (20, 1), 'p2_frames': (20, 1),
        'p2_methods': (20, 1), 'stmt_transfers_p2': (86, 1), 'call_resolutions_p2': (16, 1), 'prep_files': (16, 1),
    },
    'branch_n': {
        'gir_stmts': (166, 1), 'calls_lang': (3660, 1), 'calls_basics': (1760, 1), 'calls_core': (8320, 1),
        'calls_taint': (7780, 1), 'calls_structs': (87400, 1), 'p3_frames': (16, 1), 'stmt_transfers_p3': (214, 1),
        'handler_runs': (336, 1), 'space_adds': (1930, 1), 'states_created': (76, 1), 'p3_space_len': (670, 1),
        'sfg_nodes': (530, 1), 'sfg_edges': (720, 1), 'sfg_add_edge_calls': (1520, 1), 'call_paths': (10, 1),
        'call_resolutions_p3': (20, 1), 'taint_pops': (270, 1), 'taint_propagations': (10, 1),
        'taint_enqueue_calls': (310, 1), 'strict_eval_calls': (30, 1), 'strict_eval_bytes': (88, 1),
        'strict_eval_max_bytes': (30, 1), 'strict_eval_max_result_bits': (10, 1), 'p2_frames': (20, 1),
        'p2_methods': (20, 1), 'stmt_transfers_p2': (126, 1), 'call_resolutions_p2': (16, 1), 'prep_files': (16, 1),
    },
    'chain_k2': {
        'gir_stmts': (160, 1), 'calls_lang': (3300, 1), 'calls_basics': (1600, 1), 'calls_core': (51700, 1),
        'calls_taint': (12800, 1), 'calls_structs': (202000, 1), 'p3_frames': (76, 1), 'stmt_transfers_p3': (508, 1),
        'handler_runs': (579, 1), 'space_adds': (4650, 1), 'states_created': (95, 1), 'p3_space_len': (2010, 1),
        'sfg_nodes': (1310, 1), 'sfg_edges': (1800, 1), 'sfg_add_edge_calls': (3750, 1), 'call_paths': (71, 1),
        'call_resolutions_p3': (217, 1), 'taint_pops': (283, 1), 'taint_propagations': (10, 1),
        'taint_enqueue_calls': (369, 1), 'strict_eval_calls': (36, 1), 'strict_eval_bytes': (288, 1),
        'strict_eval_max_bytes': (26, 1), 'strict_eval_max_result_bits': (10, 1), 'p2_frames': (30, 1),
        'p2_methods': (30, 1), 'stmt_transfers_p2': (90, 1), 'call_resolutions_p2': (30, 1), 'prep_files': (16, 1),
    },
    'chain_k3': {
        'gir_stmts': (170, 1), 'calls_lang': (3610, 1), 'calls_basics': (1690, 1), 'calls_core': (144000, 1),
        'calls_taint': (25500, 1), 'calls_structs': (429000, 1), 'p3_frames': (113, 1),
        'stmt_transfers_p3': (960, 1), 'handler_runs': (1050, 1), 'space_adds': (10300, 1),
        'states_created': (242, 1), 'p3_space_len': (4680, 1), 'sfg_nodes': (2800, 1), 'sfg_edges': (3970, 1),
        'sfg_add_edge_calls': (8080, 1), 'call_paths': (209, 1), 'call_resolutions_p3': (425, 1),
        'taint_pops': (478, 1), 'taint_propagations': (10, 1), 'taint_enqueue_calls': (616, 1),
        'strict_eval_calls': (105, 1), 'strict_eval_bytes': (1110, 1), 'strict_eval_max_bytes': (26, 1),
        'strict_eval_max_result_bits': (16, 1), 'p2_frames': (30, 1), 'p2_methods': (30, 1),
        'stmt_transfers_p2': (100, 1), 'call_resolutions_p2': (40, 1), 'prep_files': (16, 1),
    },
    'cyclic_imports': {
        'gir_stmts': (207, 1), 'calls_lang': (3850, 1), 'calls_basics': (1920, 1), 'calls_core': (17000, 1),
        'calls_taint': (7460, 1), 'calls_structs': (97200, 1), 'p3_frames': (40, 1), 'stmt_transfers_p3': (246, 1),
        'handler_runs': (340, 1), 'space_adds': (2760, 1), 'states_created': (140, 1), 'p3_space_len': (863, 1),
        'sfg_nodes': (726, 1), 'sfg_edges': (880, 1), 'sfg_add_edge_calls': (1890, 1), 'call_paths': (10, 1),
        'call_resolutions_p3': (70, 1), 'taint_pops': (200, 1), 'taint_propagations': (10, 1),
        'taint_enqueue_calls': (210, 1), 'strict_eval_calls': (70, 1), 'strict_eval_bytes': (253, 1),
        'strict_eval_max_bytes': (26, 1), 'strict_eval_max_result_bits': (10, 1), 'p2_frames': (30, 1),
        'p2_methods': (30, 1), 'stmt_transfers_p2': (100, 1), 'call_resolutions_p2': (30, 1), 'prep_files': (20, 1),
    },
    'cyclic_objects': {
        'gir_stmts': (190, 1), 'calls_lang': (4520, 1), 'calls_basics': (1930, 1), 'calls_core': (9970, 1),
        'calls_taint': (7960, 1), 'calls_structs': (78000, 1), 'p3_frames': (26, 1), 'stmt_transfers_p3': (230, 1),
        'handler_runs': (290, 1), 'space_adds': (2430, 1), 'states_created': (126, 1), 'p3_space_len': (766, 1),
        'sfg_nodes': (750, 1), 'sfg_edges': (806, 1), 'sfg_add_edge_calls': (1660, 1), 'call_paths': (19, 1),
        'call_resolutions_p3': (40, 1), 'taint_pops': (246, 1), 'taint_propagations': (10, 1),
        'taint_enqueue_calls': (256, 1), 'strict_eval_calls': (50, 1), 'strict_eval_bytes': (170, 1),
        'strict_eval_max_bytes': (26, 1), 'strict_eval_max_result_bits': (10, 1), 'p2_frames': (26, 1),
        'p2_methods': (26, 1), 'stmt_transfers_p2': (126, 1), 'call_resolutions_p2': (20, 1), 'prep_files': (16, 1),
    },
    'deep_expr': {
        'gir_stmts': (166, 1), 'calls_lang': (3140, 1), 'calls_basics': (1860, 1), 'calls_core': (4730, 2),
        'calls_taint': (12400, 1), 'calls_structs': (49900, 2), 'p3_frames': (80, 1), 'stmt_transfers_p3': (317, 1),
        'handler_runs': (356, 1), 'space_adds': (3820, 1), 'states_created': (120, 1), 'p3_space_len': (1400, 1),
        'sfg_nodes': (1230, 1), 'sfg_edges': (1380, 1), 'sfg_add_edge_calls': (2880, 1), 'call_paths': (79, 1),
        'call_resolutions_p3': (159, 1), 'taint_pops': (397, 1), 'taint_propagations': (10, 1),
        'taint_enqueue_calls': (397, 1), 'strict_eval_calls': (79, 1), 'strict_eval_bytes': (63, 2),
        'strict_eval_max_bytes': (26, 1), 'strict_eval_max_result_bits': (18, 1), 'p2_frames': (26, 1),
        'p2_methods': (26, 1), 'stmt_transfers_p2': (126, 1), 'call_resolutions_p2': (40, 1), 'prep_files': (16, 1),
    },
    'diamond': {
        'gir_stmts': (250, 1), 'calls_lang': (4500, 1), 'calls_basics': (2080, 1), 'calls_core': (8920, 2),
        'calls_taint': (19100, 1), 'calls_structs': (370000, 1), 'p3_frames': (142, 1),
        'stmt_transfers_p3': (950, 1), 'handler_runs': (1090, 1), 'space_adds': (8840, 1), 'states_created': (66, 1),
        'p3_space_len': (3900, 1), 'sfg_nodes': (2220, 1), 'sfg_edges': (2770, 1), 'sfg_add_edge_calls': (5860, 1),
        'call_paths': (132, 1), 'call_resolutions_p3': (405, 1), 'taint_pops': (346, 1),
        'taint_propagations': (10, 1), 'taint_enqueue_calls': (376, 1), 'strict_eval_calls': (10, 1),
        'strict_eval_bytes': (10, 1), 'strict_eval_max_bytes': (10, 1), 'strict_eval_max_result_bits': (10, 1),
        'p2_frames': (40, 1), 'p2_methods': (36, 1), 'stmt_transfers_p2': (140, 1), 'call_resolutions_p2': (59, 1),
        'prep_files': (16, 1),
    },
    'fields_n': {
        'gir_stmts': (120, 1), 'calls_lang': (3060, 1), 'calls_basics': (1420, 1), 'calls_core': (4820, 1),
        'calls_taint': (4160, 1), 'calls_structs': (45400, 1), 'p3_frames': (26, 1), 'stmt_transfers_p3': (110, 1),
        'handler_runs': (160, 1), 'space_adds': (1400, 1), 'states_created': (66, 1), 'p3_space_len': (426, 1),
        'sfg_nodes': (396, 1), 'sfg_edges': (396, 1), 'sfg_add_edge_calls': (793, 1), 'call_paths': (10, 1),
        'call_resolutions_p3': (40, 1), 'taint_pops': (116, 1), 'taint_propagations': (10, 1),
        'taint_enqueue_calls': (116, 1), 'strict_eval_calls': (10, 1), 'strict_eval_bytes': (14, 1),
        'strict_eval_max_bytes': (10, 1), 'strict_eval_max_result_bits': (10, 1), 'p2_frames': (26, 1),
        'p2_methods': (26, 1), 'stmt_transfers_p2': (70, 1), 'call_resolutions_p2': (20, 1), 'prep_files': (16, 1),
    },
    'fold_depth': {
        'gir_stmts': (100, 1), 'calls_lang': (2680, 1), 'calls_basics': (1280, 1), 'calls_core': (4360, 1),
        'calls_taint': (2540, 1), 'calls_structs': (47300, 1), 'p3_frames': (16, 1), 'stmt_transfers_p3': (100, 1),
        'handler_runs': (170, 1), 'space_adds': (1600, 1), 'states_created': (230, 1), 'p3_space_len': (547, 1),
        'sfg_nodes': (304, 1), 'sfg_edges': (430, 1), 'sfg_add_edge_calls': (1040, 1), 'call_paths': (10, 1),
        'call_resolutions_p3': (20, 1), 'taint_pops': (56, 1), 'taint_propagations': (10, 1),
        'taint_enqueue_calls': (56, 1), 'strict_eval_calls': (210, 1), 'strict_eval_bytes': (1010, 1),
        'strict_eval_max_bytes': (26, 1), 'strict_eval_max_result_bits': (16, 1), 'p2_frames': (20, 1),
        'p2_methods': (20, 1), 'stmt_transfers_p2': (70, 1), 'call_resolutions_p2': (16, 1), 'prep_files': (16, 1),
    },
    'fold_double': {
        'gir_stmts': (76, 1), 'calls_lang': (2340, 1), 'calls_basics': (1150, 1), 'calls_core': (3410, 1),
        'calls_taint': (2040, 1), 'calls_structs': (30200, 1), 'p3_frames': (16, 1), 'stmt_transfers_p3': (70, 1),
        'handler_runs': (126, 1), 'space_adds': (830, 1), 'states_created': (60, 1), 'p3_space_len': (246, 1),
        'sfg_nodes': (196, 1), 'sfg_edges': (190, 1), 'sfg_add_edge_calls': (500, 1), 'call_paths': (10, 1),
        'call_resolutions_p3': (20, 1), 'taint_pops': (46, 1), 'taint_propagations': (10, 1),
        'taint_enqueue_calls': (46, 1), 'strict_eval_calls': (26, 1), 'strict_eval_bytes': (13600, 1),
        'strict_eval_max_bytes': (2580, 1), 'strict_eval_max_result_bits': (13700, 1), 'p2_frames': (20, 1),
        'p2_methods': (20, 1), 'stmt_transfers_p2': (56, 1), 'call_resolutions_p2': (16, 1), 'prep_files': (16, 1),
    },
    'fold_square': {
        'gir_stmts': (76, 1), 'calls_lang': (2280, 1), 'calls_basics': (1140, 1), 'calls_core': (3410, 1),
        'calls_taint': (2040, 1), 'calls_structs': (30200, 1), 'p3_frames': (16, 1), 'stmt_transfers_p3': (70, 1),
        'handler_runs': (126, 1), 'space_adds': (830, 1), 'states_created': (60, 1), 'p3_space_len': (246, 1),
        'sfg_nodes': (196, 1), 'sfg_edges': (190, 1), 'sfg_add_edge_calls': (500, 1), 'call_paths': (10, 1),
        'call_resolutions_p3': (20, 1), 'taint_pops': (46, 1), 'taint_propagations': (10, 1),
        'taint_enqueue_calls': (46, 1), 'strict_eval_calls': (28, 1), 'strict_eval_bytes': (33200, 1),
        'strict_eval_max_bytes': (6170, 1), 'strict_eval_max_result_bits': (13700, 1), 'p2_frames': (20, 1),
        'p2_methods': (20, 1), 'stmt_transfers_p2': (56, 1), 'call_resolutions_p2': (16, 1), 'prep_files': (16, 1),
    },
    'hostile_concat': {
        'gir_stmts': (96, 1), 'calls_lang': (3240, 1), 'calls_basics': (1360, 1), 'calls_core': (4850, 1),
        'calls_taint': (3530, 1), 'calls_structs': (56000, 1), 'p3_frames': (16, 1), 'stmt_transfers_p3': (110, 1),
        'handler_runs': (186, 1), 'space_adds': (1340, 1), 'states_created': (120, 1), 'p3_space_len': (456, 1),
        'sfg_nodes': (360, 1), 'sfg_edges': (437, 1), 'sfg_add_edge_calls': (873, 1), 'call_paths': (10, 1),
        'call_resolutions_p3': (20, 1), 'taint_pops': (96, 1), 'taint_propagations': (10, 1),
        'taint_enqueue_calls': (96, 1), 'strict_eval_calls': (74, 1), 'strict_eval_bytes': (22900, 1),
        'strict_eval_max_bytes': (1730, 1), 'strict_eval_max_result_bits': (12900, 1), 'p2_frames': (20, 1),
        'p2_methods': (20, 1), 'stmt_transfers_p2': (76, 1), 'call_resolutions_p2': (16, 1), 'prep_files': (16, 1),
    },
    'hostile_literal': {
        'gir_stmts': (80, 1), 'calls_lang': (2560, 1), 'calls_basics': (1200, 1), 'calls_core': (3740, 1),
        'calls_taint': (2820, 1), 'calls_structs': (33300, 1), 'p3_frames': (16, 1), 'stmt_transfers_p3': (80, 1),
        'handler_runs': (140, 1), 'space_adds': (960, 1), 'states_created': (76, 1), 'p3_space_len': (306, 1),
        'sfg_nodes': (216, 1), 'sfg_edges': (210, 1), 'sfg_add_edge_calls': (530, 1), 'call_paths': (10, 1),
        'call_resolutions_p3': (20, 1), 'taint_pops': (96, 1), 'taint_propagations': (10, 1),
        'taint_enqueue_calls': (96, 1), 'strict_eval_calls': (26, 1), 'strict_eval_bytes': (25000, 4),
        'strict_eval_max_bytes': (8330, 4), 'strict_eval_max_result_bits': (5470, 1), 'p2_frames': (20, 1),
        'p2_methods': (20, 1), 'stmt_transfers_p2': (60, 1), 'call_resolutions_p2': (16, 1), 'prep_files': (16, 1),
    },
    'hostile_pow': {
        'gir_stmts': (96, 1), 'calls_lang': (2500, 1), 'calls_basics': (1340, 1), 'calls_core': (5120, 1),
        'calls_taint': (3880, 1), 'calls_structs': (49100, 1), 'p3_frames': (16, 1), 'stmt_transfers_p3': (110, 1),
        'handler_runs': (186, 1), 'space_adds': (1340, 1), 'states_created': (76, 1), 'p3_space_len': (450, 1),
        'sfg_nodes': (360, 1), 'sfg_edges': (376, 1), 'sfg_add_edge_calls': (890, 1), 'call_paths': (10, 1),
        'call_resolutions_p3': (20, 1), 'taint_pops': (110, 1), 'taint_propagations': (10, 1),
        'taint_enqueue_calls': (120, 1), 'strict_eval_calls': (30, 1), 'strict_eval_bytes': (126, 1),
        'strict_eval_max_bytes': (36, 1), 'strict_eval_max_result_bits': (7020, 1), 'p2_frames': (20, 1),
        'p2_methods': (20, 1), 'stmt_transfers_p2': (76, 1), 'call_resolutions_p2': (16, 1), 'prep_files': (16, 1),
    },
    'hostile_pow_tower': {
        'gir_stmts': (96, 1), 'calls_lang': (2500, 1), 'calls_basics': (1340, 1), 'calls_core': (5120, 1),
        'calls_taint': (3880, 1), 'calls_structs': (49100, 1), 'p3_frames': (16, 1), 'stmt_transfers_p3': (110, 1),
        'handler_runs': (186, 1), 'space_adds': (1340, 1), 'states_created': (76, 1), 'p3_space_len': (450, 1),
        'sfg_nodes': (360, 1), 'sfg_edges': (376, 1), 'sfg_add_edge_calls': (890, 1), 'call_paths': (10, 1),
        'call_resolutions_p3': (20, 1), 'taint_pops': (110, 1), 'taint_propagations': (10, 1),
        'taint_enqueue_calls': (120, 1), 'strict_eval_calls': (16, 2), 'strict_eval_bytes': (27, 3),
        'strict_eval_max_bytes': (16, 2), 'strict_eval_max_result_bits': (146, 1), 'p2_frames': (20, 1),
        'p2_methods': (20, 1), 'stmt_transfers_p2': (76, 1), 'call_resolutions_p2': (16, 1), 'prep_files': (16, 1),
    },
    'hostile_shift': {
        'gir_stmts': (96, 1), 'calls_lang': (2500, 1), 'calls_basics': (1340, 1), 'calls_core': (5120, 1),
        'calls_taint': (3880, 1), 'calls_structs': (49100, 1), 'p3_frames': (16, 1), 'stmt_transfers_p3': (110, 1),
        'handler_runs': (186, 1), 'space_adds': (1340, 1), 'states_created': (76, 1), 'p3_space_len': (450, 1),
        'sfg_nodes': (360, 1), 'sfg_edges': (376, 1), 'sfg_add_edge_calls': (890, 1), 'call_paths': (10, 1),
        'call_resolutions_p3': (20, 1), 'taint_pops': (110, 1), 'taint_propagations': (10, 1),
        'taint_enqueue_calls': (120, 1), 'strict_eval_calls': (30, 1), 'strict_eval_bytes': (126, 1),
        'strict_eval_max_bytes': (36, 1), 'strict_eval_max_result_bits': (2500, 1), 'p2_frames': (20, 1),
        'p2_methods': (20, 1), 'stmt_transfers_p2': (76, 1), 'call_resolutions_p2': (16, 1), 'prep_files': (16, 1),
    },
    'hostile_str_repeat': {
        'gir_stmts': (96, 1), 'calls_lang': (2560, 1), 'calls_basics': (1340, 1), 'calls_core': (5120, 1),
        'calls_taint': (3880, 1), 'calls_structs': (49100, 1), 'p3_frames': (16, 1), 'stmt_transfers_p3': (110, 1),
        'handler_runs': (186, 1), 'space_adds': (1340, 1), 'states_created': (76, 1), 'p3_space_len': (450, 1),
        'sfg_nodes': (360, 1), 'sfg_edges': (376, 1), 'sfg_add_edge_calls': (890, 1), 'call_paths': (10, 1),
        'call_resolutions_p3': (20, 1), 'taint_pops': (110, 1), 'taint_propagations': (10, 1),
        'taint_enqueue_calls': (120, 1), 'strict_eval_calls': (26, 1), 'strict_eval_bytes': (180, 1),
        'strict_eval_max_bytes': (56, 1), 'strict_eval_max_result_bits': (30, 1), 'p2_frames': (20, 1),
        'p2_methods': (20, 1), 'stmt_transfers_p2': (76, 1), 'call_resolutions_p2': (16, 1), 'prep_files': (16, 1),
    },
    'inherit_chain': {
        'gir_stmts': (230, 1), 'calls_lang': (4200, 1), 'calls_basics': (1990, 1), 'calls_core': (1480, 4),
        'calls_taint': (5820, 2), 'calls_structs': (24200, 3), 'p3_frames': (56, 1), 'stmt_transfers_p3': (260, 1),
        'handler_runs': (290, 1), 'space_adds': (1220, 2), 'states_created': (412, 1), 'p3_space_len': (7700, 1),
        'sfg_nodes': (383, 2), 'sfg_edges': (745, 2), 'sfg_add_edge_calls': (1670, 2), 'call_paths': (38, 1),
        'call_resolutions_p3': (100, 1), 'taint_pops': (589, 1), 'taint_propagations': (10, 1),
        'taint_enqueue_calls': (662, 1), 'strict_eval_calls': (50, 1), 'strict_eval_bytes': (200, 1),
        'strict_eval_max_bytes': (20, 1), 'strict_eval_max_result_bits': (10, 1), 'p2_frames': (36, 1),
        'p2_methods': (26, 1), 'stmt_transfers_p2': (130, 1), 'call_resolutions_p2': (46, 1), 'prep_files': (16, 1),
    },
    'java_chain_k2': {
        'gir_stmts': (206, 1), 'calls_lang': (3320, 1), 'calls_basics': (1310, 1), 'calls_core': (34300, 1),
        'calls_taint': (7100, 1), 'calls_structs': (129000, 1), 'p3_frames': (38, 1), 'stmt_transfers_p3': (323, 1),
        'handler_runs': (413, 1), 'space_adds': (2970, 1), 'states_created': (36, 1), 'p3_space_len': (1190, 1),
        'sfg_nodes': (873, 1), 'sfg_edges': (1120, 1), 'sfg_add_edge_calls': (2380, 1), 'call_paths': (36, 1),
        'call_resolutions_p3': (108, 1), 'taint_pops': (148, 1), 'taint_propagations': (10, 1),
        'taint_enqueue_calls': (196, 1), 'strict_eval_calls': (10, 1), 'strict_eval_bytes': (10, 1),
        'strict_eval_max_bytes': (10, 1), 'strict_eval_max_result_bits': (10, 1), 'p2_frames': (20, 1),
        'p2_methods': (20, 1), 'stmt_transfers_p2': (90, 1), 'call_resolutions_p2': (30, 1), 'prep_files': (10, 1),
    },
    'java_hostile_shift': {
        'gir_stmts': (116, 1), 'calls_lang': (2300, 1), 'calls_basics': (816, 1), 'calls_core': (2220, 1),
        'calls_taint': (1420, 1), 'calls_structs': (19400, 1), 'p3_frames': (10, 1), 'stmt_transfers_p3': (40, 1),
        'handler_runs': (90, 1), 'space_adds': (536, 1), 'states_created': (36, 1), 'p3_space_len': (130, 1),
        'sfg_nodes': (86, 1), 'sfg_edges': (100, 1), 'sfg_add_edge_calls': (310, 1), 'call_paths': (10, 1),
        'call_resolutions_p3': (10, 1), 'taint_pops': (56, 1), 'taint_propagations': (10, 1),
        'taint_enqueue_calls': (60, 1), 'strict_eval_calls': (20, 1), 'strict_eval_bytes': (46, 1),
        'strict_eval_max_bytes': (26, 1), 'strict_eval_max_result_bits': (2500, 1), 'p2_frames': (10, 1),
        'p2_methods': (10, 1), 'stmt_transfers_p2': (50, 1), 'call_resolutions_p2': (10, 1), 'prep_files': (10, 1),
    },
    'java_nested_loops': {
        'gir_stmts': (200, 1), 'calls_lang': (3490, 1), 'calls_basics': (1280, 1), 'calls_core': (4460, 1),
        'calls_taint': (2340, 1), 'calls_structs': (46600, 1), 'p3_frames': (10, 1), 'stmt_transfers_p3': (100, 1),
        'handler_runs': (180, 1), 'space_adds': (1030, 1), 'states_created': (70, 1), 'p3_space_len': (290, 1),
        'sfg_nodes': (239, 1), 'sfg_edges': (269, 1), 'sfg_add_edge_calls': (739, 1), 'call_paths': (10, 1),
        'call_resolutions_p3': (10, 1), 'taint_pops': (70, 1), 'taint_propagations': (10, 1),
        'taint_enqueue_calls': (86, 1), 'strict_eval_calls': (58, 1), 'strict_eval_bytes': (209, 1),
        'strict_eval_max_bytes': (26, 1), 'strict_eval_max_result_bits': (10, 1), 'p2_frames': (10, 1),
        'p2_methods': (10, 1), 'stmt_transfers_p2': (100, 1), 'call_resolutions_p2': (10, 1), 'prep_files': (10, 1),
    },
    'js_chain_k2': {
        'gir_stmts': (160, 1), 'calls_lang': (4550, 1), 'calls_basics': (1540, 1), 'calls_core': (47800, 1),
        'calls_taint': (10400, 1), 'calls_structs': (189000, 1), 'p3_frames': (76, 1), 'stmt_transfers_p3': (508, 1),
        'handler_runs': (580, 1), 'space_adds': (4720, 1), 'states_created': (60, 1), 'p3_space_len': (2090, 1),
        'sfg_nodes': (1150, 1), 'sfg_edges': (1480, 1), 'sfg_add_edge_calls': (3110, 1), 'call_paths': (71, 1),
        'call_resolutions_p3': (217, 1), 'taint_pops': (204, 1), 'taint_propagations': (10, 1),
        'taint_enqueue_calls': (225, 1), 'strict_eval_calls': (10, 1), 'strict_eval_bytes': (10, 1),
        'strict_eval_max_bytes': (10, 1), 'strict_eval_max_result_bits': (10, 1), 'p2_frames': (26, 1),
        'p2_methods': (26, 1), 'stmt_transfers_p2': (100, 1), 'call_resolutions_p2': (30, 1), 'prep_files': (10, 1),
    },
    'js_hostile_pow': {
        'gir_stmts': (96, 1), 'calls_lang': (3600, 1), 'calls_basics': (1300, 1), 'calls_core': (5340, 1),
        'calls_taint': (3890, 1), 'calls_structs': (50900, 1), 'p3_frames': (16, 1), 'stmt_transfers_p3': (110, 1),
        'handler_runs': (190, 1), 'space_adds': (1400, 1), 'states_created': (80, 1), 'p3_space_len': (456, 1),
        'sfg_nodes': (350, 1), 'sfg_edges': (376, 1), 'sfg_add_edge_calls': (930, 1), 'call_paths': (10, 1),
        'call_resolutions_p3': (20, 1), 'taint_pops': (116, 1), 'taint_propagations': (10, 1),
        'taint_enqueue_calls': (126, 1), 'strict_eval_calls': (30, 1), 'strict_eval_bytes': (126, 1),
        'strict_eval_max_bytes': (36, 1), 'strict_eval_max_result_bits': (7020, 1), 'p2_frames': (16, 1),
        'p2_methods': (16, 1), 'stmt_transfers_p2': (86, 1), 'call_resolutions_p2': (16, 1), 'prep_files': (10, 1),
    },
    'js_mutual_ring': {
        'gir_stmts': (150, 1), 'calls_lang': (4560, 1), 'calls_basics': (1520, 1), 'calls_core': (16700, 1),
        'calls_taint': (7960, 1), 'calls_structs': (102000, 1), 'p3_frames': (36, 1), 'stmt_transfers_p3': (240, 1),
        'handler_runs': (336, 1), 'space_adds': (2820, 1), 'states_created': (146, 1), 'p3_space_len': (928, 1),
        'sfg_nodes': (786, 1), 'sfg_edges': (946, 1), 'sfg_add_edge_calls': (2060, 1), 'call_paths': (10, 1),
        'call_resolutions_p3': (70, 1), 'taint_pops': (166, 1), 'taint_propagations': (10, 1),
        'taint_enqueue_calls': (176, 1), 'strict_eval_calls': (60, 1), 'strict_eval_bytes': (242, 1),
        'strict_eval_max_bytes': (26, 1), 'strict_eval_max_result_bits': (10, 1), 'p2_frames': (20, 1),
        'p2_methods': (20, 1), 'stmt_transfers_p2': (100, 1), 'call_resolutions_p2': (26, 1), 'prep_files': (10, 1),
    },
    'long_flow': {
        'gir_stmts': (160, 1), 'calls_lang': (3830, 1), 'calls_basics': (1720, 1), 'calls_core': (9520, 1),
        'calls_taint': (8710, 1), 'calls_structs': (623000, 1), 'p3_frames': (16, 1), 'stmt_transfers_p3': (317, 1),
        'handler_runs': (473, 1), 'space_adds': (2320, 1), 'states_created': (90, 1), 'p3_space_len': (944, 1),
        'sfg_nodes': (504, 1), 'sfg_edges': (767, 1), 'sfg_add_edge_calls': (1530, 1), 'call_paths': (10, 1),
        'call_resolutions_p3': (20, 1), 'taint_pops': (371, 1), 'taint_propagations': (10, 1),
        'taint_enqueue_calls': (476, 1), 'strict_eval_calls': (53, 1), 'strict_eval_bytes': (52, 2),
        'strict_eval_max_bytes': (26, 1), 'strict_eval_max_result_bits': (26, 1), 'p2_frames': (20, 1),
        'p2_methods': (20, 1), 'stmt_transfers_p2': (159, 1), 'call_resolutions_p2': (16, 1), 'prep_files': (16, 1),
    },
    'mutual_ring': {
        'gir_stmts': (159, 1), 'calls_lang': (3450, 1), 'calls_basics': (1610, 1), 'calls_core': (17000, 1),
        'calls_taint': (8430, 1), 'calls_structs': (107000, 1), 'p3_frames': (36, 1), 'stmt_transfers_p3': (260, 1),
        'handler_runs': (356, 1), 'space_adds': (2900, 1), 'states_created': (140, 1), 'p3_space_len': (922, 1),
        'sfg_nodes': (796, 1), 'sfg_edges': (930, 1), 'sfg_add_edge_calls': (2120, 1), 'call_paths': (10, 1),
        'call_resolutions_p3': (70, 1), 'taint_pops': (180, 1), 'taint_propagations': (10, 1),
        'taint_enqueue_calls': (190, 1), 'strict_eval_calls': (60, 1), 'strict_eval_bytes': (242, 1),
        'strict_eval_max_bytes': (26, 1), 'strict_eval_max_result_bits': (10, 1), 'p2_frames': (26, 1),
        'p2_methods': (26, 1), 'stmt_transfers_p2': (100, 1), 'call_resolutions_p2': (26, 1), 'prep_files': (16, 1),
    },
    'nested_loops': {
        'gir_stmts': (130, 1), 'calls_lang': (3630, 1), 'calls_basics': (1560, 1), 'calls_core': (6520, 1),
        'calls_taint': (4150, 1), 'calls_structs': (57200, 1), 'p3_frames': (16, 1), 'stmt_transfers_p3': (189, 1),
        'handler_runs': (260, 1), 'space_adds': (1630, 1), 'states_created': (120, 1), 'p3_space_len': (576, 1),
        'sfg_nodes': (459, 1), 'sfg_edges': (514, 1), 'sfg_add_edge_calls': (1090, 1), 'call_paths': (10, 1),
        'call_resolutions_p3': (30, 1), 'taint_pops': (96, 1), 'taint_propagations': (10, 1),
        'taint_enqueue_calls': (106, 1), 'strict_eval_calls': (66, 1), 'strict_eval_bytes': (226, 1),
        'strict_eval_max_bytes': (26, 1), 'strict_eval_max_result_bits': (10, 1), 'p2_frames': (20, 1),
        'p2_methods': (20, 1), 'stmt_transfers_p2': (106, 1), 'call_resolutions_p2': (20, 1), 'prep_files': (16, 1),
    },
    'params_n': {
        'gir_stmts': (116, 1), 'calls_lang': (2600, 1), 'calls_basics': (1340, 1), 'calls_core': (5260, 1),
        'calls_taint': (3850, 1), 'calls_structs': (45000, 1), 'p3_frames': (26, 1), 'stmt_transfers_p3': (110, 1),
        'handler_runs': (180, 1), 'space_adds': (1100, 1), 'states_created': (50, 1), 'p3_space_len': (336, 1),
        'sfg_nodes': (256, 1), 'sfg_edges': (286, 1), 'sfg_add_edge_calls': (740, 1), 'call_paths': (10, 1),
        'call_resolutions_p3': (40, 1), 'taint_pops': (130, 1), 'taint_propagations': (10, 1),
        'taint_enqueue_calls': (140, 1), 'strict_eval_calls': (19, 1), 'strict_eval_bytes': (68, 1),
        'strict_eval_max_bytes': (17, 1), 'strict_eval_max_result_bits': (10, 1), 'p2_frames': (26, 1),
        'p2_methods': (26, 1), 'stmt_transfers_p2': (70, 1), 'call_resolutions_p2': (20, 1), 'prep_files': (16, 1),
    },
    'self_application': {
        'gir_stmts': (120, 1), 'calls_lang': (2780, 1), 'calls_basics': (1420, 1), 'calls_core': (102000, 1),
        'calls_taint': (11000, 1), 'calls_structs': (148000, 1), 'p3_frames': (59, 1), 'stmt_transfers_p3': (309, 1),
        'handler_runs': (372, 1), 'space_adds': (2510, 1), 'states_created': (100, 1), 'p3_space_len': (1080, 1),
        'sfg_nodes': (1190, 1), 'sfg_edges': (1500, 1), 'sfg_add_edge_calls': (3170, 1), 'call_paths': (19, 1),
        'call_resolutions_p3': (135, 1), 'taint_pops': (176, 1), 'taint_propagations': (10, 1),
        'taint_enqueue_calls': (182, 1), 'strict_eval_calls': (10, 1), 'strict_eval_bytes': (10, 1),
        'strict_eval_max_bytes': (10, 1), 'strict_eval_max_result_bits': (10, 1), 'p2_frames': (26, 1),
        'p2_methods': (20, 1), 'stmt_transfers_p2': (80, 1), 'call_resolutions_p2': (16, 2), 'prep_files': (16, 1),
    },
    'self_recursion': {
        'gir_stmts': (150, 1), 'calls_lang': (3460, 1), 'calls_basics': (1620, 1), 'calls_core': (18900, 1),
        'calls_taint': (14100, 1), 'calls_structs': (223000, 1), 'p3_frames': (36, 1), 'stmt_transfers_p3': (390, 1),
        'handler_runs': (458, 1), 'space_adds': (3830, 1), 'states_created': (360, 1), 'p3_space_len': (1760, 1),
        'sfg_nodes': (1630, 1), 'sfg_edges': (2040, 1), 'sfg_add_edge_calls': (4200, 1), 'call_paths': (16, 1),
        'call_resolutions_p3': (96, 1), 'taint_pops': (250, 1), 'taint_propagations': (10, 1),
        'taint_enqueue_calls': (270, 1), 'strict_eval_calls': (198, 1), 'strict_eval_bytes': (958, 1),
        'strict_eval_max_bytes': (26, 1), 'strict_eval_max_result_bits': (13, 1), 'p2_frames': (26, 1),
        'p2_methods': (26, 1), 'stmt_transfers_p2': (96, 1), 'call_resolutions_p2': (26, 1), 'prep_files': (16, 1),
    },
}


# fold_asym (added after a seeded change that squared only the first operand's count slipped through): same linear
# shape of work as fold_depth on the healthy tree, so it shares that family's committed envelope with 2x extra room.
ENVELOPES['fold_asym'] = {k: (2 * a, d) for k, (a, d) in ENVELOPES['fold_depth'].items()}


# hostile_orders / js_hostile_orders (both operand orders of the asymmetric operators; added after a seeded change that
# mis-bounded only `<int> * "<str>"` slipped through): the same constant-per-n shape of work as hostile_pow with a
# program seven times as long; measured on the healthy tree every counter stays below 1.1 x hostile_pow's envelope, so
# 15 x that envelope keeps >= 10 x head-room.
ENVELOPES['hostile_orders'] = {k: (15 * a, d) for k, (a, d) in ENVELOPES['hostile_pow'].items()}
ENVELOPES['js_hostile_orders'] = {k: (15 * a, d) for k, (a, d) in ENVELOPES['js_hostile_pow'].items()}


# hostile_index / js_ / java_ (index ladders 10**n written into element lists) and empty_callees / js_ / java_ (body-less
# callees, added after a seeded change that re-queued a callee whose frame cannot be initialised slipped through):
# fitted with `merge` on the tree with proposed/C13-unbounded-array-index.diff applied (the unrepaired tree violates the
# property on the index families), seeds 0-5 thorough, both --enable-p2 modes, a = 10 x the largest normalised value.
ENVELOPES.update({
    'empty_callees': {
        'gir_stmts': (340, 1), 'calls_lang': (6880, 1), 'calls_basics': (2800, 1), 'calls_core': (39900, 1),
        'calls_taint': (18500, 1), 'calls_structs': (233000, 1), 'p3_frames': (156, 1),
        'stmt_transfers_p3': (830, 1), 'handler_runs': (750, 1), 'space_adds': (4460, 1), 'states_created': (356, 1),
        'p3_space_len': (1780, 1), 'sfg_nodes': (1940, 1), 'sfg_edges': (2160, 1), 'sfg_add_edge_calls': (4580, 1),
        'call_paths': (90, 1), 'call_resolutions_p3': (400, 1), 'taint_pops': (366, 1),
        'taint_propagations': (10, 1), 'taint_enqueue_calls': (376, 1), 'strict_eval_calls': (30, 1),
        'strict_eval_bytes': (35, 1), 'strict_eval_max_bytes': (10, 1), 'strict_eval_max_result_bits': (10, 1),
        'fold_attempts': (186, 1), 'fold_operand_bytes': (370, 1), 'fold_max_compute_bits': (10, 1),
        'fold_max_result_bits': (16, 1), 'p3_max_const_bits': (160, 1), 'p2_max_const_bits': (120, 1),
        'array_max_gap': (10, 1), 'array_max_len': (10, 1), 'space_max_array_len': (10, 1), 'p2_frames': (36, 1),
        'p2_methods': (40, 1), 'stmt_transfers_p2': (236, 1), 'call_resolutions_p2': (80, 1), 'prep_files': (16, 1),
    },
    'hostile_index': {
        'gir_stmts': (430, 1), 'calls_lang': (9790, 1), 'calls_basics': (4520, 1), 'calls_core': (47800, 1),
        'calls_taint': (34600, 1), 'calls_structs': (605000, 1), 'p3_frames': (16, 1),
        'stmt_transfers_p3': (1540, 1), 'handler_runs': (1340, 1), 'space_adds': (9800, 1),
        'states_created': (246, 1), 'p3_space_len': (3700, 1), 'sfg_nodes': (2960, 1), 'sfg_edges': (4060, 1),
        'sfg_add_edge_calls': (9140, 1), 'call_paths': (10, 1), 'call_resolutions_p3': (30, 1),
        'taint_pops': (1200, 1), 'taint_propagations': (10, 1), 'taint_enqueue_calls': (1250, 1),
        'strict_eval_calls': (120, 1), 'strict_eval_bytes': (180, 1), 'strict_eval_max_bytes': (10, 1),
        'strict_eval_max_result_bits': (30, 1), 'fold_attempts': (16, 1), 'fold_operand_bytes': (10, 1),
        'fold_max_compute_bits': (10, 1), 'fold_max_result_bits': (10, 1), 'p3_max_const_bits': (240, 1),
        'p2_max_const_bits': (240, 1), 'array_max_gap': (2500, 1), 'array_max_len': (2500, 1),
        'space_max_array_len': (2500, 1), 'p2_frames': (20, 1), 'p2_methods': (20, 1), 'stmt_transfers_p2': (596, 1),
        'call_resolutions_p2': (26, 1), 'prep_files': (16, 1),
    },
    'java_empty_callees': {
        'gir_stmts': (220, 1), 'calls_lang': (3570, 1), 'calls_basics': (1350, 1), 'calls_core': (8030, 1),
        'calls_taint': (3160, 1), 'calls_structs': (67500, 1), 'p3_frames': (10, 1), 'stmt_transfers_p3': (177, 1),
        'handler_runs': (206, 1), 'space_adds': (1140, 1), 'states_created': (166, 1), 'p3_space_len': (386, 1),
        'sfg_nodes': (330, 1), 'sfg_edges': (384, 1), 'sfg_add_edge_calls': (986, 1), 'call_paths': (20, 1),
        'call_resolutions_p3': (76, 1), 'taint_pops': (75, 1), 'taint_propagations': (10, 1),
        'taint_enqueue_calls': (75, 1), 'strict_eval_calls': (16, 1), 'strict_eval_bytes': (16, 1),
        'strict_eval_max_bytes': (10, 1), 'strict_eval_max_result_bits': (10, 1), 'fold_attempts': (100, 1),
        'fold_operand_bytes': (200, 1), 'fold_max_compute_bits': (10, 1), 'fold_max_result_bits': (16, 1),
        'p3_max_const_bits': (160, 1), 'p2_max_const_bits': (40, 1), 'array_max_gap': (10, 1),
        'array_max_len': (10, 1), 'space_max_array_len': (10, 1), 'p2_frames': (10, 1), 'p2_methods': (20, 1),
        'stmt_transfers_p2': (116, 1), 'call_resolutions_p2': (26, 1), 'prep_files': (10, 1),
    },
    'java_hostile_index': {
        'gir_stmts': (170, 1), 'calls_lang': (3560, 1), 'calls_basics': (1370, 1), 'calls_core': (5700, 1),
        'calls_taint': (3720, 1), 'calls_structs': (53200, 1), 'p3_frames': (10, 1), 'stmt_transfers_p3': (96, 1),
        'handler_runs': (206, 1), 'space_adds': (1320, 1), 'states_created': (56, 1), 'p3_space_len': (366, 1),
        'sfg_nodes': (266, 1), 'sfg_edges': (376, 1), 'sfg_add_edge_calls': (990, 1), 'call_paths': (10, 1),
        'call_resolutions_p3': (10, 1), 'taint_pops': (140, 1), 'taint_propagations': (10, 1),
        'taint_enqueue_calls': (156, 1), 'strict_eval_calls': (40, 1), 'strict_eval_bytes': (60, 1),
        'strict_eval_max_bytes': (10, 1), 'strict_eval_max_result_bits': (30, 1), 'fold_attempts': (10, 1),
        'fold_operand_bytes': (10, 1), 'fold_max_compute_bits': (10, 1), 'fold_max_result_bits': (10, 1),
        'p3_max_const_bits': (160, 1), 'p2_max_const_bits': (160, 1), 'array_max_gap': (2500, 1),
        'array_max_len': (2500, 1), 'space_max_array_len': (10, 1), 'p2_frames': (10, 1), 'p2_methods': (10, 1),
        'stmt_transfers_p2': (110, 1), 'call_resolutions_p2': (16, 1), 'prep_files': (10, 1),
    },
    'js_empty_callees': {
        'gir_stmts': (256, 1), 'calls_lang': (6020, 1), 'calls_basics': (2060, 1), 'calls_core': (13400, 1),
        'calls_taint': (8460, 1), 'calls_structs': (114000, 1), 'p3_frames': (30, 1), 'stmt_transfers_p3': (380, 1),
        'handler_runs': (390, 1), 'space_adds': (2460, 1), 'states_created': (286, 1), 'p3_space_len': (920, 1),
        'sfg_nodes': (860, 1), 'sfg_edges': (930, 1), 'sfg_add_edge_calls': (1930, 1), 'call_paths': (40, 1),
        'call_resolutions_p3': (158, 1), 'taint_pops': (194, 1), 'taint_propagations': (10, 1),
        'taint_enqueue_calls': (206, 1), 'strict_eval_calls': (16, 1), 'strict_eval_bytes': (16, 1),
        'strict_eval_max_bytes': (10, 1), 'strict_eval_max_result_bits': (10, 1), 'fold_attempts': (160, 1),
        'fold_operand_bytes': (320, 1), 'fold_max_compute_bits': (10, 1), 'fold_max_result_bits': (16, 1),
        'p3_max_const_bits': (160, 1), 'p2_max_const_bits': (120, 1), 'array_max_gap': (10, 1),
        'array_max_len': (10, 1), 'space_max_array_len': (10, 1), 'p2_frames': (20, 1), 'p2_methods': (26, 1),
        'stmt_transfers_p2': (180, 1), 'call_resolutions_p2': (46, 1), 'prep_files': (10, 1),
    },
    'js_hostile_index': {
        'gir_stmts': (280, 1), 'calls_lang': (7560, 1), 'calls_basics': (3180, 1), 'calls_core': (26000, 1),
        'calls_taint': (20300, 1), 'calls_structs': (275000, 1), 'p3_frames': (16, 1), 'stmt_transfers_p3': (480, 1),
        'handler_runs': (746, 1), 'space_adds': (5950, 1), 'states_created': (140, 1), 'p3_space_len': (2180, 1),
        'sfg_nodes': (1720, 1), 'sfg_edges': (2200, 1), 'sfg_add_edge_calls': (4770, 1), 'call_paths': (10, 1),
        'call_resolutions_p3': (20, 1), 'taint_pops': (686, 1), 'taint_propagations': (10, 1),
        'taint_enqueue_calls': (706, 1), 'strict_eval_calls': (76, 1), 'strict_eval_bytes': (106, 1),
        'strict_eval_max_bytes': (10, 1), 'strict_eval_max_result_bits': (30, 1), 'fold_attempts': (10, 1),
        'fold_operand_bytes': (10, 1), 'fold_max_compute_bits': (10, 1), 'fold_max_result_bits': (10, 1),
        'p3_max_const_bits': (120, 1), 'p2_max_const_bits': (80, 1), 'array_max_gap': (2500, 1),
        'array_max_len': (2500, 1), 'space_max_array_len': (2500, 1), 'p2_frames': (16, 1), 'p2_methods': (16, 1),
        'stmt_transfers_p2': (280, 1), 'call_resolutions_p2': (16, 1), 'prep_files': (10, 1),
    },
})


if __name__ == "__main__":
    if len(sys.argv) == 4 and sys.argv[1] == "merge":
        merge(sys.argv[2], sys.argv[3])
    else:
        main()
