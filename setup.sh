#!/bin/sh
# Offline set-up: third-party helpers for the harness go to /verif/.deps (git-ignored).
# Nothing is installed into /venv and nothing is fetched from a network.
set -e
cd "$(dirname "$0")"
if [ ! -f .deps/.ok ]; then
  rm -rf .deps
  PIP_NO_INDEX=1 /venv/bin/pip install --quiet --no-index --find-links /opt/veriftools/wheels \
      --target .deps icontract hypothesis jsonschema >/dev/null 2>.deps.log || { cat .deps.log; exit 1; }
  rm -f .deps.log
  # keep /venv's own numpy/pandas authoritative: drop anything that shadows them
  rm -rf .deps/numpy .deps/numpy-* .deps/numpy.libs .deps/pandas .deps/pandas-* 2>/dev/null || true
  touch .deps/.ok
fi
mkdir -p evidence replay
# warm the YAML loader-equality cache (CSafeLoader == SafeLoader on the repo's default settings)
PYTHONHASHSEED=0 /venv/bin/python -c "import sys; sys.path.insert(0, '.'); from lib import lianrun; lianrun.prepare_zygote()" >/dev/null 2>&1 || true
echo "setup ok"
