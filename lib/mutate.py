"""Seeded byte-level mutators for source files (C03 workload).

Every random choice comes from the `random.Random` handed in, so a (seed, input) pair always yields the same
mutant.  The mutators know nothing about any language: they delete, insert, transpose, truncate, duplicate a chunk
of, or splice two byte strings; `mutate` applies 1-8 of them.  Most inserted material is ASCII punctuation / short
tokens taken from the file itself so that the mutant usually still decodes as UTF-8 (lian then reaches the
tree-sitter + lowering code); a small fraction of raw bytes keeps the "cannot even be read" path exercised."""

PUNCT = b"(){}[]<>;:,.=+-*/%&|^!~?@#$\\'\"` \t\n"
TOKENS = [b"(", b")", b"{", b"}", b"[", b"]", b";", b":", b",", b".", b"=", b"==", b"=>", b"->", b"::", b"\n",
          b"\n\n", b"    ", b"\t", b"'", b'"', b'"""', b"`", b"/*", b"*/", b"//", b"#", b"\\", b"@", b"$", b"%",
          b"...", b"?", b"!", b"<", b">", b"&&", b"||", b"0", b"1", b"x", b"_", b"if ", b"else ", b"for ", b"while ",
          b"def ", b"class ", b"function ", b"return ", b"import ", b"new ", b"var ", b"let ", b"end\n", b"do\n",
          b"try ", b"catch ", b"case ", b"switch ", b"lambda ", b"yield ", b"await ", b"async ", b"static ",
          b"func ", b"struct ", b"type ", b"interface ", b"enum ", b"\xc3\xa9", b"\xe4\xb8\xad", b"\x00", b"\xff"]

EDITS = ("delete", "insert", "transpose", "truncate", "duplicate", "splice")


def _span(rng, n, maxlen):
    """A random [a, b) inside range(n); short spans dominate, occasionally a long one."""
    if n <= 0:
        return 0, 0
    r = rng.random()
    if r < 0.5:
        ln = 1 + int(rng.random() * 3)
    elif r < 0.9:
        ln = 1 + int(rng.random() * 24)
    else:
        ln = 1 + int(rng.random() * max(1, maxlen))
    ln = min(ln, n)
    a = rng.randrange(0, n - ln + 1)
    return a, a + ln


def _snap_line(data, pos):
    """Move pos to the start of its line (used by half of the chunk operations: whole lines are the
    syntactically interesting chunks)."""
    i = data.rfind(b"\n", 0, pos)
    return i + 1


def op_delete(rng, data, other=None):
    if not data:
        return data
    a, b = _span(rng, len(data), len(data) // 4)
    if rng.random() < 0.3:
        a = _snap_line(data, a)
        e = data.find(b"\n", b)
        b = len(data) if e < 0 else e + 1
    return data[:a] + data[b:]


def op_insert(rng, data, other=None):
    pos = rng.randrange(0, len(data) + 1)
    r = rng.random()
    if r < 0.45:
        ins = rng.choice(TOKENS)
    elif r < 0.7:
        ins = bytes(rng.choice(PUNCT) for _ in range(1 + int(rng.random() * 4)))
    elif r < 0.9 and data:
        a, b = _span(rng, len(data), 40)
        ins = data[a:b]
    elif r < 0.97:
        ins = bytes(rng.randrange(32, 127) for _ in range(1 + int(rng.random() * 6)))
    else:
        ins = bytes(rng.randrange(0, 256) for _ in range(1 + int(rng.random() * 3)))
    return data[:pos] + ins + data[pos:]


def op_transpose(rng, data, other=None):
    n = len(data)
    if n < 2:
        return data
    if rng.random() < 0.5:
        i = rng.randrange(0, n - 1)
        return data[:i] + data[i + 1:i + 2] + data[i:i + 1] + data[i + 2:]
    # swap two disjoint spans
    a, b = _span(rng, n, n // 6)
    c, d = _span(rng, n, n // 6)
    if c < a:
        a, b, c, d = c, d, a, b
    if b > c:
        return data
    return data[:a] + data[c:d] + data[b:c] + data[a:b] + data[d:]


def op_truncate(rng, data, other=None):
    if not data:
        return data
    if rng.random() < 0.8:
        return data[:rng.randrange(0, len(data))]
    return data[rng.randrange(0, len(data)):]          # drop a prefix instead


def op_duplicate(rng, data, other=None):
    if not data:
        return data
    a, b = _span(rng, len(data), len(data) // 3)
    if rng.random() < 0.5:
        a = _snap_line(data, a)
    chunk = data[a:b]
    times = 1 if rng.random() < 0.8 else 2 + int(rng.random() * 6)
    pos = b if rng.random() < 0.5 else rng.randrange(0, len(data) + 1)
    return data[:pos] + chunk * times + data[pos:]


def op_splice(rng, data, other=None):
    if not other:
        other = data
    if not data or not other:
        return data + other
    a = rng.randrange(0, len(data) + 1)
    b = rng.randrange(0, len(other) + 1)
    if rng.random() < 0.5:
        a = _snap_line(data, a)
        b = _snap_line(other, b)
    if rng.random() < 0.7:
        return data[:a] + other[b:]
    # a window of the other file dropped into this one
    c = min(len(other), b + 1 + int(rng.random() * 200))
    return data[:a] + other[b:c] + data[a:]


OPS = {"delete": op_delete, "insert": op_insert, "transpose": op_transpose, "truncate": op_truncate,
       "duplicate": op_duplicate, "splice": op_splice}
WEIGHTS = {"delete": 5, "insert": 5, "transpose": 3, "truncate": 2, "duplicate": 3, "splice": 2}


def mutate(rng, data, other=None, n_edits=None, max_len=200_000):
    """Apply 1-8 seeded byte-level edits. Returns (mutant bytes, [names of the edits applied])."""
    if n_edits is None:
        n_edits = 1 + min(7, int(rng.expovariate(0.45)))
    names = list(WEIGHTS)
    weights = [WEIGHTS[n] for n in names]
    applied = []
    out = data
    for _ in range(n_edits):
        name = rng.choices(names, weights)[0]
        out = OPS[name](rng, out, other)
        applied.append(name)
        if len(out) > max_len:
            out = out[:max_len]
    return out, applied
