"""Projects analysed by the C14 determinism check: hand-written multi-file programs for the seven frontends (classes,
imports, parameter-kind taint sources flowing into `sink` calls so that taint/ is non-empty), seeded generators of
name-heavy programs (many functions / call targets / fields / string keys: the material that set- and dict-iteration
order could leak through), and the repository's own corpora directories (inputs only, never oracles)."""
import os

EXT = {"python": ".py", "javascript": ".js", "typescript": ".ts", "java": ".java", "go": ".go", "c": ".c", "php": ".php"}
LANGS = list(EXT)


def taint_settings(lang, entries=("%unit_init", "main", "handler", "handle", "process", "serve")):
    """Entry methods by name; a parameter called req/tainted/payload is a source; sink()/emit()/exec_query() are sinks."""
    entry = "- method_list: [" + ", ".join(f"'{e}'" for e in entries) + "]\n"
    src_rules = "".join(f"    - operation: parameter_decl\n      name: {n}\n" for n in ("req", "tainted", "payload", "$req"))
    source = f"- lang: {lang}\n  rules:\n{src_rules}"
    sink_rules = "".join(
        f"    - operation: call_stmt\n      name: {n}\n      target: [\\%arg0]\n      vuln_type: generic_sink\n"
        for n in ("sink", "emit", "exec_query"))
    sink = f"- lang: {lang}\n  rules:\n{sink_rules}"
    prop = ("- lang: " + lang + "\n  rules:\n  - operation: assign_stmt\n    src: operand1\n    dst:\n      - [\\%target]\n"
            "  - operation: field_read\n    src: receiver\n    dst: [\\%target]\n")
    return {"entry": entry, "source": source, "sink": sink, "propagation": prop}


# ---------------------------------------------------------------------------------------------------
# hand-written projects

HAND = []


def _p(name, lang, files, extra=(), entries=None):
    HAND.append({"name": name, "lang": lang, "files": files, "extra": list(extra),
                 "settings": taint_settings(lang, *( [entries] if entries else [] )), "origin": "hand"})


_p("py_store_taint", "python", {
    "app.py": """import util
from models.store import Store, Cache

class Service:
    registry = {}

    def __init__(self, name):
        self.name = name
        self.store = Store(name)
        self.cache = Cache()

    def handle(self, req, other):
        v = self.store.put("k", req)
        w = util.wrap(v)
        self.cache.remember(w)
        sink(w)
        return other

def handler(req, other):
    s = Store("a")
    v = s.put("k", req)
    w = util.wrap(v)
    sink(w)
    t = util.clean(other)
    emit(t)
    return other

def main():
    svc = Service("svc")
    svc.handle(1, 2)
    handler(3, 4)

main()
""",
    "util.py": """def wrap(x):
    y = x + "!"
    return y

def clean(x):
    return 5

def join_all(parts):
    out = ""
    for p in parts:
        out = out + p
    return out
""",
    "models/__init__.py": "",
    "models/store.py": """class Store:
    def __init__(self, name):
        self.name = name
        self.items = {}
        self.count = 0

    def put(self, key, val):
        self.items[key] = val
        self.count = self.count + 1
        return val

    def get(self, key):
        return self.items[key]

class Cache(Store):
    def __init__(self):
        self.last = None

    def remember(self, v):
        self.last = v
        return self.last
""",
})

_p("py_control_mix", "python", {
    "main.py": """import os
from shapes import Circle, Square, area_sum

COLORS = {"red": 1, "green": 2, "blue": 3}
NAMES = {"alpha", "beta", "gamma", "delta"}

def pick(kind, r):
    if kind == "c":
        s = Circle(r)
    elif kind == "s":
        s = Square(r)
    else:
        s = None
    return s

def loop(n):
    total = 0
    i = 0
    while i < n:
        if i % 2 == 0:
            total += i
        else:
            total -= 1
        i += 1
    for k in COLORS:
        total = total + COLORS[k]
    for nm in NAMES:
        total = total + len(nm)
    try:
        total = total // n
    except ZeroDivisionError as e:
        total = -1
    finally:
        total = total + 1
    return total

def process(payload, flag):
    shapes = [pick("c", 1), pick("s", 2)]
    a = area_sum(shapes)
    data = {"p": payload, "a": a}
    if flag:
        exec_query(data["p"])
    return loop(a)

process("x", True)
""",
    "shapes.py": """class Shape:
    sides = 0
    def area(self):
        return 0
    def describe(self):
        return "shape"

class Circle(Shape):
    def __init__(self, r):
        self.r = r
    def area(self):
        return 3 * self.r * self.r

class Square(Shape):
    sides = 4
    def __init__(self, a):
        self.a = a
    def area(self):
        return self.a * self.a

def area_sum(shapes):
    t = 0
    for s in shapes:
        t = t + s.area()
    return t
""",
})

_p("py_defaults_named", "python", {
    "conf.py": """class Alpha:
    def __init__(self):
        self.kind = "a"

class Beta:
    def __init__(self):
        self.kind = "b"

def connect(host, port=80, debug=False, name="x", retries=3, *extra, **options):
    if debug:
        return host
    return name

def render(tainted, title="t", footer="f", width=10):
    out = title + tainted + footer
    emit(out)
    return out

def choose(flag):
    if flag:
        x = Alpha()
    else:
        x = Beta()
    return x
""",
    "main.py": """from conf import connect, render, choose, Alpha, Beta

def handler(req, flag):
    if flag:
        who = Alpha()
        label = "left"
    else:
        who = Beta()
        label = "right"
    c1 = connect("h")
    c2 = connect("h", 8080, name=who, zeta=label, eta=who, theta=req)
    c3 = connect("h", 1, True, "n", 5, who, label, req)
    r1 = render(req)
    r2 = render(req, footer=label)
    y = choose(flag)
    sink(r2)
    return y

handler("q", True)
""",
})

_p("js_classes_taint", "javascript", {
    "index.js": """const util = require('./lib/util');
import { Store } from './lib/store.js';

class Service {
  constructor(name) { this.name = name; this.store = new Store(name); }
  handle(req, other) {
    const v = this.store.put('k', req);
    const w = util.wrap(v);
    sink(w);
    return other;
  }
}

function handler(req, other) {
  let s = new Store('a');
  let v = s.put('k', req);
  let w = util.wrap(v);
  sink(w);
  let t = { a: other, b: w };
  emit(t.b);
  return other;
}

function main() {
  const svc = new Service('svc');
  svc.handle(1, 2);
  handler(3, 4);
  const fns = { h: handler, m: main };
  for (const k in fns) { console.log(k); }
}
main();
""",
    "lib/util.js": """function wrap(x) { let y = x + '!'; return y; }
function clean(x) { return 5; }
const joinAll = (parts) => { let out = ''; for (const p of parts) { out = out + p; } return out; };
module.exports = { wrap, clean, joinAll };
""",
    "lib/store.js": """export class Store {
  constructor(name) { this.name = name; this.items = {}; this.count = 0; }
  put(key, val) { this.items[key] = val; this.count = this.count + 1; return val; }
  get(key) { return this.items[key]; }
}
export class Cache extends Store {
  remember(v) { this.last = v; return this.last; }
}
""",
})

_p("ts_mixed_literals", "typescript", {
    "lits.ts": """function handler(req: string, n: number): number {
  const mixed = [1, 'two', true, null, { k: 1 }, [2, 3], req, n + 1, -1, 1.5, undefined, `t${n}`];
  const nums = [1, 2, 3];
  const strs = ['a', "b", `c`];
  const objs = [{ a: 1 }, { b: 'x' }, new Map(), [1], () => 1, function () { return 2; }];
  let t = mixed[6];
  sink(t);
  const nested = [[1, 'a'], [true, null], [{}, []]];
  return nums.length + strs.length + objs.length + nested.length;
}
function main(): void { handler('x', 3); }
main();
""",
})

_p("ts_shapes", "typescript", {
    "main.ts": """import { Shape, Circle, Square } from './shapes';

function areaSum(shapes: Shape[]): number {
  let t = 0;
  for (const s of shapes) { t = t + s.area(); }
  return t;
}

function handler(req: string, n: number): number {
  const list: Shape[] = [new Circle(1), new Square(2)];
  let a = areaSum(list);
  let msg = req + a;
  sink(msg);
  let i = 0;
  while (i < n) { if (i % 2 == 0) { a += i; } else { a -= 1; } i++; }
  return a;
}

function main(): void { handler('x', 3); }
main();
""",
    "shapes.ts": """export interface Shape { area(): number; }
export class Circle implements Shape {
  constructor(public r: number) { }
  area(): number { return 3 * this.r * this.r; }
}
export class Square implements Shape {
  a: number = 2;
  constructor(a: number) { }
  area(): number { return this.a * this.a; }
  describe(label: string = 'sq', sep: string = ':', pad: number = 0): string { return label + sep + pad; }
}
export function label(s: Square): string { return s.describe(); }
""",
})

_p("java_service", "java", {
    "app/Main.java": """package app;

import app.model.Store;
import app.util.Text;

public class Main {
    static int counter = 0;

    public static String handler(String req, String other) {
        Store s = new Store("a");
        String v = s.put("k", req);
        String w = Text.wrap(v);
        sink(w);
        String t = Text.clean(other);
        emit(t);
        return other;
    }

    static void sink(String x) { }
    static void emit(String x) { }

    public static void main(String[] args) {
        handler("1", "2");
        for (int i = 0; i < 3; i++) {
            if (i % 2 == 0) { counter += i; } else { counter -= 1; }
        }
        switch (counter) { case 1: counter = 2; break; default: counter = 0; }
    }
}
""",
    "app/model/Store.java": """package app.model;

import java.util.HashMap;

public class Store {
    String name;
    HashMap<String, String> items;
    int count;

    public Store(String name) { this.name = name; this.items = new HashMap<String, String>(); this.count = 0; }
    public String put(String key, String val) { this.items.put(key, val); this.count = this.count + 1; return val; }
    public String get(String key) { return this.items.get(key); }
}
""",
    "app/util/Text.java": """package app.util;

public class Text {
    public static String wrap(String x) { String y = x + "!"; return y; }
    public static String clean(String x) { return "5"; }
}
""",
})

_p("go_service", "go", {
    "main.go": """package main

import "fmt"

type Store struct {
	name  string
	items map[string]string
	count int
}

func (s *Store) Put(key string, val string) string {
	s.items[key] = val
	s.count = s.count + 1
	return val
}

func handler(req string, other string) string {
	s := Store{name: "a", items: map[string]string{}}
	v := s.Put("k", req)
	w := wrap(v)
	sink(w)
	t := clean(other)
	emit(t)
	return other
}

func sink(x string) {}
func emit(x string) {}

func main() {
	handler("1", "2")
	total := 0
	for i := 0; i < 3; i++ {
		if i%2 == 0 {
			total += i
		} else {
			total -= 1
		}
	}
	fmt.Println(total)
}
""",
    "util.go": """package main

func wrap(x string) string {
	y := x + "!"
	return y
}

func clean(x string) string {
	return "5"
}
""",
})

_p("c_buffers", "c", {
    "main.c": """#include "util.h"

struct store { int count; char *last; };

static struct store *g_store;

char *put(struct store *s, char *val) {
    s->last = val;
    s->count = s->count + 1;
    return val;
}

int handler(char *req, int other) {
    char *v = put(g_store, req);
    char *w = wrap(v);
    sink(w);
    int t = clean(other);
    emit(t);
    return other;
}

int main(int argc, char **argv) {
    int total = 0;
    int i;
    handler(argv[0], argc);
    for (i = 0; i < 3; i++) {
        if (i % 2 == 0) { total += i; } else { total -= 1; }
    }
    switch (total) { case 1: total = 2; break; default: total = 0; }
    return total;
}
""",
    "util.c": """char *wrap(char *x) {
    char *y = x;
    return y;
}

int clean(int x) {
    return 5;
}
""",
    "util.h": "char *wrap(char *x);\nint clean(int x);\n",
})

_p("php_service", "php", {
    "index.php": """<?php
require_once 'lib/Store.php';
require_once 'lib/util.php';

function handler($req, $other) {
    $s = new Store("a");
    $v = $s->put("k", $req);
    $w = wrap($v);
    sink($w);
    $t = clean($other);
    emit($t);
    return $other;
}

function main() {
    handler(1, 2);
    $total = 0;
    for ($i = 0; $i < 3; $i++) {
        if ($i % 2 == 0) { $total += $i; } else { $total -= 1; }
    }
    $colors = array("red" => 1, "green" => 2);
    foreach ($colors as $k => $c) { $total = $total + $c; }
    return $total;
}
main();
""",
    "lib/Store.php": """<?php
class Store {
    public $name;
    public $items;
    public $count = 0;
    function __construct($name) { $this->name = $name; $this->items = array(); }
    function put($key, $val) { $this->items[$key] = $val; $this->count = $this->count + 1; return $val; }
    function get($key) { return $this->items[$key]; }
}
""",
    "lib/util.php": """<?php
function wrap($x) { $y = $x . "!"; return $y; }
function clean($x) { return 5; }
""",
})


# nested-object writers (see nested_unit below for the generated family): a callee adds 4-6 NEW fields to an object
# reached through one or two field hops from its parameter / from this / from a returned object, while the caller's
# object already has fields of its own there. PROBE_FIELDS lists, per project, groups of field names that must end up in
# ONE state's `fields` dict of s2space_p3 when the nested merge really happened (counted as evidence, with a floor).
PROBE_FIELDS = {}

_p("py_nested_fill", "python", {
    "nested.py": """class Inner:
    def __init__(self, seed):
        self.seed = seed
        self.kind = "inner"

class Middle:
    def __init__(self, seed):
        self.inner = Inner(seed)
        self.label = "m"

class Outer:
    def __init__(self, seed):
        self.inner = Inner(seed)
        self.middle = Middle(seed)
        self.name = "o"

    def refresh(self, v):
        self.inner.sigma = v
        self.inner.kappa = 2
        self.inner.omega = "w"
        self.inner.theta = v
        self.inner.lambda_ = 5

def fill(o, v):
    o.inner.alpha = v
    o.inner.beta = 2
    o.inner.gamma = "g"
    o.inner.delta = v
    o.inner.epsilon = 3
    o.inner.zeta = "z"

def fill_deep(o, v):
    o.middle.inner.amber = v
    o.middle.inner.birch = 1
    o.middle.inner.cedar = "c"
    o.middle.inner.dune = v
    o.middle.inner.ember = 4

def build(v):
    o = Outer(v)
    return o

def decorate(v):
    o = build(v)
    o.inner.flint = v
    o.inner.grove = 1
    o.inner.haze = "h"
    o.inner.isle = v
    return o

def handler(req, other):
    b = Outer(other)
    fill(b, req)
    fill_deep(b, req)
    b.refresh(req)
    d = decorate(req)
    sink(b.inner.alpha)
    return d.inner.flint

def main():
    handler(1, 2)

main()
""",
})
PROBE_FIELDS["py_nested_fill"] = [["seed", "kind", "alpha", "beta", "gamma", "delta", "epsilon", "zeta"],
                                  ["seed", "kind", "amber", "birch", "cedar", "dune", "ember"],
                                  ["seed", "kind", "sigma", "kappa", "omega", "theta", "lambda_"],
                                  ["seed", "kind", "flint", "grove", "haze", "isle"]]

_p("js_nested_fill", "javascript", {
    "nested.js": """class Inner { constructor(seed) { this.seed = seed; this.kind = 'inner'; } }
class Middle { constructor(seed) { this.inner = new Inner(seed); this.label = 'm'; } }
class Outer {
  constructor(seed) { this.inner = new Inner(seed); this.middle = new Middle(seed); this.name = 'o'; }
  refresh(v) { this.inner.sigma = v; this.inner.kappa = 2; this.inner.omega = 'w'; this.inner.theta = v; this.inner.lambda = 5; }
}
function fill(o, v) { o.inner.alpha = v; o.inner.beta = 2; o.inner.gamma = 'g'; o.inner.delta = v; o.inner.epsilon = 3; o.inner.zeta = 'z'; }
function fillDeep(o, v) { o.middle.inner.amber = v; o.middle.inner.birch = 1; o.middle.inner.cedar = 'c'; o.middle.inner.dune = v; o.middle.inner.ember = 4; }
function build(v) { let o = new Outer(v); return o; }
function decorate(v) { let o = build(v); o.inner.flint = v; o.inner.grove = 1; o.inner.haze = 'h'; o.inner.isle = v; return o; }
function handler(req, other) {
  let b = new Outer(other);
  fill(b, req);
  fillDeep(b, req);
  b.refresh(req);
  let d = decorate(req);
  sink(b.inner.alpha);
  return d.inner.flint;
}
function main() { handler(1, 2); }
main();
""",
})
PROBE_FIELDS["js_nested_fill"] = [["seed", "kind", "alpha", "beta", "gamma", "delta", "epsilon", "zeta"],
                                  ["seed", "kind", "amber", "birch", "cedar", "dune", "ember"],
                                  ["seed", "kind", "sigma", "kappa", "omega", "theta", "lambda"],
                                  ["seed", "kind", "flint", "grove", "haze", "isle"]]


def _add_file(project, rel, text, probe=None):
    for h in HAND:
        if h["name"] == project:
            assert rel not in h["files"]
            h["files"][rel] = text
            if probe:
                PROBE_FIELDS.setdefault(project, []).extend(probe)
            return
    raise KeyError(project)


# the same shape as one extra unit (entry point `serve`) in the hand-written projects of the other frontends
_add_file("java_service", "nest/Nested.java", """package nest;

class Inner { int seed; String kind; int alpha; int beta; String gamma; int delta; int epsilon; String zeta; int sigma; int kappa; Inner(int seed) { this.seed = seed; this.kind = "inner"; } }
class Outer {
    Inner inner; String name;
    Outer(int seed) { this.inner = new Inner(seed); this.name = "o"; }
    void refresh(int v) { this.inner.sigma = v; this.inner.kappa = 2; }
}
public class Nested {
    static void sink(int x) { }
    static void fill(Outer o, int v) { o.inner.alpha = v; o.inner.beta = 2; o.inner.gamma = "g"; o.inner.delta = v; o.inner.epsilon = 3; o.inner.zeta = "z"; }
    public static int serve(int req, int other) {
        Outer b = new Outer(other);
        fill(b, req);
        b.refresh(req);
        sink(b.inner.alpha);
        return b.inner.delta;
    }
    public static void main(String[] args) { serve(1, 2); }
}
""",
          probe=[["seed", "kind", "alpha", "beta", "gamma", "delta", "epsilon", "zeta"], ["seed", "kind", "sigma", "kappa"]])
_add_file("ts_shapes", "nested.ts", """class Inner { seed: number; kind: string; constructor(seed: number) { this.seed = seed; this.kind = 'inner'; } }
class Outer {
  inner: Inner; name: string;
  constructor(seed: number) { this.inner = new Inner(seed); this.name = 'o'; }
  refresh(v: any): void { this.inner.sigma = v; this.inner.kappa = 2; this.inner.omega = 'w'; this.inner.theta = v; }
}
function fill(o: any, v: any): void { o.inner.alpha = v; o.inner.beta = 2; o.inner.gamma = 'g'; o.inner.delta = v; o.inner.epsilon = 3; o.inner.zeta = 'z'; }
function serve(req: any, other: any): any {
  let b = new Outer(other);
  fill(b, req);
  b.refresh(req);
  sink(b.inner.alpha);
  return b.inner.delta;
}
serve(1, 2);
""",
          probe=[["seed", "kind", "alpha", "beta", "gamma", "delta", "epsilon", "zeta"]])
_add_file("php_service", "lib/nested.php", """<?php
class Inner { public $seed; public $kind; function __construct($seed) { $this->seed = $seed; $this->kind = "inner"; } }
class Outer {
    public $inner; public $name;
    function __construct($seed) { $this->inner = new Inner($seed); $this->name = "o"; }
    function refresh($v) { $this->inner->sigma = $v; $this->inner->kappa = 2; $this->inner->omega = "w"; $this->inner->theta = $v; }
}
function fill($o, $v) { $o->inner->alpha = $v; $o->inner->beta = 2; $o->inner->gamma = "g"; $o->inner->delta = $v; $o->inner->epsilon = 3; $o->inner->zeta = "z"; }
function serve($req, $other) {
    $b = new Outer($other);
    fill($b, $req);
    $b->refresh($req);
    sink($b->inner->alpha);
    return $b->inner->delta;
}
serve(1, 2);
""",
          probe=[["seed", "kind", "alpha", "beta", "gamma", "delta", "epsilon", "zeta"], ["seed", "kind", "sigma", "kappa", "omega", "theta"]])
_add_file("go_service", "nested.go", """package main

type Inner struct {
	seed  int
	kind  string
	alpha int
	beta  int
	gamma string
	delta int
}

type Outer struct {
	inner *Inner
	name  string
}

func fill(o *Outer, v int) {
	o.inner.alpha = v
	o.inner.beta = 2
	o.inner.gamma = "g"
	o.inner.delta = v
}

func serve(req int, other int) int {
	in := &Inner{seed: other, kind: "inner"}
	b := &Outer{inner: in, name: "o"}
	fill(b, req)
	sink(b.inner.gamma)
	return b.inner.delta
}

""",
          probe=[["seed", "kind", "alpha", "beta", "gamma", "delta"]])
_add_file("c_buffers", "nested.c", """struct inner { int seed; int alpha; int beta; int gamma; int delta; };
struct outer { struct inner *in; int name; };
void fill(struct outer *o, int v) {
    o->in->alpha = v;
    o->in->beta = 2;
    o->in->gamma = 3;
    o->in->delta = v;
}
int serve(int req, struct outer *b) {
    b->in->seed = 7;
    fill(b, req);
    sink(b->in->alpha);
    return b->in->delta;
}
""",
          probe=[["seed", "alpha", "beta", "gamma", "delta"]])


# Python-only shapes: (a) a package tree imported through plain dotted imports whose names overlap on a word boundary
# (`import pkg.sub` + `import pkg.sub.mod`, used later as pkg.sub.mod.f()): the frontend's import preprocessor rewrites the
# later lines name by name; (b) dataclass-style classes defining BOTH __init__ and __post_init__, instantiated on a path
# phase III reaches: both initialisers are queued as callees of the new_object statement.
_add_file("py_defaults_named", 'pkg/__init__.py', """VERSION = 1
""")
_add_file("py_defaults_named", 'pkg/core/__init__.py', """BASE = 0
""")
_add_file("py_defaults_named", 'pkg/core/io.py', """def load(p):
    return p
""")
_add_file("py_defaults_named", 'pkg/core/io_utils.py', """def dump(p):
    return p
""")
_add_file("py_defaults_named", 'pkg/sub/__init__.py', """DEFAULT = 'd'

def helper(x):
    return x
""")
_add_file("py_defaults_named", 'pkg/sub/mod.py', """LIMIT = 3

def open_it(x):
    return x

class Reader:
    def __init__(self, src):
        self.src = src
    def read(self):
        return self.src
""")
_add_file("py_defaults_named", "pkgapp.py", """import os.path
import pkg.sub
import pkg.sub.mod
import pkg.core
import pkg.core.io
import pkg.core.io_utils

def use(req):
    handle = pkg.sub.mod.open_it(pkg.sub.DEFAULT)
    r = pkg.sub.mod.Reader(req)
    data = pkg.core.io.load(r.read())
    out = pkg.core.io_utils.dump(data)
    n = pkg.sub.mod.LIMIT + pkg.core.BASE
    sink(out)
    return pkg.sub.helper(handle)

def serve(req, other):
    return use(req)

serve(1, 2)
""")
_add_file("py_nested_fill", "dc.py", """from dataclasses import dataclass

@dataclass
class Point:
    x: int
    y: int

    def __init__(self, x, y):
        self.x = x
        self.y = y

    def __post_init__(self):
        self.norm = self.x + self.y
        self.tag = "p"

class Account:
    def __init__(self, owner, balance=0):
        self.owner = owner
        self.balance = balance
        self.history = []

    def __post_init__(self):
        self.limit = self.balance + 100
        self.flags = {"new": True}
        self.owner_tag = self.owner

class Savings(Account):
    def __init__(self, owner):
        self.owner = owner
        self.rate = 2

    def __post_init__(self):
        self.bonus = self.rate + 1

def make(req, other):
    p = Point(req, other)
    a = Account(req, 5)
    s = Savings(req)
    q = Point(1, 2)
    sink(a.owner)
    return p.x + q.y + s.rate

def process(req, other):
    return make(req, other)

process(1, 2)
""")


# PHP: `require` / `require_once` of a VARIABLE that holds one of several file names (one state per name): the required-module
# states are created per distinct name.
_add_file("php_service", "loader.php", """<?php
function pick($mode) {
    if ($mode == 1) { $f = "lib/alpha_reader.php"; }
    elseif ($mode == 2) { $f = "lib/beta_writer.php"; }
    elseif ($mode == 3) { $f = "lib/gamma_store.php"; }
    else { $f = "lib/delta_cache.php"; }
    return $f;
}
function process($req, $mode) {
    if ($mode == 1) { $f = "lib/alpha_reader.php"; }
    elseif ($mode == 2) { $f = "lib/beta_writer.php"; }
    elseif ($mode == 3) { $f = "lib/gamma_store.php"; }
    else { $f = "lib/delta_cache.php"; }
    $m = require $f;
    $g = pick($mode);
    $k = require_once $g;
    sink($req);
    return $m;
}
process(1, 2);
""")
_add_file("php_service", 'lib/alpha_reader.php', """<?php
function alpha_read($x) { return $x; }
""")
_add_file("php_service", 'lib/beta_writer.php', """<?php
function beta_write($x) { return $x; }
""")
_add_file("php_service", 'lib/delta_cache.php', """<?php
function delta_cache($x) { return $x; }
""")
_add_file("php_service", 'lib/gamma_store.php', """<?php
function gamma_store($x) { return $x; }
""")


# ---------------------------------------------------------------------------------------------------
# seeded generators of name-heavy programs

WORDS = ("alpha beta gamma delta epsilon zeta eta theta iota kappa lambda mu nu xi omicron pi rho sigma tau upsilon phi chi "
         "psi omega amber birch cedar dune ember flint grove haze isle jade kelp loam moss nook opal pine quay reed sage "
         "tarn umber vale wren yarrow zinc").split()


def _names(rng, n, prefix=""):
    out, seen = [], set()
    while len(out) < n:
        w = prefix + rng.choice(WORDS) + "_" + rng.choice(WORDS)
        if w not in seen:
            seen.add(w)
            out.append(w)
    return out


def gen_wide(lang, rng, n_funcs=14, n_classes=3, n_files=3):
    """Many functions calling several others (by name), classes with many fields and methods, string-keyed records,
    a parameter source reaching a sink through a call chain. Same shape in every language."""
    fnames = _names(rng, n_funcs, "f_")
    cnames = ["C" + n.title().replace("_", "") for n in _names(rng, n_classes)]
    fields = {c: _names(rng, rng.randint(3, 7)) for c in cnames}
    methods = {c: _names(rng, rng.randint(2, 4), "m_") for c in cnames}
    keys = _names(rng, 6)
    # call structure: a binary tree over the functions (every function has one caller: the number of calling contexts
    # stays linear) plus, from every inner function, one call to a shared leaf helper (many callers of one target)
    calls = {f: [] for f in fnames}
    n = len(fnames)
    leaves = [fnames[i] for i in range(n) if 2 * i + 1 >= n]
    for i, f in enumerate(fnames):
        for j in (2 * i + 1, 2 * i + 2):
            if j < n:
                calls[f].append(fnames[j])
        if calls[f] and leaves:
            h = rng.choice(leaves)
            if h not in calls[f]:
                calls[f].append(h)
    chain = [fnames[i] for i in (0, 1, 3, 7) if i < n]
    gen = {"python": _wide_py, "javascript": _wide_js, "typescript": _wide_ts, "java": _wide_java, "go": _wide_go,
           "c": _wide_c, "php": _wide_php}[lang]
    files = gen(rng, fnames, cnames, fields, methods, keys, calls, chain, n_files)
    rel, text, groups = nested_unit(lang, rng)          # plus one unit of nested-object writers (entry point `serve`)
    files[rel] = text
    if lang == "python":
        files.update(pyshapes_files(rng))
    return {"lang": lang, "files": files, "extra": [], "settings": taint_settings(lang), "origin": "generated", "probe_fields": groups}


def _next(chain, f):
    return chain[chain.index(f) + 1] if f in chain[:-1] else None


def _split(items, n):
    n = max(1, min(n, len(items)))
    return [items[i::n] for i in range(n)]


def _wide_py(rng, fnames, cnames, fields, methods, keys, calls, chain, n_files):
    parts = _split(fnames[1:], n_files - 1) if n_files > 1 else []
    files = {}
    home = {}
    for i, grp in enumerate(parts):
        for f in grp:
            home[f] = f"mod{i}"
    cls_src = []
    for c in cnames:
        body = [f"class {c}:"]
        body.append("    def __init__(self, v):")
        for fld in fields[c]:
            body.append(f"        self.{fld} = v")
        for m in methods[c]:
            fld = rng.choice(fields[c])
            body.append(f"    def {m}(self, x, sep=':', pad=0):")
            body.append(f"        self.{fld} = x")
            body.append(f"        return self.{rng.choice(fields[c])}")
        cls_src.append("\n".join(body))
    files["kinds.py"] = "\n\n".join(cls_src) + "\n"

    def fbody(f):
        lines = [f"def {f}(a, b):"]
        c = rng.choice(cnames)
        lines.append(f"    o = {c}(a)")
        lines.append(f"    r = o.{rng.choice(methods[c])}(b)")
        lines.append("    d = {" + ", ".join(f'"{k}": a' for k in rng.sample(keys, 3)) + "}")
        for g in calls[f]:
            lines.append(f"    r = {g}(a, r)" if _next(chain, f) == g else f"    r = {g}(r, a)")
        if f == chain[-1]:
            lines.append("    sink(a)")
        lines.append("    return r")
        return "\n".join(lines)
    for i, grp in enumerate(parts):
        imports = ["from kinds import " + ", ".join(cnames)]
        for j in range(len(parts)):
            if j != i:
                needed = sorted({g for f in grp for g in calls[f] if home.get(g) == f"mod{j}"})
                if needed:
                    imports.append(f"from mod{j} import " + ", ".join(needed))
        files[f"mod{i}.py"] = "\n".join(imports) + "\n\n" + "\n\n".join(fbody(f) for f in grp) + "\n"
    imports = ["from kinds import " + ", ".join(cnames)]
    for j in range(len(parts)):
        imports.append(f"from mod{j} import " + ", ".join(parts[j]))
    head = fnames[0]
    main = "\n".join(imports) + "\n\n" + fbody(head) + f"\n\ndef handler(req, other):\n    return {head}(req, other)\n\nhandler(1, 2)\n"
    files["main.py"] = main
    return files


def _wide_js(rng, fnames, cnames, fields, methods, keys, calls, chain, n_files, ts=False):
    ann = ": any" if ts else ""
    cls_src = []
    for c in cnames:
        body = [f"class {c} {{"]
        if ts:
            body.append("  constructor(" + ", ".join(f"public {fld}: any" for fld in fields[c]) + ") { }")
            for m in methods[c]:
                body.append(f"  {m}(x: any, sep: any = ':', pad: any = 0) {{ return this.{rng.choice(fields[c])}; }}")
        else:
            body.append(f"  constructor(v) {{ " + " ".join(f"this.{fld} = v;" for fld in fields[c]) + " }")
            for m in methods[c]:
                body.append(f"  {m}(x, sep = ':', pad = 0) {{ this.{rng.choice(fields[c])} = x; return this.{rng.choice(fields[c])}; }}")
        body.append("}")
        cls_src.append("\n".join(body))

    def fbody(f):
        c = rng.choice(cnames)
        lines = [f"function {f}(a{ann}, b{ann}) {{", f"  let o = new {c}(" + (", ".join("a" for _ in fields[c]) if ts else "a") + ");", f"  let r = o.{rng.choice(methods[c])}(b);",
                 "  let d = { " + ", ".join(f"{k}: a" for k in rng.sample(keys, 3)) + " };"]
        for g in calls[f]:
            lines.append(f"  r = {g}(a, r);" if _next(chain, f) == g else f"  r = {g}(r, a);")
        if f == chain[-1]:
            lines.append("  sink(a);")
        lines.append("  return r;")
        lines.append("}")
        return "\n".join(lines)
    ext = ".ts" if ts else ".js"
    files = {"main" + ext: "\n\n".join(cls_src) + "\n\n" + "\n\n".join(fbody(f) for f in fnames)
             + f"\n\nfunction handler(req{ann}, other{ann}) {{ return {fnames[0]}(req, other); }}\nhandler(1, 2);\n"}
    return files


def _wide_ts(*a):
    return _wide_js(*a, ts=True)


def _wide_java(rng, fnames, cnames, fields, methods, keys, calls, chain, n_files):
    files = {}
    for c in cnames:
        body = ["package gen;", "", f"public class {c} {{"]
        for fld in fields[c]:
            body.append(f"    String {fld};")
        body.append(f"    public {c}(String v) {{ " + " ".join(f"this.{fld} = v;" for fld in fields[c]) + " }")
        for m in methods[c]:
            body.append(f"    public String {m}(String x) {{ this.{rng.choice(fields[c])} = x; return this.{rng.choice(fields[c])}; }}")
        body.append("}")
        files[f"gen/{c}.java"] = "\n".join(body) + "\n"
    body = ["package gen;", "", "import java.util.HashMap;", "", "public class Main {", "    static void sink(String x) { }"]
    for f in fnames:
        c = rng.choice(cnames)
        body.append(f"    static String {f}(String a, String b) {{")
        body.append(f"        {c} o = new {c}(a);")
        body.append(f"        String r = o.{rng.choice(methods[c])}(b);")
        body.append("        HashMap<String, String> d = new HashMap<String, String>();")
        for k in rng.sample(keys, 3):
            body.append(f"        d.put(\"{k}\", a);")
        for g in calls[f]:
            body.append(f"        r = {g}(a, r);" if _next(chain, f) == g else f"        r = {g}(r, a);")
        if f == chain[-1]:
            body.append("        sink(a);")
        body.append("        return r;")
        body.append("    }")
    body.append(f"    public static String handler(String req, String other) {{ return {fnames[0]}(req, other); }}")
    body.append("    public static void main(String[] args) { handler(\"1\", \"2\"); }")
    body.append("}")
    files["gen/Main.java"] = "\n".join(body) + "\n"
    return files


def _wide_go(rng, fnames, cnames, fields, methods, keys, calls, chain, n_files):
    src = ["package main", ""]
    for c in cnames:
        src.append(f"type {c} struct {{")
        for fld in fields[c]:
            src.append(f"\t{fld} string")
        src.append("}")
        for m in methods[c]:
            src.append(f"func (o *{c}) {m}(x string) string {{")
            src.append(f"\to.{rng.choice(fields[c])} = x")
            src.append(f"\treturn o.{rng.choice(fields[c])}")
            src.append("}")
    src.append("func sink(x string) {}")
    fsrc = ["package main", ""]
    for f in fnames:
        c = rng.choice(cnames)
        fsrc.append(f"func {f}(a string, b string) string {{")
        fsrc.append(f"\to := {c}{{{fields[c][0]}: a}}")
        fsrc.append(f"\tr := o.{rng.choice(methods[c])}(b)")
        fsrc.append("\td := map[string]string{" + ", ".join(f'"{k}": a' for k in rng.sample(keys, 3)) + "}")
        fsrc.append(f"\tr = d[\"{keys[0]}\"]")
        for g in calls[f]:
            fsrc.append(f"\tr = {g}(a, r)" if _next(chain, f) == g else f"\tr = {g}(r, a)")
        if f == chain[-1]:
            fsrc.append("\tsink(a)")
        fsrc.append("\treturn r")
        fsrc.append("}")
    fsrc.append(f"func handler(req string, other string) string {{\n\treturn {fnames[0]}(req, other)\n}}")
    fsrc.append("func main() {\n\thandler(\"1\", \"2\")\n}")
    return {"kinds.go": "\n".join(src) + "\n", "main.go": "\n".join(fsrc) + "\n"}


def _wide_c(rng, fnames, cnames, fields, methods, keys, calls, chain, n_files):
    src = []
    for c in cnames:
        src.append(f"struct {c} {{")
        for fld in fields[c]:
            src.append(f"    char *{fld};")
        src.append("};")
    for f in fnames:
        src.append(f"char *{f}(char *a, char *b);")
    src.append("void sink(char *x);")
    for f in fnames:
        c = rng.choice(cnames)
        src.append(f"char *{f}(char *a, char *b) {{")
        src.append(f"    struct {c} o;")
        src.append(f"    o.{rng.choice(fields[c])} = a;")
        src.append(f"    char *r = o.{rng.choice(fields[c])};")
        for g in calls[f]:
            src.append(f"    r = {g}(a, r);" if _next(chain, f) == g else f"    r = {g}(r, a);")
        if f == chain[-1]:
            src.append("    sink(a);")
        src.append("    return r;")
        src.append("}")
    src.append(f"char *handler(char *req, char *other) {{ return {fnames[0]}(req, other); }}")
    src.append("int main(int argc, char **argv) { handler(argv[0], argv[1]); return 0; }")
    return {"main.c": "\n".join(src) + "\n"}


def _wide_php(rng, fnames, cnames, fields, methods, keys, calls, chain, n_files):
    cls = ["<?php"]
    for c in cnames:
        cls.append(f"class {c} {{")
        for fld in fields[c]:
            cls.append(f"    public ${fld};")
        cls.append("    function __construct($v) { " + " ".join(f"$this->{fld} = $v;" for fld in fields[c]) + " }")
        for m in methods[c]:
            cls.append(f"    function {m}($x, $sep = ':', $pad = 0) {{ $this->{rng.choice(fields[c])} = $x; return $this->{rng.choice(fields[c])}; }}")
        cls.append("}")
    src = ["<?php", "require_once 'kinds.php';"]
    for f in fnames:
        c = rng.choice(cnames)
        src.append(f"function {f}($a, $b) {{")
        src.append(f"    $o = new {c}($a);")
        src.append(f"    $r = $o->{rng.choice(methods[c])}($b);")
        src.append("    $d = array(" + ", ".join(f'"{k}" => $a' for k in rng.sample(keys, 3)) + ");")
        for g in calls[f]:
            src.append(f"    $r = {g}($a, $r);" if _next(chain, f) == g else f"    $r = {g}($r, $a);")
        if f == chain[-1]:
            src.append("    sink($a);")
        src.append("    return $r;")
        src.append("}")
    src.append(f"function handler($req, $other) {{ return {fnames[0]}($req, $other); }}")
    src.append("handler(1, 2);")
    return {"kinds.php": "\n".join(cls) + "\n", "main.php": "\n".join(src) + "\n"}


# ---------------------------------------------------------------------------------------------------
# nested-object writers: callees that add several NEW fields to an object reached through 1-2 field hops from a
# parameter / from this / from a returned object, while the caller's object already has fields of its own there.
# (P3 merges the callee's field summary into the argument's state one level down; the merged field dict is written
# verbatim, as JSON, into the `fields` column of s2space_p3 — any set of field names on that path shows in the bytes.)

def _cap(n):
    return "".join(w.title() for w in n.split("_"))


def nested_unit(lang, rng, tag="nestgen"):
    """-> (relative path, text, probe groups). Entry point: serve(req, other)."""
    leaf, mid, top = ("Leaf" + _cap(rng.choice(WORDS)), "Mid" + _cap(rng.choice(WORDS)), "Top" + _cap(rng.choice(WORDS)))
    own = _names(rng, 2)                     # fields the leaf already has
    routes = ["param1", "param2", "this", "returned"]
    if lang == "c":
        routes = ["param1", "param2", "returned"]
    rng.shuffle(routes)
    routes = routes[:rng.randint(3, len(routes))]
    if "param1" not in routes:
        routes[0] = "param1"
    new = {}
    taken = set(own)
    for r in routes:
        names = [n for n in _names(rng, rng.randint(4, 6)) if n not in taken]
        taken.update(names)
        new[r] = names
    allnew = [n for r in routes for n in new[r]]
    fn = {r: "fill_" + rng.choice(WORDS) + "_" + r for r in routes}
    vals = lambda i: ["v", "2", '"g"', "v", "3", '"z"'][i % 6]
    gen = {"python": _nested_py, "javascript": _nested_js, "typescript": _nested_ts, "java": _nested_java, "go": _nested_go,
           "c": _nested_c, "php": _nested_php}[lang]
    rel, text = gen(tag, leaf, mid, top, own, routes, new, allnew, fn, vals)
    groups = [own + new[r] for r in routes if r != "returned"]      # names expected in ONE merged state's field dict
    return rel, text, groups


def _nested_py(tag, leaf, mid, top, own, routes, new, allnew, fn, vals):
    L = [f"class {leaf}:", "    def __init__(self, seed):"] + [f"        self.{o} = seed" for o in own]
    L += ["", f"class {mid}:", "    def __init__(self, seed):", f"        self.leaf = {leaf}(seed)", "        self.label = \"m\""]
    L += ["", f"class {top}:", "    def __init__(self, seed):", f"        self.leaf = {leaf}(seed)", f"        self.mid = {mid}(seed)",
          "        self.name = \"t\""]
    if "this" in routes:
        L += ["", f"    def {fn['this']}(self, v):"] + [f"        self.leaf.{n} = {vals(i)}" for i, n in enumerate(new["this"])]
    for r, path in (("param1", "o.leaf"), ("param2", "o.mid.leaf")):
        if r in routes:
            L += ["", f"def {fn[r]}(o, v):"] + [f"    {path}.{n} = {vals(i)}" for i, n in enumerate(new[r])]
    if "returned" in routes:
        L += ["", "def build_top(v):", f"    o = {top}(v)", "    return o", "", f"def {fn['returned']}(v):", "    o = build_top(v)"]
        L += [f"    o.leaf.{n} = {vals(i)}" for i, n in enumerate(new["returned"])] + ["    return o"]
    L += ["", "def serve(req, other):", f"    b = {top}(other)"]
    for r in routes:
        L.append({"param1": f"    {fn[r]}(b, req)", "param2": f"    {fn[r]}(b, req)", "this": f"    b.{fn[r]}(req)",
                  "returned": f"    d = {fn[r]}(req)"}[r])
    L += [f"    sink(b.leaf.{new['param1'][0]})", f"    return b.leaf.{new['param1'][-1]}", "", "serve(1, 2)", ""]
    return tag + ".py", "\n".join(L)


def _nested_js(tag, leaf, mid, top, own, routes, new, allnew, fn, vals, ts=False):
    a = ": any" if ts else ""
    q = lambda x: x.replace('"', "'")
    L = []
    if ts:
        L += [f"class {leaf} {{ " + " ".join(f"{o}: any;" for o in own) + f" constructor(seed{a}) {{ " + " ".join(f"this.{o} = seed;" for o in own) + " } }"]
        L += [f"class {mid} {{ leaf: any; label: any; constructor(seed{a}) {{ this.leaf = new {leaf}(seed); this.label = 'm'; }} }}"]
        L += [f"class {top} {{", "  leaf: any; mid: any; name: any;"]
    else:
        L += [f"class {leaf} {{ constructor(seed) {{ " + " ".join(f"this.{o} = seed;" for o in own) + " } }"]
        L += [f"class {mid} {{ constructor(seed) {{ this.leaf = new {leaf}(seed); this.label = 'm'; }} }}"]
        L += [f"class {top} {{"]
    L += [f"  constructor(seed{a}) {{ this.leaf = new {leaf}(seed); this.mid = new {mid}(seed); this.name = 't'; }}"]
    if "this" in routes:
        L += [f"  {fn['this']}(v{a}) {{ " + " ".join(f"this.leaf.{n} = {q(vals(i))};" for i, n in enumerate(new["this"])) + " }"]
    L += ["}"]
    for r, path in (("param1", "o.leaf"), ("param2", "o.mid.leaf")):
        if r in routes:
            L += [f"function {fn[r]}(o{a}, v{a}) {{ " + " ".join(f"{path}.{n} = {q(vals(i))};" for i, n in enumerate(new[r])) + " }"]
    if "returned" in routes:
        L += [f"function build_top(v{a}) {{ let o = new {top}(v); return o; }}"]
        L += [f"function {fn['returned']}(v{a}) {{ let o{a} = build_top(v); " + " ".join(f"o.leaf.{n} = {q(vals(i))};" for i, n in enumerate(new["returned"])) + " return o; }"]
    L += [f"function serve(req{a}, other{a}) {{", f"  let b{a} = new {top}(other);"]
    for r in routes:
        L.append({"param1": f"  {fn[r]}(b, req);", "param2": f"  {fn[r]}(b, req);", "this": f"  b.{fn[r]}(req);",
                  "returned": f"  let d = {fn[r]}(req);"}[r])
    L += [f"  sink(b.leaf.{new['param1'][0]});", f"  return b.leaf.{new['param1'][-1]};", "}", "serve(1, 2);", ""]
    return tag + (".ts" if ts else ".js"), "\n".join(L)


def _nested_ts(*a):
    return _nested_js(*a, ts=True)


def _nested_java(tag, leaf, mid, top, own, routes, new, allnew, fn, vals):
    cls = _cap(tag)
    L = ["package nestgen;", ""]
    L += [f"class {leaf} {{ " + " ".join(f"Object {o};" for o in own + allnew) + f" {leaf}(Object seed) {{ " + " ".join(f"this.{o} = seed;" for o in own) + " } }"]
    L += [f"class {mid} {{ {leaf} leaf; String label; {mid}(Object seed) {{ this.leaf = new {leaf}(seed); this.label = \"m\"; }} }}"]
    L += [f"class {top} {{", f"    {leaf} leaf; {mid} mid; String name;",
          f"    {top}(Object seed) {{ this.leaf = new {leaf}(seed); this.mid = new {mid}(seed); this.name = \"t\"; }}"]
    if "this" in routes:
        L += [f"    void {fn['this']}(Object v) {{ " + " ".join(f"this.leaf.{n} = {vals(i)};" for i, n in enumerate(new["this"])) + " }"]
    L += ["}", f"public class {cls} {{", "    static void sink(Object x) { }"]
    for r, path in (("param1", "o.leaf"), ("param2", "o.mid.leaf")):
        if r in routes:
            L += [f"    static void {fn[r]}({top} o, Object v) {{ " + " ".join(f"{path}.{n} = {vals(i)};" for i, n in enumerate(new[r])) + " }"]
    if "returned" in routes:
        L += [f"    static {top} build_top(Object v) {{ {top} o = new {top}(v); return o; }}"]
        L += [f"    static {top} {fn['returned']}(Object v) {{ {top} o = build_top(v); " + " ".join(f"o.leaf.{n} = {vals(i)};" for i, n in enumerate(new["returned"])) + " return o; }"]
    L += [f"    public static Object serve(Object req, Object other) {{", f"        {top} b = new {top}(other);"]
    for r in routes:
        L.append({"param1": f"        {fn[r]}(b, req);", "param2": f"        {fn[r]}(b, req);", "this": f"        b.{fn[r]}(req);",
                  "returned": f"        {top} d = {fn[r]}(req);"}[r])
    L += [f"        sink(b.leaf.{new['param1'][0]});", f"        return b.leaf.{new['param1'][-1]};", "    }",
          "    public static void main(String[] args) { serve(\"1\", \"2\"); }", "}", ""]
    return f"nestgen/{cls}.java", "\n".join(L)


def _nested_go(tag, leaf, mid, top, own, routes, new, allnew, fn, vals):
    gv = lambda i: ["v", '"2"', '"g"', "v", '"3"', '"z"'][i % 6]
    L = ["package main", "", f"type {leaf} struct {{"] + [f"\t{o} string" for o in own + allnew] + ["}"]
    L += [f"type {mid} struct {{", f"\tleaf  *{leaf}", "\tlabel string", "}"]
    L += [f"type {top} struct {{", f"\tleaf *{leaf}", f"\tmid  *{mid}", "\tname string", "}"]
    L += [f"func new_{top}(seed string) *{top} {{", f"\tl := &{leaf}{{{own[0]}: seed, {own[1]}: seed}}",
          f"\tm := &{mid}{{leaf: &{leaf}{{{own[0]}: seed}}, label: \"m\"}}", f"\treturn &{top}{{leaf: l, mid: m, name: \"t\"}}", "}"]
    if "this" in routes:
        L += [f"func (t *{top}) {fn['this']}(v string) {{"] + [f"\tt.leaf.{n} = {gv(i)}" for i, n in enumerate(new["this"])] + ["}"]
    for r, path in (("param1", "o.leaf"), ("param2", "o.mid.leaf")):
        if r in routes:
            L += [f"func {fn[r]}(o *{top}, v string) {{"] + [f"\t{path}.{n} = {gv(i)}" for i, n in enumerate(new[r])] + ["}"]
    if "returned" in routes:
        L += [f"func {fn['returned']}(v string) *{top} {{", f"\to := new_{top}(v)"] + [f"\to.leaf.{n} = {gv(i)}" for i, n in enumerate(new["returned"])] + ["\treturn o", "}"]
    L += ["func serve(req string, other string) string {", f"\tb := new_{top}(other)"]
    for r in routes:
        L.append({"param1": f"\t{fn[r]}(b, req)", "param2": f"\t{fn[r]}(b, req)", "this": f"\tb.{fn[r]}(req)",
                  "returned": f"\td := {fn[r]}(req)\n\t_ = d"}[r])
    L += [f"\tsink(b.leaf.{new['param1'][0]})", f"\treturn b.leaf.{new['param1'][-1]}", "}", ""]
    return tag + ".go", "\n".join(L)


def _nested_c(tag, leaf, mid, top, own, routes, new, allnew, fn, vals):
    cv = lambda i: ["v", "2", "7", "v", "3", "9"][i % 6]
    L = [f"struct {leaf} {{ " + " ".join(f"int {o};" for o in own + allnew) + " };",
         f"struct {mid} {{ struct {leaf} *leaf; int label; }};",
         f"struct {top} {{ struct {leaf} *leaf; struct {mid} *mid; int name; }};", "void sink(int x);"]
    for r, path in (("param1", "o->leaf"), ("param2", "o->mid->leaf")):
        if r in routes:
            L += [f"void {fn[r]}(struct {top} *o, int v) {{"] + [f"    {path}->{n} = {cv(i)};" for i, n in enumerate(new[r])] + ["}"]
    if "returned" in routes:
        L += [f"struct {top} *build_top(struct {top} *o, int v) {{ o->leaf->{own[0]} = v; return o; }}",
              f"struct {top} *{fn['returned']}(struct {top} *p, int v) {{", f"    struct {top} *o = build_top(p, v);"]
        L += [f"    o->leaf->{n} = {cv(i)};" for i, n in enumerate(new["returned"])] + ["    return o;", "}"]
    L += [f"int serve(int req, struct {top} *b) {{", f"    b->leaf->{own[0]} = 7;", f"    b->leaf->{own[1]} = 8;", f"    b->mid->leaf->{own[0]} = 9;"]
    for r in routes:
        L.append({"param1": f"    {fn[r]}(b, req);", "param2": f"    {fn[r]}(b, req);",
                  "returned": f"    struct {top} *d = {fn.get('returned')}(b, req);"}[r])
    L += [f"    sink(b->leaf->{new['param1'][0]});", f"    return b->leaf->{new['param1'][-1]};", "}", ""]
    return tag + ".c", "\n".join(L)


def _nested_php(tag, leaf, mid, top, own, routes, new, allnew, fn, vals):
    pv = lambda i: ["$v", "2", '"g"', "$v", "3", '"z"'][i % 6]
    L = ["<?php", f"class {leaf} {{ " + " ".join(f"public ${o};" for o in own) + " function __construct($seed) { " + " ".join(f"$this->{o} = $seed;" for o in own) + " } }"]
    L += [f"class {mid} {{ public $leaf; public $label; function __construct($seed) {{ $this->leaf = new {leaf}($seed); $this->label = \"m\"; }} }}"]
    L += [f"class {top} {{", "    public $leaf; public $mid; public $name;",
          f"    function __construct($seed) {{ $this->leaf = new {leaf}($seed); $this->mid = new {mid}($seed); $this->name = \"t\"; }}"]
    if "this" in routes:
        L += [f"    function {fn['this']}($v) {{ " + " ".join(f"$this->leaf->{n} = {pv(i)};" for i, n in enumerate(new["this"])) + " }"]
    L += ["}"]
    for r, path in (("param1", "$o->leaf"), ("param2", "$o->mid->leaf")):
        if r in routes:
            L += [f"function {fn[r]}($o, $v) {{ " + " ".join(f"{path}->{n} = {pv(i)};" for i, n in enumerate(new[r])) + " }"]
    if "returned" in routes:
        L += [f"function build_top($v) {{ $o = new {top}($v); return $o; }}"]
        L += [f"function {fn['returned']}($v) {{ $o = build_top($v); " + " ".join(f"$o->leaf->{n} = {pv(i)};" for i, n in enumerate(new["returned"])) + " return $o; }"]
    L += ["function serve($req, $other) {", f"    $b = new {top}($other);"]
    for r in routes:
        L.append({"param1": f"    {fn[r]}($b, $req);", "param2": f"    {fn[r]}($b, $req);", "this": f"    $b->{fn[r]}($req);",
                  "returned": f"    $d = {fn[r]}($req);"}[r])
    L += [f"    sink($b->leaf->{new['param1'][0]});", f"    return $b->leaf->{new['param1'][-1]};", "}", "serve(1, 2);", ""]
    return tag + ".php", "\n".join(L)


def gen_nested(lang, rng, n_units=2):
    """A generated project made only of nested-object writer units."""
    files, groups = {}, []
    for k in range(n_units):
        rel, text, g = nested_unit(lang, rng, tag=f"nestgen{k}")
        files[rel] = text
        groups += g
    return {"lang": lang, "files": files, "extra": [], "settings": taint_settings(lang), "origin": "generated", "probe_fields": groups}


# ---------------------------------------------------------------------------------------------------
# Python-only generated shapes: overlapping dotted imports over a package tree, two-initialiser classes

def pyshapes_files(rng, tag="ps"):
    """-> {relative path: text}. Entry point: serve(req, other) in <tag>_app.py."""
    w = lambda: rng.choice(WORDS)
    root = f"{tag}_{w()}"
    files = {f"{root}/__init__.py": "VERSION = 1\n"}
    chains = []
    used_subs = set()
    for _ in range(rng.randint(2, 3)):
        sub = w()
        while sub in used_subs:
            sub = w()
        used_subs.add(sub)
        leafs = []
        for _ in range(rng.randint(1, 2)):
            lf = w()
            while lf == sub or lf in leafs:
                lf = w()
            leafs.append(lf)
        const = w().upper()
        files[f"{root}/{sub}/__init__.py"] = f"{const} = '{sub}'\n\ndef helper_{sub}(x):\n    return x\n"
        for lf in leafs:
            files[f"{root}/{sub}/{lf}.py"] = (f"LIMIT_{lf.upper()} = 3\n\ndef open_{lf}(x):\n    return x\n\nclass Reader{_cap(lf)}:\n"
                                              "    def __init__(self, src):\n        self.src = src\n    def read(self):\n        return self.src\n")
        chains.append((sub, const, leafs))
    imports, body = ["import os.path"], []
    names = []
    for sub, const, leafs in chains:
        names.append(f"import {root}.{sub}")
        for lf in leafs:
            names.append(f"import {root}.{sub}.{lf}")
    rng.shuffle(names)                  # the import order in the file is part of the program, not of the run
    imports += names
    for sub, const, leafs in chains:
        for lf in leafs:
            body.append(f"    h_{lf} = {root}.{sub}.{lf}.open_{lf}({root}.{sub}.{const})")
            body.append(f"    r_{lf} = {root}.{sub}.{lf}.Reader{_cap(lf)}(req)")
            body.append(f"    n_{lf} = {root}.{sub}.{lf}.LIMIT_{lf.upper()} + {root}.VERSION")
            body.append(f"    out = {root}.{sub}.helper_{sub}(r_{lf}.read())")
    # classes with both initialisers
    classes, makes = [], []
    for k in range(rng.randint(2, 3)):
        cn = "Dc" + _cap(w()) + str(k)
        f_init = _names(rng, rng.randint(2, 3))
        f_post = [n for n in _names(rng, rng.randint(2, 4)) if n not in f_init]
        L = [f"class {cn}:", "    def __init__(self, a, b=0):"] + [f"        self.{n} = a" for n in f_init]
        L += ["", "    def __post_init__(self):"] + [f"        self.{n} = self.{f_init[0]}" if i % 2 == 0 else f"        self.{n} = {i}" for i, n in enumerate(f_post)]
        classes.append("\n".join(L))
        makes.append(f"    o{k} = {cn}(req, other)")
    text = ("\n".join(imports) + "\n\n" + "\n\n".join(classes) + "\n\ndef use(req, other):\n" + "\n".join(body) + "\n" + "\n".join(makes)
            + "\n    sink(out)\n    return o0\n\ndef serve(req, other):\n    return use(req, other)\n\nserve(1, 2)\n")
    files[f"{tag}_app.py"] = text
    return files


def gen_pyshapes(rng, n=2):
    files = {}
    for k in range(n):
        files.update(pyshapes_files(rng, tag=f"ps{k}"))
    return {"lang": "python", "files": files, "extra": [], "settings": taint_settings("python"), "origin": "generated"}


# ---------------------------------------------------------------------------------------------------
# repository corpora (inputs only)

def corpus_projects(repo, thorough):
    """(name, lang, path, kind) for directories and single files of the repo's corpora; existence checked."""
    t = os.path.join(repo, "tests")
    out = []

    def add_dir(name, lang, rel):
        p = os.path.join(t, rel)
        if os.path.isdir(p):
            size = sum(os.path.getsize(os.path.join(r, n)) for r, _, fn in os.walk(p) for n in fn if os.path.isfile(os.path.join(r, n)))
            if size > 100000:       # lang_parser/java (260 kB, > 1 min per run): its files are in the single-file pool
                return
            out.append({"name": name, "lang": lang, "path": p, "origin": "corpus-dir"})

    add_dir("corpus_dataflows_python", "python", "dataflows/python")
    add_dir("corpus_dataflows_javascript", "javascript", "dataflows/javascript")
    add_dir("corpus_dataflows_java", "java", "dataflows/java")
    add_dir("corpus_dataflows_c", "c", "dataflows/c")
    add_dir("corpus_control_flows", "python", "control_flows")
    add_dir("corpus_import_python", "python", "import/python")
    add_dir("corpus_import_js", "javascript", "import/js")
    add_dir("corpus_import_java", "java", "import/java")
    add_dir("corpus_import_php", "php", "import/php")
    for lang, d in (("python", "python"), ("javascript", "javascript"), ("java", "java"), ("go", "go"), ("c", "c"),
                    ("php", "php"), ("typescript", "typescript")):
        add_dir(f"corpus_lang_parser_{d}", lang, f"lang_parser/{d}")
    files = []
    for rel, lang in (("dataflows/python", "python"), ("dataflows/javascript", "javascript"), ("dataflows/java", "java"),
                      ("dataflows/c", "c"), ("control_flows", "python"), ("lang_parser/python", "python"),
                      ("lang_parser/go", "go"), ("lang_parser/php", "php"), ("lang_parser/java", "java"),
                      ("lang_parser/javascript", "javascript"), ("lang_parser/c", "c")):
        d = os.path.join(t, rel)
        if not os.path.isdir(d):
            continue
        for n in sorted(os.listdir(d)):
            p = os.path.join(d, n)
            if os.path.isfile(p) and n.endswith(EXT[lang]) and os.path.getsize(p) < 40000:
                files.append({"name": "file_" + rel.replace("/", "_") + "_" + os.path.splitext(n)[0], "lang": lang, "path": p,
                              "origin": "corpus-file"})
    return out, files
