"""G-values — generator of small Python programs over int/str constants, objects, fields, elements, aliasing, helper
calls, branches on an opaque decision vector (and, for C08 only, loops that run 0 or 1 times), shared by C08 (cover +
literal-as-data) and C09 (exactness at probe points), plus the CPython tracing oracle for both.

Every program consists of: a few classes and helper functions with program-unique names, and `def main_<uid>(d)`.
One statement per line; every line that defines a variable carries metadata (variable, construct) so that a concrete
definition event (line, variable, value) can be joined with lian's statement at that source row.  Branch conditions are
`d[i]` with `d` the entry parameter, so every decision vector is feasible.  Programs are total by construction (types of
variables / fields are tracked, fields are read only when definitely present); the oracle run double-checks and a program
that raises is dropped (counted by the checks).

Concrete values are described as
    ("c", type-name, python value)                                  constants
    ("o", allocation line, kind, {field: value}, [elements])        objects (kind = class name | "list" | "dict")
with objects nested deeper than `depth` cut to ("o", line, kind, None, None)."""
import ast
import itertools
import random
import sys

BENIGN_STR = ['"abc"', '"hello"', '"x"', '"some text"', '"k9"', '"Zed"']
HOSTILE_STR = [
    ('"he said \\"hi\\""', "double-quote"),
    ("'he said \"hi\"'", "double-quote"),
    ("'say \"x\" now'", "double-quote"),
    ('"it\'s"', "single-quote"),
    ('"a\\\\b"', "backslash"),
    ('"c:\\\\dir\\\\f"', "backslash"),
    ('"tab\\there"', "escape-sequence"),
    ('"line\\nbreak"', "escape-sequence"),
    ('"12"', "digits-only"),
    ('"007"', "digits-only"),
    ('"3"', "digits-only"),
    ('"40"', "digits-only"),
    ('"1+1"', "operator-characters"),
    ('"2*3"', "operator-characters"),
    ('"a+b"', "operator-characters"),
    ('"9**9**9"', "operator-characters"),
    ('"x == y"', "operator-characters"),
    ('"100%"', "operator-characters"),
    ('"#tag"', "operator-characters"),
    ('"{k}"', "operator-characters"),
    ('"a-b/c"', "operator-characters"),
    ("'__import__(\"os\").getcwd()'", "call-lookalike"),
    ('"__import__(\'os\').getcwd()"', "call-lookalike"),
    ('"exit()"', "call-lookalike"),
    ('"len(x)"', "call-lookalike"),
    ("'a\" + \"b'", "quote-operator-quote"),
    ("'\" + str(1) + \"'", "quote-call-quote"),
    ("'\"1\" + \"2\"'", "quote-operator-quote"),
    ('""', "empty"),
    ('" "', "blank"),
    ('"True"', "keyword-like"),
    ('"None"', "keyword-like"),
    ('"0"', "digits-only"),
    ('"1e3"', "number-lookalike"),
    ('"-5"', "number-lookalike"),
    ('"0x10"', "number-lookalike"),
]
INT_POOL = [0, 1, 2, 3, 4, 5, 7, 8, 10, 11, 12, 20, 25, 100]


def benign_of(src_text, which=1):
    """A benign literal of the same type and the same length as the value of src_text (letters only); `which` selects
    one of two different benign texts (no letter in common at any position)."""
    v = ast.literal_eval(src_text)
    letters = "abcdefghijklmnopqrstuvwxyz"
    out = "".join(letters[(i * 7 + len(v) + (0 if which == 1 else 11)) % 26] for i in range(len(v)))
    return '"' + out + '"'


class Obj:
    __slots__ = ("oid", "kind", "cls", "line")

    def __init__(self, oid, kind, cls, line):
        self.oid, self.kind, self.cls, self.line = oid, kind, cls, line


class Env:
    """Flow-sensitive facts the generator relies on for totality and for feature tags."""

    def __init__(self):
        self.types = {}      # var -> "int" | "str" | ("obj", frozenset(oids))
        self.card = {}       # var -> upper bound on the number of abstract values
        self.tag = {}        # var -> construct tag of its reaching definition(s)
        self.fields = {}     # oid -> {field: (type, card)}     definitely present members
        self.hist = {}       # oid -> list of (field, via-var, seq)   writes so far
        self.ndefs = {}      # var -> number of definitions so far on this path
        self.taint = {}      # var -> frozenset of definition ids its value derives from (static dependence)
        self.ftaint = {}     # (oid, member) -> frozenset of definition ids
        self.own = {}        # var -> frozenset of the ids of its reaching definitions

    def copy(self):
        e = Env()
        e.types = dict(self.types)
        e.card = dict(self.card)
        e.tag = dict(self.tag)
        e.fields = {o: dict(f) for o, f in self.fields.items()}
        e.hist = {o: list(h) for o, h in self.hist.items()}
        e.ndefs = dict(self.ndefs)
        e.taint = dict(self.taint)
        e.ftaint = dict(self.ftaint)
        e.own = dict(self.own)
        return e

    @staticmethod
    def join(a, b):
        e = Env()
        for v in a.types:
            if v in b.types:
                ta, tb = a.types[v], b.types[v]
                if ta == tb:
                    e.types[v] = ta
                elif isinstance(ta, tuple) and isinstance(tb, tuple):
                    e.types[v] = ("obj", ta[1] | tb[1])
                else:
                    continue
                same = a.own.get(v) == b.own.get(v)
                e.card[v] = a.card.get(v, 1) + (0 if same else b.card.get(v, 1))
                e.tag[v] = a.tag.get(v) if same else "branch-join"
                e.ndefs[v] = max(a.ndefs.get(v, 1), b.ndefs.get(v, 1))
                e.taint[v] = a.taint.get(v, frozenset()) | b.taint.get(v, frozenset())
                e.own[v] = a.own.get(v, frozenset()) | b.own.get(v, frozenset())
        for k in set(a.ftaint) | set(b.ftaint):
            e.ftaint[k] = a.ftaint.get(k, frozenset()) | b.ftaint.get(k, frozenset())
        for o in set(a.fields) | set(b.fields):
            fa, fb = a.fields.get(o), b.fields.get(o)
            if fa is None or fb is None:
                # allocated on one side only: usable only through variables that survive the join (none do)
                e.fields[o] = dict(fa if fa is not None else fb)
                e.hist[o] = list(a.hist.get(o, [])) + list(b.hist.get(o, []))
                continue
            m = {}
            for f in fa:
                if f in fb and fa[f][0] == fb[f][0]:
                    m[f] = (fa[f][0], fa[f][1] + (0 if a.hist.get(o) == b.hist.get(o) else fb[f][1]))
            e.fields[o] = m
            ha, hb = a.hist.get(o, []), b.hist.get(o, [])
            e.hist[o] = ha + [x for x in hb if x not in ha]
            if ha != hb:
                e.hist[o] = e.hist[o] + [("%join", None, -1)]
        return e


class Program:
    def __init__(self, uid, mode):
        self.uid, self.mode = uid, mode
        self.lines = []
        self.meta = {}           # 1-based line -> dict(kind=..., var=..., construct=...)
        self.n_dec = 0
        self.probes = {}         # label -> dict(line, var, feature)
        self.features = set()
        self.literals = []       # (line, source text, class) of hostile string literals
        self.entry = f"main_{uid}"
        self.slot = None         # (line, source text, class) chosen for the metamorphic variant
        self.defs = {}           # definition id -> construct that made it (static dependence: see Env.taint)

    @property
    def text(self):
        return "\n".join(self.lines) + "\n"

    def variant_text(self, which=1):
        """Same program with the chosen hostile literal replaced by a benign one of the same length."""
        if self.slot is None:
            return None
        line, src, _ = self.slot
        ls = list(self.lines)
        assert src in ls[line - 1]
        ls[line - 1] = ls[line - 1].replace(src, benign_of(src, which), 1)
        return "\n".join(ls) + "\n"

    def to_case(self):
        return {"uid": self.uid, "mode": self.mode, "text": self.text, "meta": {str(k): v for k, v in self.meta.items()},
                "n_dec": self.n_dec, "probes": self.probes, "entry": self.entry, "literals": self.literals,
                "slot": self.slot, "features": sorted(self.features), "defs": {str(k): v for k, v in self.defs.items()}}

    @staticmethod
    def from_case(c):
        p = Program(c["uid"], c["mode"])
        p.lines = c["text"].rstrip("\n").split("\n")
        p.meta = {int(k): v for k, v in c["meta"].items()}
        p.n_dec = c["n_dec"]
        p.probes = c["probes"]
        p.entry = c["entry"]
        p.literals = [tuple(x) for x in c.get("literals", [])]
        p.slot = tuple(c["slot"]) if c.get("slot") else None
        p.features = set(c.get("features", []))
        p.defs = {int(k): v for k, v in c.get("defs", {}).items()}
        return p


INT_FIELDS = ["f1", "f2", "f3"]
STR_FIELDS = ["s1", "s2"]
OBJ_FIELDS = ["o1"]


class Gen:
    def __init__(self, rng, uid, mode, size=None, hostile=0.5, max_dec=6):
        self.rng, self.uid, self.mode = rng, uid, mode
        self.c09 = mode == "c09"
        self.p = Program(uid, mode)
        self.ind = 0
        self.nvar = 0
        self.nprobe = 0
        self.nobj = 0
        self.objs = {}
        self.seq = 0
        self.size = size or rng.choice([10, 14, 18, 24])
        self.hostile = hostile
        self.max_dec = max_dec
        self.hard_max_dec = max_dec
        self.helpers = {}
        self.classes = {}
        self.call_sites = {}
        self.depth = 0
        self.in_loop = False
        self.ndef = 0

    # ---- emission ------------------------------------------------------------------------------------------------
    def emit(self, text, **meta):
        self.p.lines.append("    " * self.ind + text)
        n = len(self.p.lines)
        if meta:
            self.p.meta[n] = meta
        return n

    def fresh(self, prefix="v"):
        self.nvar += 1
        return f"{prefix}{self.nvar}"

    def n(self, name):
        return f"{name}_{self.uid}"

    # ---- declarations -------------------------------------------------------------------------------------------
    def declare(self):
        r = self.rng
        u = self.uid
        # classes
        self.emit(f"class KA_{u}:")
        self.emit("    def __init__(self):", kind="method", name="__init__")
        a0 = r.choice(INT_POOL)
        self.emit(f"        self.f1 = {a0}", kind="fieldwrite", var="self", construct="field-write-in-constructor")
        self.classes["KA"] = {"init": {"f1": ("int", 1)}, "args": 0}
        self.emit("")
        self.emit(f"class KB_{u}:")
        self.emit("    pass")
        self.classes["KB"] = {"init": {}, "args": 0}
        self.emit("")
        self.emit(f"class KC_{u}:")
        self.emit("    def __init__(self, v):", kind="method", name="__init__", params=["v"])
        self.emit("        self.f1 = v", kind="fieldwrite", var="self", construct="field-write-in-constructor")
        b0 = r.choice(INT_POOL)
        self.emit(f"        self.f2 = {b0}", kind="fieldwrite", var="self", construct="field-write-in-constructor")
        self.classes["KC"] = {"init": {"f1": ("int", 1), "f2": ("int", 1)}, "args": 1}
        self.emit("")
        # helpers
        self.emit(f"def ident_{u}(x):", kind="method", name="ident", params=["x"])
        self.emit("    return x")
        self.emit("")
        self.emit(f"def second_{u}(x, y):", kind="method", name="second", params=["x", "y"])
        self.emit("    return y")
        self.emit("")
        self.emit(f"def first3_{u}(x, y, z):", kind="method", name="first3", params=["x", "y", "z"])
        self.emit("    r = x", kind="def", var="r", construct="copy-of-parameter")
        self.emit("    return r")
        self.emit("")
        self.emit(f"def add_{u}(x, y):", kind="method", name="add", params=["x", "y"])
        self.emit("    r = x + y", kind="def", var="r", construct="binary-fold-in-callee")
        self.emit("    return r")
        self.emit("")
        self.emit(f"def setf_{u}(o, v):", kind="method", name="setf", params=["o", "v"])
        self.emit("    o.f1 = v", kind="fieldwrite", var="o", construct="field-write-through-parameter")
        self.emit("")
        self.emit(f"def getf_{u}(o):", kind="method", name="getf", params=["o"])
        self.emit("    t = o.f1", kind="def", var="t", construct="field-read-through-parameter")
        self.emit("    return t")
        self.emit("")
        self.emit(f"def mk_{u}(v):", kind="method", name="mk", params=["v"])
        ln = self.emit(f"    n = KB_{u}()", kind="alloc", var="n", construct="allocation-in-callee")
        self.mk_alloc_line = ln
        self.emit("    n.f1 = v", kind="fieldwrite", var="n", construct="field-write")
        self.emit("    return n")
        self.emit("")
        self.emit(f"def kw_{u}(x, y=2, *, k=1):", kind="method", name="kw", params=["x", "y", "k"])
        self.emit("    r = y + k", kind="def", var="r", construct="binary-fold-in-callee")
        self.emit("    return r")
        self.emit("")
        self.emit(f"def kwk_{u}(x, y=2, *, k=1):", kind="method", name="kwk", params=["x", "y", "k"])
        self.emit("    return k")
        self.emit("")
        self.emit(f"def wrap_{u}(x):", kind="method", name="wrap", params=["x"])
        self.emit(f"    r = ident_{u}(x)", kind="def", var="r", construct="call-return-in-callee")
        self.emit("    return r")
        self.emit("")
        # --- family "nested object modified after it was stored, crossing a call boundary" ------------------------
        # the stored object is a KA instance: its f1 exists (constructor value) when the reference is stored
        self.late = {}
        for name, body in (
            ("mklate", ["box.o1 = inner", "inner.f1 = v"]),                       # modified through its own variable
            ("mkalias", ["box.o1 = inner", "al = box.o1", "al.f1 = v"]),          # through an alias read back
            ("mkearly", ["inner.f1 = v", "box.o1 = inner"]),                       # control: modified before it is stored
        ):
            self.emit(f"def {name}_{u}(v):", kind="method", name=name, params=["v"])
            li = self.emit(f"    inner = KA_{u}()", kind="alloc", var="inner", construct=f"allocation-in-callee:{name}")
            lb = self.emit(f"    box = KB_{u}()", kind="alloc", var="box", construct=f"allocation-in-callee:{name}")
            for st in body:
                tgt = st.split(" = ")[0]
                if "." in tgt:
                    self.emit("    " + st, kind="fieldwrite", var=tgt.split(".")[0], construct=f"field-write-in-callee:{name}")
                else:
                    self.emit("    " + st, kind="def", var=tgt, construct=f"alias-read-back-in-callee:{name}")
            self.emit("    return box")
            self.emit("")
            self.late[name] = {"box": lb, "inner": li}
        self.emit(f"def mkdeep_{u}(v):", kind="method", name="mkdeep", params=["v"])     # two levels deep
        li = self.emit(f"    inner = KA_{u}()", kind="alloc", var="inner", construct="allocation-in-callee:mkdeep")
        lm = self.emit(f"    mid = KB_{u}()", kind="alloc", var="mid", construct="allocation-in-callee:mkdeep")
        lb = self.emit(f"    box = KB_{u}()", kind="alloc", var="box", construct="allocation-in-callee:mkdeep")
        self.emit("    mid.o1 = inner", kind="fieldwrite", var="mid", construct="field-write-in-callee:mkdeep")
        self.emit("    box.o1 = mid", kind="fieldwrite", var="box", construct="field-write-in-callee:mkdeep")
        self.emit("    inner.f1 = v", kind="fieldwrite", var="inner", construct="field-write-in-callee:mkdeep")
        self.emit("    return box")
        self.emit("")
        self.late["mkdeep"] = {"box": lb, "mid": lm, "inner": li}
        self.emit(f"def fill_{u}(box, v):", kind="method", name="fill", params=["box", "v"])  # parameter out-effect
        li = self.emit(f"    inner = KA_{u}()", kind="alloc", var="inner", construct="allocation-in-callee:fill")
        self.emit("    box.o1 = inner", kind="fieldwrite", var="box", construct="field-write-in-callee:fill")
        self.emit("    inner.f1 = v", kind="fieldwrite", var="inner", construct="field-write-in-callee:fill")
        self.emit("")
        self.late["fill"] = {"inner": li}
        # --- family "helper with several exits that writes a field of a parameter object on the different paths without
        #     re-defining the parameter symbol" ----------------------------------------------------------------------
        ks = r.sample([1, 2, 3, 4, 5, 7, 8, 10, 11, 12, 20, 25], 10)
        self.exits = {"set2": ks[0:2], "set3": ks[2:4], "set4": ks[4:6], "set5": ks[6:8], "set6": ks[8:10]}
        self.emit(f"def set2_{u}(o, c):", kind="method", name="set2", params=["o"])           # alias, body ends in if/else
        self.emit("    q = o", kind="def", var="q", construct="alias-of-parameter")
        self.emit("    if c:")
        self.emit(f"        q.f1 = {ks[0]}", kind="fieldwrite", var="q", construct="field-write-through-alias-of-parameter")
        self.emit("    else:")
        self.emit(f"        q.f1 = {ks[1]}", kind="fieldwrite", var="q", construct="field-write-through-alias-of-parameter")
        self.emit("")
        self.emit(f"def set3_{u}(o, c):", kind="method", name="set3", params=["o"])           # nested setter, early return
        self.emit("    if c:")
        self.emit(f"        setf_{u}(o, {ks[2]})", kind="callstmt", construct="nested-setter-call")
        self.emit("        return 0")
        self.emit(f"    setf_{u}(o, {ks[3]})", kind="callstmt", construct="nested-setter-call")
        self.emit("    return 1")
        self.emit("")
        self.emit(f"def set4_{u}(o, c):", kind="method", name="set4", params=["o"])           # control: direct writes
        self.emit("    if c:")
        self.emit(f"        o.f1 = {ks[4]}", kind="fieldwrite", var="o", construct="field-write-through-parameter")
        self.emit("    else:")
        self.emit(f"        o.f1 = {ks[5]}", kind="fieldwrite", var="o", construct="field-write-through-parameter")
        self.emit("")
        self.emit(f"def set5_{u}(o, c):", kind="method", name="set5", params=["o"])           # alias, early return
        self.emit("    q = o", kind="def", var="q", construct="alias-of-parameter")
        self.emit("    if c:")
        self.emit(f"        q.f1 = {ks[6]}", kind="fieldwrite", var="q", construct="field-write-through-alias-of-parameter")
        self.emit("        return 0")
        self.emit(f"    q.f1 = {ks[7]}", kind="fieldwrite", var="q", construct="field-write-through-alias-of-parameter")
        self.emit("    return 1")
        self.emit("")
        self.emit(f"def set6_{u}(o, c):", kind="method", name="set6", params=["o"])           # nested setter, if/else at the end
        self.emit("    if c:")
        self.emit(f"        setf_{u}(o, {ks[8]})", kind="callstmt", construct="nested-setter-call")
        self.emit("    else:")
        self.emit(f"        setf_{u}(o, {ks[9]})", kind="callstmt", construct="nested-setter-call")
        self.emit("")

    # ---- atoms ---------------------------------------------------------------------------------------------------
    def vars_of(self, env, pred):
        return sorted(v for v, t in env.types.items() if pred(t))

    def int_lit(self):
        return str(self.rng.choice(INT_POOL))

    def str_lit(self):
        if self.rng.random() < self.hostile:
            src, cls = self.rng.choice(HOSTILE_STR)
            return src, cls
        return self.rng.choice(BENIGN_STR), None

    def note_literal(self, line, src, cls):
        if cls is not None:
            self.p.literals.append((line, src, cls))

    def int_atom(self, env, maxcard=8, lit_p=0.45):
        vs = [v for v in self.vars_of(env, lambda t: t == "int") if env.card.get(v, 1) <= maxcard]
        if vs and self.rng.random() > lit_p:
            v = self.rng.choice(vs)
            return v, env.card.get(v, 1), True
        return self.int_lit(), 1, False

    def str_atom(self, env, maxcard=8, lit_p=0.5):
        vs = [v for v in self.vars_of(env, lambda t: t == "str") if env.card.get(v, 1) <= maxcard]
        if vs and self.rng.random() > lit_p:
            v = self.rng.choice(vs)
            return v, env.card.get(v, 1), None
        src, cls = self.str_lit()
        return src, 1, (src, cls)

    def target(self, env, typ, allow_reuse=True):
        """A variable to assign: a fresh one, or (overwrite) an existing one of the same type."""
        if allow_reuse and self.rng.random() < 0.3:
            vs = self.vars_of(env, lambda t: t == typ)
            if vs:
                return self.rng.choice(vs), True
        return self.fresh(), False

    def taint_of(self, env, *srcs):
        t = frozenset()
        for x in srcs:
            if isinstance(x, frozenset):
                t |= x
            elif isinstance(x, str):
                t |= env.taint.get(x, frozenset())
        return t

    def new_def_id(self, tag="?"):
        self.ndef += 1
        self.p.defs[self.ndef] = tag
        return self.ndef

    def member_taint(self, env, v, member):
        t = env.taint.get(v, frozenset())
        for o in env.types[v][1]:
            t |= env.ftaint.get((o, member), frozenset())
        return t

    def write_member_taint(self, env, v, member, value_taint, tag="member-write"):
        pts = env.types[v][1]
        t = value_taint | frozenset([self.new_def_id(tag)])
        for o in pts:
            env.ftaint[(o, member)] = t if len(pts) == 1 else (env.ftaint.get((o, member), frozenset()) | t)

    def define(self, env, var, typ, card, tag, srcs=()):
        env.own[var] = frozenset([self.new_def_id(tag)])
        env.taint[var] = self.taint_of(env, *srcs) | env.own[var]
        overwritten = var in env.types
        env.types[var] = typ
        env.card[var] = max(1, min(card, 64))
        env.ndefs[var] = env.ndefs.get(var, 0) + 1
        if overwritten and tag in ("const-assign", "copy"):
            tag = "overwrite"
        env.tag[var] = tag
        self.p.features.add(tag)
        return tag

    # ---- statements ----------------------------------------------------------------------------------------------
    def st_const_int(self, env):
        v, _ = self.target(env, "int")
        lit = self.int_lit()
        tag = "overwrite" if v in env.types else "const-assign"
        self.emit(f"{v} = {lit}", kind="def", var=v, construct=tag)
        self.define(env, v, "int", 1, tag)
        return True

    def st_const_str(self, env):
        v, _ = self.target(env, "str")
        src, cls = self.str_lit()
        tag = "overwrite" if v in env.types else "const-assign"
        ln = self.emit(f"{v} = {src}", kind="def", var=v, construct=tag)
        self.note_literal(ln, src, cls)
        self.define(env, v, "str", 1, tag)
        return True

    def st_copy(self, env):
        srcs = sorted(env.types)
        if not srcs:
            return False
        s = self.rng.choice(srcs)
        typ = env.types[s]
        if isinstance(typ, tuple):
            v = self.fresh()
        else:
            v, _ = self.target(env, typ)
        if v == s:
            return False
        tag = "overwrite" if v in env.types else "copy"
        self.emit(f"{v} = {s}", kind="def", var=v, construct=tag if tag == "overwrite" else "copy")
        self.define(env, v, typ, env.card.get(s, 1), tag, srcs=(s,))
        return True

    def st_binop_int(self, env):
        a, ca, _ = self.int_atom(env, maxcard=4)
        b, cb, _ = self.int_atom(env, maxcard=4)
        if ca * cb > 12:
            return False
        if self.c09 and ca > 1 and cb > 1:
            # C09's statement defines a fold's exact result as the set over the operand *combinations*; with two
            # branch-dependent operands the combinations can exceed the collecting semantics (correlated operands)
            return False
        op = self.rng.choice(["+", "+", "-", "-", "*"])
        if self.rng.random() < 0.12 and not a.lstrip("-").isdigit():
            b, cb, op = a, ca, "-"          # x - x: a falsy result on every path
            if ca > (1 if self.c09 else 3):
                return False
        v, _ = self.target(env, "int")
        self.emit(f"{v} = {a} {op} {b}", kind="def", var=v, construct="binary-fold", operator=op)
        self.define(env, v, "int", ca * cb, "binary-fold", srcs=(a, b))
        return True

    def st_binop_str(self, env):
        r = self.rng.random()
        v, _ = self.target(env, "str")
        if r < 0.75:
            a, ca, la = self.str_atom(env, maxcard=3)
            b, cb, lb = self.str_atom(env, maxcard=3)
            if ca * cb > 9:
                return False
            ln = self.emit(f"{v} = {a} + {b}", kind="def", var=v, construct="binary-fold", operator="+")
            for l in (la, lb):
                if l:
                    self.note_literal(ln, l[0], l[1])
            self.define(env, v, "str", ca * cb, "binary-fold", srcs=(a, b))
        else:
            a, ca, la = self.str_atom(env, maxcard=3)
            k = self.rng.choice([0, 1, 2, 3])
            ln = self.emit(f"{v} = {a} * {k}", kind="def", var=v, construct="binary-fold", operator="*")
            if la:
                self.note_literal(ln, la[0], la[1])
            self.define(env, v, "str", ca, "binary-fold", srcs=(a,))
        return True

    def new_obj(self, env, kind, cls, line, fields):
        self.nobj += 1
        oid = self.nobj
        self.objs[oid] = Obj(oid, kind, cls, line)
        env.fields[oid] = dict(fields)
        env.hist[oid] = []
        return oid

    def st_alloc(self, env):
        r = self.rng
        v = self.fresh("o")
        which = r.choice(["KA", "KB", "KB", "KC"])
        if which == "KC":
            a, ca, _ = self.int_atom(env, maxcard=3)
            ln = self.emit(f"{v} = KC_{self.uid}({a})", kind="alloc", var=v, construct="allocation", cls="KC")
            fields = {"f1": ("int", ca), "f2": ("int", 1)}
        else:
            ln = self.emit(f"{v} = {which}_{self.uid}()", kind="alloc", var=v, construct="allocation", cls=which)
            fields = dict(self.classes[which]["init"])
        oid = self.new_obj(env, "inst", which, ln, fields)
        self.define(env, v, ("obj", frozenset([oid])), 1, "allocation")
        if which == "KC":
            env.ftaint[(oid, "f1")] = self.taint_of(env, a) | frozenset([self.new_def_id()])
        return True

    def st_alloc_coll(self, env):
        r = self.rng
        if r.random() < 0.6:
            v = self.fresh("l")
            strs = (not self.c09) and r.random() < 0.35
            n = r.choice([1, 2, 3])
            lits = []
            elems = []
            for _ in range(n):
                if strs:
                    src, cls = self.str_lit()
                    lits.append((src, cls))
                    elems.append(src)
                else:
                    elems.append(self.int_lit())
            ln = self.emit(f"{v} = [{', '.join(elems)}]", kind="alloc", var=v, construct="list-literal")
            for src, cls in lits:
                self.note_literal(ln, src, cls)
            fields = {("#", i): ("str" if strs else "int", 1) for i in range(n)}
            oid = self.new_obj(env, "list", "list", ln, fields)
        else:
            v = self.fresh("m")
            keys = r.sample(["ka", "kb", "kc"], r.choice([1, 2]))
            items = []
            fields = {}
            lits = []
            for k in keys:
                if (not self.c09) and r.random() < 0.3:
                    src, cls = self.str_lit()
                    lits.append((src, cls))
                    items.append(f'"{k}": {src}')
                    fields[("k", k)] = ("str", 1)
                else:
                    items.append(f'"{k}": {self.int_lit()}')
                    fields[("k", k)] = ("int", 1)
            ln = self.emit(f"{v} = {{{', '.join(items)}}}", kind="alloc", var=v, construct="dict-literal")
            for src, cls in lits:
                self.note_literal(ln, src, cls)
            oid = self.new_obj(env, "dict", "dict", ln, fields)
        self.define(env, v, ("obj", frozenset([oid])), 1, "allocation")
        return True

    def inst_vars(self, env, kinds=("inst",)):
        out = []
        for v, t in sorted(env.types.items()):
            if isinstance(t, tuple) and t[1] and all(self.objs[o].kind in kinds for o in t[1]):
                out.append(v)
        return out

    def note_write(self, env, v, field):
        self.seq += 1
        for o in env.types[v][1]:
            env.hist.setdefault(o, []).append((field, v, self.seq))

    def st_field_write(self, env):
        vs = self.inst_vars(env)
        if not vs:
            return False
        v = self.rng.choice(vs)
        pts = env.types[v][1]
        r = self.rng.random()
        if r < 0.7 or self.c09 and r < 0.9:
            f = self.rng.choice(INT_FIELDS)
            a, ca, _ = self.int_atom(env, maxcard=4)
            typ = "int"
            lit = None
        elif r < 0.9:
            f = self.rng.choice(STR_FIELDS)
            a, ca, lit = self.str_atom(env, maxcard=4)
            typ = "str"
        else:
            others = [w for w in self.inst_vars(env, kinds=("inst", "list", "dict")) if w != v and not (env.types[w][1] & pts)]
            if not others:
                return False
            f = "o1"
            a = self.rng.choice(others)
            ca = 1
            typ = env.types[a]
            # no cycles: the stored object must not (transitively) hold v's objects
            for o in typ[1]:
                ft = env.fields.get(o, {}).get("o1")
                if ft is not None:
                    return False
            lit = None
        ln = self.emit(f"{v}.{f} = {a}", kind="fieldwrite", var=v, construct="field-write", field=f)
        if lit:
            self.note_literal(ln, lit[0], lit[1])
        for o in pts:
            old = env.fields[o].get(f)
            if len(pts) == 1:
                env.fields[o][f] = (typ, ca)
            elif old is not None and old[0] == typ:
                env.fields[o][f] = (typ, old[1] + ca)
            elif old is not None:
                del env.fields[o][f]
        self.note_write(env, v, f)
        self.write_member_taint(env, v, f, self.taint_of(env, a))
        env.tag[v] = env.tag.get(v, "allocation")
        self.p.features.add("field-write")
        return True

    def field_read_tag(self, env, v, f):
        pts = env.types[v][1]
        if len(pts) > 1:
            return "field-read-of-branch-joined-object"
        (o,) = tuple(pts)
        h = env.hist.get(o, [])
        writes = [x for x in h if x[0] == f]
        if any(x[0] == "%join" for x in h):
            return "field-read-after-branch-join"
        if not writes:
            return "field-read-of-constructor-value"
        last = writes[-1]
        if last[1] == "%callee":
            return "field-read-after-callee-field-write"
        if last[1] != v:
            return "field-read-after-alias-write"
        later = [x for x in h if x[2] > last[2] and x[0] != f]
        if later:
            return "field-vs-field"
        other = False
        for o2, h2 in env.hist.items():
            if o2 != o and any(x[0] == f and x[2] > last[2] for x in h2):
                other = True
        if other:
            return "object-vs-object"
        if len(writes) > 1:
            return "field-overwrite"
        return "field-read"

    def st_field_read(self, env):
        vs = self.inst_vars(env)
        cands = []
        for v in vs:
            pts = env.types[v][1]
            common = None
            for o in pts:
                fs = {f: t for f, t in env.fields.get(o, {}).items() if isinstance(f, str)}
                common = fs if common is None else {f: t for f, t in common.items() if f in fs and fs[f][0] == t[0]}
            for f, t in (common or {}).items():
                cands.append((v, f, t))
        if not cands:
            return False
        v, f, (typ, card) = self.rng.choice(cands)
        card = card * len(env.types[v][1])
        tag = self.field_read_tag(env, v, f)
        if isinstance(typ, tuple):
            t = self.fresh("o")
        else:
            t, _ = self.target(env, typ)
        self.emit(f"{t} = {v}.{f}", kind="def", var=t, construct=tag, field=f)
        self.define(env, t, typ, card, tag, srcs=(self.member_taint(env, v, f),))
        return True

    def st_elem_write(self, env):
        vs = self.inst_vars(env, kinds=("list", "dict"))
        vs = [v for v in vs if len(env.types[v][1]) == 1]
        if not vs:
            return False
        v = self.rng.choice(vs)
        (o,) = tuple(env.types[v][1])
        keys = sorted(env.fields[o], key=str)
        if not keys:
            return False
        k = self.rng.choice(keys)
        typ = env.fields[o][k][0]
        lit = None
        if typ == "int":
            a, ca, _ = self.int_atom(env, maxcard=4)
        else:
            a, ca, lit = self.str_atom(env, maxcard=4)
        idx = str(k[1]) if k[0] == "#" else f'"{k[1]}"'
        ln = self.emit(f"{v}[{idx}] = {a}", kind="fieldwrite", var=v, construct="element-write")
        if lit:
            self.note_literal(ln, lit[0], lit[1])
        env.fields[o][k] = (typ, ca)
        self.seq += 1
        env.hist.setdefault(o, []).append((k, v, self.seq))
        self.write_member_taint(env, v, k, self.taint_of(env, a))
        self.p.features.add("element-write")
        return True

    def st_elem_read(self, env):
        vs = self.inst_vars(env, kinds=("list", "dict"))
        vs = [v for v in vs if len(env.types[v][1]) == 1]
        if not vs:
            return False
        v = self.rng.choice(vs)
        (o,) = tuple(env.types[v][1])
        keys = sorted(env.fields[o], key=str)
        if not keys:
            return False
        k = self.rng.choice(keys)
        typ, card = env.fields[o][k]
        idx = str(k[1]) if k[0] == "#" else f'"{k[1]}"'
        h = [x for x in env.hist.get(o, []) if x[0] == k]
        if not h:
            tag = "element-read-of-literal-member"
        elif h[-1][1] != v:
            tag = "element-read-after-alias-write"
        else:
            later = [x for x in env.hist.get(o, []) if x[2] > h[-1][2] and x[0] != k]
            tag = "element-vs-element" if later else ("element-overwrite" if True else "")
        t, _ = self.target(env, typ)
        self.emit(f"{t} = {v}[{idx}]", kind="def", var=t, construct=tag)
        self.define(env, t, typ, card, tag, srcs=(self.member_taint(env, v, k),))
        return True

    def site(self, helper):
        self.call_sites[helper] = self.call_sites.get(helper, 0) + 1

    def st_call(self, env):
        r = self.rng
        u = self.uid
        kinds = ["ident", "ident", "second", "first3", "add", "setf", "getf", "mk", "kw", "kwk", "wrap", "ident-obj"]
        if not self.c09:
            kinds += ["ident-str", "second-str"]
        k = r.choice(kinds)
        if k in ("ident", "wrap"):
            a, ca, _ = self.int_atom(env, maxcard=4, lit_p=0.6)
            v, _ = self.target(env, "int")
            tag = "call-return" if k == "ident" else "nested-call-return"
            self.emit(f"{v} = {k}_{u}({a})", kind="def", var=v, construct=tag, helper=k)
            self.define(env, v, "int", ca, tag, srcs=(a,))
        elif k == "ident-str":
            a, ca, lit = self.str_atom(env, maxcard=4)
            v, _ = self.target(env, "str")
            ln = self.emit(f"{v} = ident_{u}({a})", kind="def", var=v, construct="call-return", helper="ident")
            if lit:
                self.note_literal(ln, lit[0], lit[1])
            self.define(env, v, "str", ca, "call-return", srcs=(a,))
            k = "ident"
        elif k == "ident-obj":
            vs = self.inst_vars(env, kinds=("inst", "list", "dict"))
            if not vs:
                return False
            a = r.choice(vs)
            v = self.fresh("o")
            self.emit(f"{v} = ident_{u}({a})", kind="def", var=v, construct="call-return-object", helper="ident")
            self.define(env, v, env.types[a], env.card.get(a, 1), "call-return-object", srcs=(a,))
            k = "ident"
        elif k == "second":
            a, ca, _ = self.int_atom(env, maxcard=4)
            b, cb, _ = self.int_atom(env, maxcard=4)
            v, _ = self.target(env, "int")
            self.emit(f"{v} = second_{u}({a}, {b})", kind="def", var=v, construct="call-return-second-argument", helper=k)
            self.define(env, v, "int", cb, "call-return-second-argument", srcs=(a, b))
        elif k == "second-str":
            a, ca, _ = self.int_atom(env, maxcard=4)
            b, cb, lit = self.str_atom(env, maxcard=4)
            v, _ = self.target(env, "str")
            ln = self.emit(f"{v} = second_{u}({a}, {b})", kind="def", var=v, construct="call-return-second-argument", helper="second")
            if lit:
                self.note_literal(ln, lit[0], lit[1])
            self.define(env, v, "str", cb, "call-return-second-argument", srcs=(a, b))
            k = "second"
        elif k == "first3":
            a, ca, _ = self.int_atom(env, maxcard=4)
            b, cb, _ = self.int_atom(env, maxcard=4)
            c, cc, _ = self.int_atom(env, maxcard=4)
            v, _ = self.target(env, "int")
            self.emit(f"{v} = first3_{u}({a}, {b}, {c})", kind="def", var=v, construct="call-return-first-of-three", helper=k)
            self.define(env, v, "int", ca, "call-return-first-of-three", srcs=(a, b, c))
        elif k == "add":
            a, ca, _ = self.int_atom(env, maxcard=3)
            b, cb, _ = self.int_atom(env, maxcard=3)
            if ca * cb > 9 or (self.c09 and ca > 1 and cb > 1):
                return False
            v, _ = self.target(env, "int")
            self.emit(f"{v} = add_{u}({a}, {b})", kind="def", var=v, construct="call-return-binary-fold", helper=k)
            self.define(env, v, "int", ca * cb, "call-return-binary-fold", srcs=(a, b))
        elif k == "setf":
            vs = [w for w in self.inst_vars(env)]
            if not vs:
                return False
            o = r.choice(vs)
            a, ca, _ = self.int_atom(env, maxcard=4)
            self.emit(f"setf_{u}({o}, {a})", kind="callstmt", construct="callee-field-write", helper=k)
            pts = env.types[o][1]
            for ob in pts:
                old = env.fields[ob].get("f1")
                if len(pts) == 1:
                    env.fields[ob]["f1"] = ("int", ca)
                elif old is not None and old[0] == "int":
                    env.fields[ob]["f1"] = ("int", old[1] + ca)
                elif old is not None:
                    del env.fields[ob]["f1"]
            self.seq += 1
            for ob in pts:
                env.hist.setdefault(ob, []).append(("f1", "%callee", self.seq))
            self.write_member_taint(env, o, "f1", self.taint_of(env, a, o), tag="callee-field-write")
            self.p.features.add("callee-field-write")
        elif k == "getf":
            vs = [w for w in self.inst_vars(env)
                  if all(env.fields.get(o, {}).get("f1", (None,))[0] == "int" for o in env.types[w][1])]
            if not vs:
                return False
            o = r.choice(vs)
            card = sum(env.fields[ob]["f1"][1] for ob in env.types[o][1])
            v, _ = self.target(env, "int")
            callee_written = any(x[1] == "%callee" and x[0] == "f1" for ob in env.types[o][1] for x in env.hist.get(ob, []))
            tag = "callee-field-read-after-callee-field-write" if callee_written else "callee-field-read"
            self.emit(f"{v} = getf_{u}({o})", kind="def", var=v, construct=tag, helper=k)
            self.define(env, v, "int", card, tag, srcs=(self.member_taint(env, o, "f1"),))
        elif k == "mk":
            a, ca, _ = self.int_atom(env, maxcard=4)
            v = self.fresh("o")
            ln = self.emit(f"{v} = mk_{u}({a})", kind="def", var=v, construct="callee-allocation", helper=k)
            oid = self.new_obj(env, "inst", "KB", self.mk_alloc_line, {"f1": ("int", ca)})
            self.seq += 1
            env.hist[oid].append(("f1", "%callee", self.seq))
            self.define(env, v, ("obj", frozenset([oid])), 1, "callee-allocation", srcs=(a,))
            env.ftaint[(oid, "f1")] = env.taint[v]
        elif k in ("kw", "kwk"):
            a, ca, _ = self.int_atom(env, maxcard=3)
            form = r.choice(["x", "xy", "xk", "xyk"])
            args = [a]
            if "y" in form:
                args.append(self.int_lit())
            if "k" in form:
                args.append("k=" + self.int_lit())
            v, _ = self.target(env, "int")
            tag = {"x": "default-arguments", "xy": "default-keyword-only-argument", "xk": "default-vs-keyword-argument",
                   "xyk": "keyword-argument"}[form]
            self.emit(f"{v} = {k}_{u}({', '.join(args)})", kind="def", var=v, construct=tag, helper=k)
            self.define(env, v, "int", 1, tag)
        self.site(k)
        return True

    def sc_nested_late(self, env):
        """o = mkX(a); t = o.o1; x = t.f1 — the object stored in o.o1 was modified in the callee after it had been stored."""
        r, u = self.rng, self.uid
        variant = r.choice(["mklate", "mklate", "mkalias", "mkalias", "mkdeep", "fill", "fill", "mkearly"])
        a, ca, _ = self.int_atom(env, maxcard=3, lit_p=0.7)
        lines = self.late[variant]
        if variant == "fill":
            o = self.fresh("o")
            ln = self.emit(f"{o} = KB_{u}()", kind="alloc", var=o, construct="allocation", cls="KB")
            box = self.new_obj(env, "inst", "KB", ln, {})
            self.define(env, o, ("obj", frozenset([box])), 1, "allocation")
            self.emit(f"fill_{u}({o}, {a})", kind="callstmt", construct="callee-stores-then-modifies:fill", helper="fill")
        else:
            o = self.fresh("o")
            self.emit(f"{o} = {variant}_{u}({a})", kind="def", var=o, construct=f"container-returned:{variant}", helper=variant)
            box = self.new_obj(env, "inst", "KB", lines["box"], {})
            self.define(env, o, ("obj", frozenset([box])), 1, f"container-returned:{variant}", srcs=(a,))
        inner = self.new_obj(env, "inst", "KA", lines["inner"], {"f1": ("int", ca)})
        self.seq += 1
        env.hist[inner].append(("f1", "%callee", self.seq))
        env.ftaint[(inner, "f1")] = self.taint_of(env, a) | frozenset([self.new_def_id(f"late-nested-write:{variant}")])
        first = inner
        if variant == "mkdeep":
            mid = self.new_obj(env, "inst", "KB", lines["mid"], {"o1": (("obj", frozenset([inner])), 1)})
            env.hist[mid].append(("o1", "%callee", self.seq))
            first = mid
        env.fields[box]["o1"] = (("obj", frozenset([first])), 1)
        env.hist[box].append(("o1", "%callee", self.seq))
        env.ftaint[(box, "o1")] = frozenset([self.new_def_id(f"container-member:{variant}")])
        cur = o
        for level in range(2 if variant == "mkdeep" else 1):
            t = self.fresh("o")
            target = first if level == 0 else inner
            tag = f"read-of-stored-object:{variant}"
            self.emit(f"{t} = {cur}.o1", kind="def", var=t, construct=tag, field="o1")
            self.define(env, t, ("obj", frozenset([target])), 1, tag, srcs=(cur,))
            cur = t
        x = self.fresh()
        tag = f"nested-field-read-after-late-write:{variant}"
        self.emit(f"{x} = {cur}.f1", kind="def", var=x, construct=tag, field="f1")
        self.define(env, x, "int", ca, tag, srcs=(env.ftaint[(inner, "f1")], cur))
        self.site(variant)
        self.p.features.add(f"scenario:nested-late:{variant}")
        if self.c09:
            self.st_probe(env, x)
        return True

    def sc_multi_exit(self, env):
        """o = KB(); setN(o, d[i]); x = o.f1 — the helper has two exits and writes o.f1 on both paths."""
        if self.p.n_dec >= self.hard_max_dec:
            return False
        r, u = self.rng, self.uid
        variant = r.choice(["set2", "set2", "set3", "set3", "set5", "set6", "set4"])
        o = self.fresh("o")
        ln = self.emit(f"{o} = KB_{u}()", kind="alloc", var=o, construct="allocation", cls="KB")
        oid = self.new_obj(env, "inst", "KB", ln, {})
        self.define(env, o, ("obj", frozenset([oid])), 1, "allocation")
        i = self.p.n_dec
        self.p.n_dec += 1
        self.emit(f"{variant}_{u}({o}, d[{i}])", kind="callstmt", construct=f"multi-exit-callee-field-write:{variant}", helper=variant, dec=i)
        env.fields[oid]["f1"] = ("int", 2)
        self.seq += 1
        env.hist[oid].append(("f1", "%callee", self.seq))
        env.ftaint[(oid, "f1")] = frozenset([self.new_def_id(f"multi-exit-callee-field-write:{variant}")])
        x = self.fresh()
        tag = f"field-read-after-multi-exit-callee-write:{variant}"
        self.emit(f"{x} = {o}.f1", kind="def", var=x, construct=tag, field="f1")
        self.define(env, x, "int", 2, tag, srcs=(env.ftaint[(oid, "f1")], o))
        self.site(variant)
        self.p.features.add(f"scenario:multi-exit:{variant}")
        if self.c09:
            self.st_probe(env, x)
        return True

    def sc_partly_unknown(self, env):
        """y = K; if d[i]: y = <opaque>; then binary operations with y as first / second / both operand(s).  On the path that
        takes the branch CPython computes e.g. 5 + (-x), which only an explicit unknown state covers (C08 only)."""
        if self.c09 or self.p.n_dec >= self.hard_max_dec:
            return False
        r, u = self.rng, self.uid
        strings = r.random() < 0.25
        y = self.fresh()
        if strings:
            src = r.choice(BENIGN_STR)
            self.emit(f"{y} = {src}", kind="def", var=y, construct="const-assign")
            self.define(env, y, "str", 1, "const-assign")
        else:
            self.emit(f"{y} = {self.int_lit()}", kind="def", var=y, construct="const-assign")
            self.define(env, y, "int", 1, "const-assign")
        i = self.p.n_dec
        self.p.n_dec += 1
        self.emit(f"if d[{i}]:", kind="branch", dec=i)
        if strings:
            self.emit(f"    {y} = opaques_{u}({r.choice(BENIGN_STR)})", kind="def", var=y, construct="opaque-unresolved-call", opaque=True)
        elif r.random() < 0.5:
            a, _, isvar = self.int_atom(env, maxcard=2, lit_p=0.3)
            if not isvar:
                a = self.rng.choice([v for v, t in sorted(env.types.items()) if t == "int"] or [y])
            self.emit(f"    {y} = -{a}", kind="def", var=y, construct="opaque-unary-minus", opaque=True)
        else:
            self.emit(f"    {y} = opaque_{u}({self.int_lit()})", kind="def", var=y, construct="opaque-unresolved-call", opaque=True)
        typ = "str" if strings else "int"
        self.define(env, y, typ, 2, "partly-unknown")
        ops = ["+"] if strings else ["+", "+", "-", "*"]

        def other():
            if strings:
                vs = [v for v in self.vars_of(env, lambda t: t == "str") if v != y and env.card.get(v, 1) <= 2]
                return r.choice(vs) if vs and r.random() < 0.5 else r.choice(BENIGN_STR)
            vs = [v for v in self.vars_of(env, lambda t: t == "int") if v != y and env.card.get(v, 1) <= 2 and env.tag.get(v) != "partly-unknown"]
            return r.choice(vs) if vs and r.random() < 0.6 else self.int_lit()

        forms = ["second", "first"] + r.sample(["second", "first", "both"], r.choice([0, 1, 2]))
        for pos in forms:
            z = self.fresh()
            op = r.choice(ops)
            if pos == "second":
                expr = f"{other()} {op} {y}"
            elif pos == "first":
                expr = f"{y} {op} {other()}"
            else:
                expr = f"{y} {op} {y}"
            tag = f"binary-op-with-partly-unknown-{pos}-operand"
            self.emit(f"{z} = {expr}", kind="def", var=z, construct=tag, operator=op, opaque=True)
            self.define(env, z, typ, 4, tag, srcs=(y,))
        self.p.features.add("scenario:partly-unknown:" + ("str" if strings else "int"))
        return True

    def st_pass(self, env):
        self.emit("pass", kind="noop")
        self.p.features.add("pass")
        return True

    def st_probe(self, env, v=None, final=False):
        if v is None:
            vs = [w for w, t in sorted(env.types.items()) if t == "int"]
            vs += [w for w in self.inst_vars(env, kinds=("inst",))]
            if not vs:
                return False
            v = self.rng.choice(vs)
        self.nprobe += 1
        label = f"p{self.nprobe}"
        feat = env.tag.get(v, "?")
        if isinstance(env.types[v], tuple):
            feat = "object:" + feat
        ln = self.emit(f'probe_{self.uid}("{label}", {v})', kind="probe", var=v, label=label, feature=feat)
        self.p.probes[label] = {"line": ln, "var": v, "feature": feat, "is_obj": isinstance(env.types[v], tuple),
                                "taint": sorted(env.taint.get(v, ())), "own": sorted(env.own.get(v, ()))}
        return True

    def block(self, env, budget):
        """Emit `budget` statements into the current block; returns the env at its end."""
        emitted = 0
        guard = 0
        while emitted < budget and guard < budget * 20:
            guard += 1
            r = self.rng.random()
            ok = False
            if r < 0.10 and self.depth < 2 and self.p.n_dec < self.max_dec and budget - emitted >= 2:
                env = self.st_if(env, min(budget - emitted, self.rng.choice([2, 3, 4])))
                ok = True
                emitted += 2
            elif r < 0.13 and not self.c09 and self.depth < 2 and not self.in_loop and self.p.n_dec < self.max_dec:
                env = self.st_loop(env)
                ok = True
                emitted += 2
            else:
                table = [(self.st_const_int, 12), (self.st_copy, 9), (self.st_binop_int, 12), (self.st_alloc, 7),
                         (self.st_alloc_coll, 4 if not self.c09 else 0), (self.st_field_write, 12), (self.st_field_read, 12),
                         (self.st_elem_write, 4 if not self.c09 else 0), (self.st_elem_read, 4 if not self.c09 else 0),
                         (self.st_call, 14), (self.st_pass, 2), (self.sc_nested_late, 2), (self.sc_multi_exit, 2),
                         (self.sc_partly_unknown, 0 if self.c09 else 2)]
                if not self.c09:
                    table += [(self.st_const_str, 10), (self.st_binop_str, 12)]
                tot = sum(w for _, w in table)
                x = self.rng.random() * tot
                for fn, w in table:
                    if w <= 0:
                        continue
                    x -= w
                    if x <= 0:
                        ok = fn(env)
                        break
                if ok:
                    emitted += 1
                    if self.c09 and self.rng.random() < 0.3:
                        self.st_probe(env)
        return env

    def st_if(self, env, n):
        i = self.p.n_dec
        self.p.n_dec += 1
        self.emit(f"if d[{i}]:", kind="branch", dec=i)
        self.ind += 1
        self.depth += 1
        e1 = self.block(env.copy(), max(1, n // 2))
        self.ind -= 1
        if self.rng.random() < 0.6:
            self.emit("else:")
            self.ind += 1
            e2 = self.block(env.copy(), max(1, n - n // 2))
            self.ind -= 1
        else:
            e2 = env.copy()
        self.depth -= 1
        self.p.features.add("branch")
        return Env.join(e1, e2)

    def st_loop(self, env):
        i = self.p.n_dec
        self.p.n_dec += 1
        if self.rng.random() < 0.5:
            self.emit(f"for _i{i} in range(d[{i}]):", kind="loop", dec=i)
        else:
            c = self.fresh("n")          # loop counter: never registered in env, so nothing else reads or writes it
            self.emit(f"{c} = 0", kind="def", var=c, construct="const-assign")
            self.emit(f"while {c} < d[{i}]:", kind="loop", dec=i)
            self.ind += 1
            self.emit(f"{c} = {c} + 1", kind="def", var=c, construct="binary-fold-in-loop", operator="+")
            self.ind -= 1
        self.ind += 1
        self.depth += 1
        self.in_loop = True
        e1 = self.block(env.copy(), self.rng.choice([1, 2, 3]))
        self.in_loop = False
        self.depth -= 1
        self.ind -= 1
        self.p.features.add("loop")
        out = Env.join(e1, env.copy())
        for v in out.card:
            out.card[v] = min(64, out.card[v] * 2)
            if out.tag.get(v) != env.tag.get(v):
                out.tag[v] = "loop-join"
        return out

    def generate(self):
        self.declare()
        self.emit(f"def main_{self.uid}(d):", kind="method", name="main", params=["d"])
        self.ind = 1
        env = Env()
        # a few starting facts so that every statement kind has operands
        self.st_const_int(env)
        self.st_alloc(env)
        if not self.c09:
            self.st_const_str(env)
        # the two scripted families are placed between two random halves (each in about 60 % of the programs); one decision
        # is kept in reserve for the multi-exit helper
        want_late = self.rng.random() < 0.6
        want_exits = self.rng.random() < 0.6
        want_partly = (not self.c09) and self.rng.random() < 0.6
        self.max_dec = self.hard_max_dec - int(want_exits) - int(want_partly)
        env = self.block(env, self.size // 2)
        todo = [f for f, w in ((self.sc_nested_late, want_late), (self.sc_multi_exit, want_exits),
                               (self.sc_partly_unknown, want_partly)) if w]
        self.rng.shuffle(todo)
        for f in todo:
            f(env)
        env = self.block(env, self.size - self.size // 2)
        if self.c09:
            for v, t in sorted(env.types.items()):
                if t == "int" and self.rng.random() < 0.7:
                    self.st_probe(env, v, final=True)
            for v in self.inst_vars(env, kinds=("inst",)):
                if self.rng.random() < 0.5:
                    self.st_probe(env, v, final=True)
        self.emit("return 0")
        self.ind = 0
        if self.p.literals:
            self.p.slot = self.rng.choice(self.p.literals)
            if ast.literal_eval(self.p.slot[1]) == "":
                others = [l for l in self.p.literals if ast.literal_eval(l[1]) != ""]
                self.p.slot = self.rng.choice(others) if others else None
        self.p.features |= {f"helper:{k}:{min(n, 2)}-site" for k, n in self.call_sites.items()}
        return self.p


def generate(seed, uid, mode, **kw):
    rng = random.Random(seed)
    return Gen(rng, uid, mode, **kw).generate()


# ---------------------------------------------------------------------------------------------------------------------
# scripted programs: explosive literals (cost model) — kept apart from the random ones because they need their own child

def explosive_programs(uid_base):
    out = []
    bodies = [
        ("pow-tower", "x = 9 ** 9 ** 9"),
        ("pow", "x = 7 ** 100000000"),
        ("str-repeat", 's = "ab" * 1000000000'),
        ("lshift", "x = 1 << 4000000000"),
        ("str-repeat-via-variables", 'a = "ab"\n    n = 2000000000\n    s = a * n'),
        ("pow-via-variables", "a = 9\n    b = 387420489\n    x = a ** b"),
    ]
    for i, (name, body) in enumerate(bodies):
        uid = f"{uid_base}x{i}"
        text = f"def main_{uid}(d):\n    {body}\n    y = 5\n    return y\n"
        out.append({"uid": uid, "name": name, "text": text, "entry": f"main_{uid}"})
    return out


# ---------------------------------------------------------------------------------------------------------------------
# CPython oracle

class Raised(Exception):
    pass


def snapshot(v, alloc, depth, _seen=()):
    if isinstance(v, bool):
        return ("c", "bool", v)
    if isinstance(v, int):
        return ("c", "int", v)
    if isinstance(v, str):
        return ("c", "str", v)
    if v is None:
        return ("c", "none", None)
    if isinstance(v, float):
        return ("c", "float", v)
    line = alloc.get(id(v), -1)
    if isinstance(v, list):
        kind = "list"
    elif isinstance(v, dict):
        kind = "dict"
    else:
        kind = type(v).__name__
    if depth <= 0 or id(v) in _seen:
        return ("o", line, kind, None, None)
    seen = _seen + (id(v),)
    if isinstance(v, list):
        return ("o", line, kind, {}, [snapshot(x, alloc, depth - 1, seen) for x in v])
    if isinstance(v, dict):
        return ("o", line, kind, {str(k): snapshot(x, alloc, depth - 1, seen) for k, x in v.items()}, [])
    return ("o", line, kind, {k: snapshot(x, alloc, depth - 1, seen) for k, x in vars(v).items()}, [])


def run_traced(prog, dvec, depth=3, budget=20000):
    """Run main_<uid>(dvec) in CPython.  Returns dict(status, defs=[(line, var, value)], probes=[(label, value)],
    lines_executed=set).  A definition event is logged when the line that assigns the variable has completed."""
    filename = f"<prog_{prog.uid}>"
    text = prog.text
    meta = prog.meta
    alloc = {}
    keep = []
    defs = []
    probes = []
    executed = set()
    steps = [0]
    pending = {}

    def probe(label, v):
        probes.append((label, snapshot(v, alloc, 1)))

    def complete(frame, line):
        m = meta.get(line)
        if not m:
            return
        var = m.get("var")
        if m["kind"] in ("def", "alloc", "fieldwrite") and var is not None and var in frame.f_locals:
            val = frame.f_locals[var]
            if m["kind"] == "alloc" and id(val) not in alloc:
                alloc[id(val)] = line
                keep.append(val)
            if m["kind"] != "alloc" and not isinstance(val, (int, str, float, bool, type(None))) and id(val) not in alloc:
                keep.append(val)
            defs.append((line, var, snapshot(val, alloc, depth), stack_depth(frame)))

    def stack_depth(frame):
        n = 0
        while frame is not None:
            if frame.f_code.co_filename == filename and frame.f_code.co_name != "<module>":
                n += 1
            frame = frame.f_back
        return n

    def tracer(frame, event, arg):
        if frame.f_code.co_filename != filename:
            return None
        if event == "call":
            m = meta.get(frame.f_code.co_firstlineno)
            if m and m.get("kind") == "method":
                if m.get("name") == "__init__" and "self" in frame.f_locals and frame.f_back is not None:
                    obj = frame.f_locals["self"]
                    if id(obj) not in alloc:
                        alloc[id(obj)] = frame.f_back.f_lineno
                        keep.append(obj)
                for p in m.get("params", []):
                    if p in frame.f_locals and m.get("name") != "main":
                        defs.append((frame.f_code.co_firstlineno, p, snapshot(frame.f_locals[p], alloc, depth), stack_depth(frame)))
            return tracer
        if event == "line":
            steps[0] += 1
            if steps[0] > budget:
                raise Raised("budget")
            prev = pending.get(id(frame))
            if prev is not None:
                complete(frame, prev)
            pending[id(frame)] = frame.f_lineno
            executed.add(frame.f_lineno)
        elif event == "return":
            prev = pending.pop(id(frame), None)
            if prev is not None:
                complete(frame, prev)
        return tracer

    # opaque_<uid> / opaques_<uid>: functions the analysed program does not define (unresolved calls for lian); their results
    # are values no constant of the program equals
    ns = {f"probe_{prog.uid}": probe, f"opaque_{prog.uid}": (lambda v: 1000003 + 7 * v),
          f"opaques_{prog.uid}": (lambda v: "<" + v + ">"), "__name__": "__verif__"}
    try:
        code = compile(text, filename, "exec")
    except SyntaxError as e:
        return {"status": "syntax", "error": str(e)}
    old = sys.gettrace()
    try:
        exec(code, ns)
        sys.settrace(tracer)
        try:
            ns[prog.entry](list(dvec))
            status = "ok"
            err = None
        except Raised as e:
            status, err = "budget", str(e)
        except Exception as e:
            status, err = "raise", type(e).__name__ + ": " + str(e)[:200]
    finally:
        sys.settrace(old)
    return {"status": status, "error": err, "defs": defs, "probes": probes, "executed": executed}


def all_vectors(n):
    return list(itertools.product((0, 1), repeat=n))


def sample_vectors(n, rng, k=4):
    if n == 0:
        return [()]
    vs = [tuple([1] * n), tuple([0] * n)]
    while len(vs) < min(k, 2 ** n):
        v = tuple(rng.randrange(2) for _ in range(n))
        if v not in vs:
            vs.append(v)
    return vs
