"""CPython as ground truth: run a generated program (module top level, then entry(*args)) in a clean namespace with
`out` injected and a line-event step budget. Also records the executed line sequence per activation when asked."""
import signal
import sys


class Budget(Exception):
    pass


def run_cpython(src, entry="main", args=(), budget=200000, want_lines=False, filename="<prog>"):
    outputs = []

    def out(*a):
        outputs.append(tuple(repr(x) for x in a))

    ns = {"out": out, "__name__": "__verif__"}
    steps = [0]
    lines = []

    def tracer(frame, event, arg):
        if frame.f_code.co_filename != filename:
            return None
        if event == "line":
            steps[0] += 1
            if steps[0] > budget:
                raise Budget()
            if want_lines:
                lines.append((id(frame), frame.f_code.co_name, frame.f_lineno))
        return tracer
    try:
        code = compile(src, filename, "exec")
    except SyntaxError as e:
        return {"status": "syntax", "error": str(e)}
    old = sys.gettrace()

    def on_alarm(signum, frame):
        raise Budget()
    old_handler = None
    try:
        old_handler = signal.signal(signal.SIGALRM, on_alarm)      # wall-clock guard: bignum arithmetic is not line-bounded
        signal.setitimer(signal.ITIMER_REAL, 5.0)
    except ValueError:
        old_handler = None
    sys.settrace(tracer)
    try:
        try:
            exec(code, ns)
            ret = ns[entry](*args) if entry else None
            res = {"status": "ok", "outputs": outputs, "ret": repr(ret)}
        except Budget:
            res = {"status": "budget", "outputs": outputs}
        except RecursionError:
            res = {"status": "raise", "error": "RecursionError", "outputs": outputs}
        except Exception as e:
            res = {"status": "raise", "error": type(e).__name__ + ": " + str(e)[:200], "outputs": outputs}
    finally:
        sys.settrace(old)
        if old_handler is not None:
            signal.setitimer(signal.ITIMER_REAL, 0)
            signal.signal(signal.SIGALRM, old_handler)
    if want_lines:
        res["lines"] = lines
    return res
