"""CPython as ground truth: run a generated program (module top level, then entry(*args)) in a clean namespace with
`out` injected and a line-event step budget. Also records the executed line sequence per activation when asked."""
import sys


class Budget(Exception):
    pass


def run_cpython(src, entry="main", args=(), budget=200000, want_lines=False, filename="<prog>"):
    outputs = []

    def out(*a):
        outputs.append(tuple(repr(x) for x in a))

    ns = {"out": out, "__name__": "__verif__"}
    steps = [0]
    lines = []

    def tracer(frame, event, arg):
        if frame.f_code.co_filename != filename:
            return None
        if event == "line":
            steps[0] += 1
            if steps[0] > budget:
                raise Budget()
            if want_lines:
                lines.append((id(frame), frame.f_code.co_name, frame.f_lineno))
        return tracer
    try:
        code = compile(src, filename, "exec")
    except SyntaxError as e:
        return {"status": "syntax", "error": str(e)}
    old = sys.gettrace()
    sys.settrace(tracer)
    try:
        try:
            exec(code, ns)
            ret = ns[entry](*args) if entry else None
            res = {"status": "ok", "outputs": outputs, "ret": repr(ret)}
        except Budget:
            res = {"status": "budget", "outputs": outputs}
        except RecursionError:
            res = {"status": "raise", "error": "RecursionError", "outputs": outputs}
        except Exception as e:
            res = {"status": "raise", "error": type(e).__name__ + ": " + str(e)[:200], "outputs": outputs}
    finally:
        sys.settrace(old)
    if want_lines:
        res["lines"] = lines
    return res
